(* Refinement: ParseRoute.loop (indexes into url, nth_error, fuel) computes the same
   verdict as LMachine.lrun (suffix of url), never Panic, never OutOfFuel. *)
From FoxBase Require Import Bytes.
Import List ListNotations.
From FoxPattern Require Import ParseRoute LMachine.
Require Import Lia.
Open Scope char_scope.
Open Scope nat_scope.

Definition absf (s : st) (i : nat) (hl : ascii) : ast :=
  mkA (state s) (pstate_eqb (previous s) StCatchAll) (paramCnt s) (countStatic s) (i - startParam s)
      (inParam s) (nonNumeric s) (partlen s) (totallen s) (last s) hl.

Record Rel (url : bytes) (eh : nat) (pre suf : bytes) (s : st) (hostne host : bool) (prevc : ascii) (a : ast) : Prop := mkRel {
  r_url : url = pre ++ suf;
  r_eh : index_byte "/" url = Some eh;
  r_hostne : hostne = (0 <? eh);
  r_host : host = (length pre <=? eh);
  r_prevc : pre <> [] -> List.last pre "x" = prevc;
  r_delim : delim s = ldelim hostne host;
  r_abs : a = absf s (length pre) (a_hostlast a);
  r_sp : startParam s <= length pre;
  r_hostlast : host = false -> 0 < eh -> nth_error url (eh - 1) = Some (a_hostlast a);
  r_nodot : pre = [] -> hd_error suf <> Some "." }.

Lemma index_byte_spec c s n :
  index_byte c s = Some n ->
  nth_error s n = Some c /\ forall k, k < n -> nth_error s k <> Some c.
Proof.
  revert n; induction s as [|x s IH]; intros n H; simpl in H; [discriminate|].
  destruct (Ascii.eqb_spec x c) as [->|Hne].
  - inversion H; subst; split; [reflexivity|intros k Hk; lia].
  - destruct (index_byte c s) as [m|] eqn:E; [|discriminate].
    inversion H; subst. destruct (IH m eq_refl) as [H1 H2]. split; [exact H1|].
    intros [|k] Hk; simpl; [congruence|apply H2; lia].
Qed.

Lemma nth_error_mid {A} (pre : list A) c r : nth_error (pre ++ c :: r) (length pre) = Some c.
Proof. rewrite nth_error_app2 by lia. now rewrite Nat.sub_diag. Qed.

Lemma nth_error_mid1 {A} (pre : list A) c r : nth_error (pre ++ c :: r) (S (length pre)) = hd_error r.
Proof.
  rewrite nth_error_app2 by lia. replace (S (length pre) - length pre) with 1 by lia.
  destruct r; reflexivity.
Qed.

Lemma nth_error_last {A} (pre : list A) d suf :
  pre <> [] -> nth_error (pre ++ suf) (length pre - 1) = Some (List.last pre d).
Proof.
  intros Hne. destruct (exists_last Hne) as (l & x & ->).
  rewrite last_last, app_length; simpl.
  replace (length l + 1 - 1) with (length l) by lia.
  rewrite <- app_assoc; simpl. apply nth_error_mid.
Qed.

Lemma match_pred {A} (n : nat) (x : A) (f : nat -> A) :
  0 < n -> match n with 0 => x | S j => f j end = f (n - 1).
Proof. destruct n; [lia|]. intros _. simpl. now rewrite Nat.sub_0_r. Qed.

Section Refine.
Variables (mp mk : nat).

Lemma pos_lt url eh pre c r :
  url = pre ++ c :: r -> index_byte "/" url = Some eh ->
  (length pre <? eh) = (length pre <=? eh) && negb (Ascii.eqb c "/").
Proof.
  intros -> He. destruct (index_byte_spec _ _ _ He) as [H1 H2].
  destruct (Ascii.eqb_spec c "/") as [->|Hne].
  - rewrite andb_false_r. apply Nat.ltb_ge. destruct (Nat.lt_ge_cases (length pre) eh) as [Hlt|]; [|assumption].
    exfalso. apply (H2 _ Hlt). apply nth_error_mid.
  - rewrite andb_true_r. destruct (Nat.eq_dec (length pre) eh) as [E|E].
    + exfalso. rewrite <- E, nth_error_mid in H1. congruence.
    + destruct (Nat.ltb_spec (length pre) eh), (Nat.leb_spec (length pre) eh); try reflexivity; lia.
Qed.

Lemma pos_eq url eh pre c r :
  url = pre ++ c :: r -> index_byte "/" url = Some eh ->
  (length pre =? eh) = (length pre <=? eh) && Ascii.eqb c "/".
Proof.
  intros Hu He. pose proof (pos_lt _ _ _ _ _ Hu He) as Hlt.
  destruct (Ascii.eqb_spec c "/"); simpl in *;
  destruct (Nat.ltb_spec (length pre) eh), (Nat.leb_spec (length pre) eh), (Nat.eqb_spec (length pre) eh);
    simpl in *; try reflexivity; try discriminate; try lia.
Qed.

Lemma last_snoc {A} (l : list A) x d : List.last (l ++ [x]) d = x.
Proof. apply last_last. Qed.

Ltac dest_eqb c x :=
  let E := fresh "E" in destruct (Ascii.eqb_spec c x) as [E|E]; [try subst c|].

(* the ten fields of Rel for the successor state; the three arguments solve
   the host flag, delim and hostlast fields *)
Ltac rel10 thost tdelim thl :=
  constructor;
  [ assumption | assumption | assumption | thost | assumption | tdelim
  | unfold absf; cbn;
    repeat match goal with H : state _ = _ |- _ => rewrite H end; cbn;
    repeat match goal with H : length (_ ++ [_]) = _ |- _ => rewrite H end; f_equal; lia
  | cbn; lia
  | thl
  | assumption ].

(* one iteration *)
Lemma step_refines url eh pre c r s hostne host prevc a :
  Rel url eh pre (c :: r) s hostne host prevc a ->
  match lstep mp mk hostne host prevc c (hd_error r) a with
  | LStop => exists k, step mp mk url eh (length pre) s = Stop (Reject k)
  | LNext host' a' =>
      exists s', step mp mk url eh (length pre) s = Next (S (length pre)) s' /\
                 Rel url eh (pre ++ [c]) r s' hostne host' c a'
  | LSkip a' =>
      exists c2 r' s', r = c2 :: r' /\
                 step mp mk url eh (length pre) s = Next (S (S (length pre))) s' /\
                 Rel url eh (pre ++ [c; c2]) r' s' hostne false c2 a'
  end.
Proof.
  intros [Hurl Heh Hhn Hhost Hprevc Hdelim Habs Hsp Hhl Hnodot].
  pose proof (pos_lt _ _ _ _ _ Hurl Heh) as Hlt.
  pose proof (pos_eq _ _ _ _ _ Hurl Heh) as Heq.
  rewrite <- Hhost in Hlt, Heq.
  assert (Hi : nth_error url (length pre) = Some c) by (subst url; apply nth_error_mid).
  assert (Hi1 : nth_error url (S (length pre)) = hd_error r) by (subst url; apply nth_error_mid1).
  assert (Hlen : length url = length pre + S (length r)) by (subst url; rewrite app_length; reflexivity).
  assert (Hurl' : url = (pre ++ [c]) ++ r) by (rewrite <- app_assoc; exact Hurl).
  assert (Hlen' : length (pre ++ [c]) = S (length pre)) by (rewrite app_length; simpl; lia).
  assert (Hhost' : (host && negb (Ascii.eqb c "/")) = (length (pre ++ [c]) <=? eh)).
  { rewrite Hlen', <- Hlt. destruct (Nat.ltb_spec (length pre) eh), (Nat.leb_spec (S (length pre)) eh); try reflexivity; lia. }
  assert (Hpc : pre ++ [c] <> [] -> List.last (pre ++ [c]) "x" = c) by (intros _; apply last_last).
  assert (Hnd : pre ++ [c] = [] -> hd_error r <> Some ".") by (intros Ex; destruct pre; discriminate).
  assert (Hhl' : forall h', h' = false -> host = false -> 0 < eh -> nth_error url (eh - 1) = Some (a_hostlast a)) by (intros; auto).
  rewrite Habs. unfold lstep, step, absf; cbn [a_state a_prevCatch a_cnt a_cs a_klen a_inParam a_nonNum a_partlen a_totallen a_last a_hostlast].
  destruct (state s) eqn:Est.
  - (* default *)
    unfold step_default, step_default_body, at_. rewrite Hi, Heq.
    dest_eqb c "{".
    + (* '{' *)
      simpl. rewrite andb_false_r. cbn [paramCnt set_paramCnt set_startParam set_state].
      destruct (mp <? S (paramCnt s)); [eexists; reflexivity|].
      eexists; split; [reflexivity|].
      rel10 ltac:(rewrite <- Hhost'; now rewrite andb_true_r) ltac:(exact Hdelim) ltac:(exact Hhl).
    + dest_eqb c "*".
      * (* '*' *)
        simpl. rewrite andb_false_r, Hlt; simpl. rewrite andb_true_r.
        destruct host; [eexists; reflexivity|].
        rewrite Hlen. destruct r as [|c2 r']; simpl.
        { replace (length pre + 1 <=? S (length pre)) with true by (symmetry; apply Nat.leb_le; lia). eexists; reflexivity. }
        replace (length pre + S (S (length r')) <=? S (length pre)) with false by (symmetry; apply Nat.leb_gt; lia).
        simpl in Hi1. rewrite Hi1.
        destruct (Ascii.eqb_spec c2 "{") as [->|Hc2]; simpl; [|eexists; reflexivity].
        cbn [paramCnt set_paramCnt set_startParam set_state].
        destruct (mp <? S (paramCnt s)); [eexists; reflexivity|].
        do 3 eexists; split; [reflexivity|split; [reflexivity|]].
        assert (Hl2 : length (pre ++ ["*"; "{"]) = S (S (length pre))) by (rewrite app_length; simpl; lia).
        constructor.
        -- rewrite <- app_assoc; exact Hurl.
        -- exact Heh.
        -- exact Hhn.
        -- rewrite Hl2. symmetry. apply Nat.leb_gt. symmetry in Hhost. apply Nat.leb_gt in Hhost. lia.
        -- intros _. replace (pre ++ ["*"; "{"]) with ((pre ++ ["*"]) ++ ["{"]) by (now rewrite <- app_assoc). apply last_last.
        -- exact Hdelim.
        -- unfold absf; cbn. rewrite Hl2. f_equal. lia.
        -- cbn. lia.
        -- exact Hhl.
        -- intros Ex; destruct pre; discriminate.
      * (* static byte *)
        simpl. rewrite Hlt.
        destruct (host && negb (Ascii.eqb c "/")) eqn:Einh.
        -- (* inside the hostname *)
           assert (Hh : host = true) by (destruct host; [reflexivity|discriminate]).
           assert (Hcs : Ascii.eqb c "/" = false) by (destruct (Ascii.eqb c "/"); [rewrite Hh in Einh; discriminate|reflexivity]).
           rewrite Hh, Hcs. rewrite Hh in Hdelim. simpl.
           destruct (is_alpha_us c).
           { cbn [paramCnt set_last set_partlen set_nonNumeric set_countStatic].
             destruct (mp <? paramCnt s) eqn:Emp; [eexists; reflexivity|].
             eexists; split; [reflexivity|].
             rel10 ltac:(exact Hhost') ltac:(exact Hdelim) ltac:(discriminate). }
           destruct (is_digit c).
           { cbn [paramCnt set_last set_partlen set_nonNumeric set_countStatic].
             destruct (mp <? paramCnt s) eqn:Emp; [eexists; reflexivity|].
             eexists; split; [reflexivity|].
             rel10 ltac:(exact Hhost') ltac:(exact Hdelim) ltac:(discriminate). }
           dest_eqb c "-".
           { simpl. cbn [last set_countStatic].
             destruct (Ascii.eqb (last s) "."); [eexists; reflexivity|].
             cbn [paramCnt set_last set_partlen set_nonNumeric set_countStatic].
             destruct (mp <? paramCnt s) eqn:Emp; [eexists; reflexivity|].
             eexists; split; [reflexivity|].
             rel10 ltac:(exact Hhost') ltac:(exact Hdelim) ltac:(discriminate). }
           dest_eqb c ".".
           { simpl. cbn [last set_countStatic partlen].
             destruct (Ascii.eqb (last s) ".") eqn:Eld; simpl.
             - (* url[i-1] is evaluated *)
               destruct pre as [|p0 pre0] eqn:Epre.
               { exfalso. apply (Hnodot eq_refl). reflexivity. }
               rewrite <- Epre in *.
               assert (Hpn : pre <> []) by (rewrite Epre; discriminate).
               assert (Hprev : nth_error url (length pre - 1) = Some prevc).
               { rewrite Hurl, (nth_error_last pre "x") by exact Hpn. f_equal. apply Hprevc, Hpn. }
               assert (Hlp : 0 < length pre) by (rewrite Epre; simpl; lia).
               rewrite (match_pred _ _ _ Hlp).
               unfold at_. rewrite Hprev.
               destruct (Ascii.eqb prevc "}"); simpl; [|eexists; reflexivity].
               destruct (Ascii.eqb (last s) "-"); [eexists; reflexivity|].
               destruct (max_label <? partlen s); [eexists; reflexivity|].
               cbn [paramCnt set_last set_partlen set_totallen set_countStatic].
               destruct (mp <? paramCnt s) eqn:Emp; [eexists; reflexivity|].
               eexists; split; [reflexivity|].
               rel10 ltac:(exact Hhost') ltac:(exact Hdelim) ltac:(discriminate).
             - destruct (Ascii.eqb (last s) "-"); [eexists; reflexivity|].
               destruct (max_label <? partlen s); [eexists; reflexivity|].
               cbn [paramCnt set_last set_partlen set_totallen set_countStatic].
               destruct (mp <? paramCnt s) eqn:Emp; [eexists; reflexivity|].
               eexists; split; [reflexivity|].
               rel10 ltac:(exact Hhost') ltac:(exact Hdelim) ltac:(discriminate). }
           eexists; reflexivity.
        -- (* past the hostname, or the first '/' *)
           destruct (host && Ascii.eqb c "/") eqn:Efs.
           ++ (* the first '/' *)
              assert (Hh : host = true) by (destruct host; [reflexivity|discriminate]).
              assert (Hce : Ascii.eqb c "/" = true) by (destruct (Ascii.eqb c "/"); [reflexivity|rewrite Hh in Efs; discriminate]).
              cbn [paramCnt countStatic set_countStatic set_delim].
              destruct (mp <? paramCnt s) eqn:Emp; [eexists; reflexivity|].
              eexists; split; [reflexivity|].
              rel10 ltac:(exact Hhost') ltac:(reflexivity) ltac:(idtac).
              cbn. intros _ Hpos. rewrite Hh.
              apply Nat.eqb_eq in Heq.
              assert (Hpn : pre <> []) by (intros ->; simpl in Heq; lia).
              rewrite <- Heq, Hurl, (nth_error_last pre "x") by exact Hpn. f_equal. apply Hprevc, Hpn.
           ++ assert (Hh : host = false).
              { destruct host; [|reflexivity]. destruct (Ascii.eqb c "/"); discriminate. }
              cbn [paramCnt countStatic set_countStatic set_delim].
              destruct (mp <? paramCnt s) eqn:Emp; [eexists; reflexivity|].
              eexists; split; [reflexivity|].
              rewrite Hh in Hdelim.
              rel10 ltac:(exact Hhost') ltac:(exact Hdelim) ltac:(rewrite Hh; cbn; intros _; exact (Hhl Hh)).
  - (* param *)
    unfold step_param, at_. rewrite Hi, ?Hi1.
    dest_eqb c "}".
    + simpl. cbn [inParam set_inParam delim].
      destruct (inParam s); simpl; [|eexists; reflexivity].
      rewrite Hlen.
      assert (Hc : Ascii.eqb "}" "/" = false) by reflexivity.
      rewrite Hc, andb_true_r in Hlt, Hhost'.
      destruct r as [|n r']; simpl.
      * replace (S (length pre) <? length pre + 1) with false by (symmetry; apply Nat.ltb_ge; lia).
        eexists; split; [reflexivity|].
        rewrite Hlt.
        destruct host; rel10 ltac:(exact Hhost') ltac:(exact Hdelim) ltac:(exact Hhl).
      * replace (S (length pre) <? length pre + S (S (length r'))) with true by (symmetry; apply Nat.ltb_lt; lia).
        rewrite Hdelim.
        destruct (Ascii.eqb n (ldelim hostne host) || Ascii.eqb n "/") eqn:En.
        -- apply orb_true_iff in En.
           replace (negb (Ascii.eqb n (ldelim hostne host)) && negb (Ascii.eqb n "/")) with false
             by (destruct En as [-> | ->]; simpl; [reflexivity|now rewrite andb_false_r]).
           simpl. eexists; split; [reflexivity|].
           rewrite Hlt.
           destruct host; rel10 ltac:(exact Hhost') ltac:(exact Hdelim) ltac:(exact Hhl).
        -- apply orb_false_iff in En. destruct En as [-> ->]. simpl. eexists; reflexivity.
    + simpl.
      destruct (mk <? length pre - startParam s); [eexists; reflexivity|].
      rewrite Hdelim.
      destruct (Ascii.eqb c (ldelim hostne host) || Ascii.eqb c "/" || Ascii.eqb c "*" || Ascii.eqb c "{") eqn:Ebad;
        [eexists; reflexivity|].
      eexists; split; [reflexivity|].
      apply orb_false_iff in Ebad. destruct Ebad as [Ebad _]. apply orb_false_iff in Ebad. destruct Ebad as [Ebad _].
      apply orb_false_iff in Ebad. destruct Ebad as [_ Ecs].
      rewrite Ecs, andb_true_r in Hhost'.
      rel10 ltac:(exact Hhost') ltac:(exact Hdelim) ltac:(exact Hhl).
  - (* catch-all *)
    unfold step_catchall, at_. rewrite Hi, ?Hi1.
    dest_eqb c "}".
    + simpl. cbn [inParam set_inParam].
      destruct (inParam s); simpl; [|eexists; reflexivity].
      rewrite Hlen.
      assert (Hc : Ascii.eqb "}" "/" = false) by reflexivity.
      rewrite Hc, andb_true_r in Hhost'.
      destruct r as [|n r']; simpl.
      * replace (S (length pre) <? length pre + 1) with false by (symmetry; apply Nat.ltb_ge; lia).
        cbn [previous countStatic set_inParam].
        destruct (pstate_eqb (previous s) StCatchAll && (countStatic s <=? 1)); [eexists; reflexivity|].
        eexists; split; [reflexivity|].
        rel10 ltac:(exact Hhost') ltac:(exact Hdelim) ltac:(exact Hhl).
      * replace (S (length pre) <? length pre + S (S (length r'))) with true by (symmetry; apply Nat.ltb_lt; lia).
        destruct (Ascii.eqb n "/"); simpl; [|eexists; reflexivity].
        cbn [previous countStatic set_inParam].
        destruct (pstate_eqb (previous s) StCatchAll && (countStatic s <=? 1)); [eexists; reflexivity|].
        eexists; split; [reflexivity|].
        rel10 ltac:(exact Hhost') ltac:(exact Hdelim) ltac:(exact Hhl).
    + simpl.
      destruct (mk <? length pre - startParam s); [eexists; reflexivity|].
      destruct (Ascii.eqb c "/" || Ascii.eqb c "*" || Ascii.eqb c "{") eqn:Ebad; [eexists; reflexivity|].
      eexists; split; [reflexivity|].
      apply orb_false_iff in Ebad. destruct Ebad as [Ebad _]. apply orb_false_iff in Ebad. destruct Ebad as [Ecs _].
      rewrite Ecs, andb_true_r in Hhost'.
      rel10 ltac:(exact Hhost') ltac:(exact Hdelim) ltac:(exact Hhl).
Qed.


Definition erase (r : result) : option nat := match r with Accept n _ => Some n | _ => None end.
(* neither Panic nor OutOfFuel, and an accepted pattern reports endHost *)
Definition good (eh : nat) (r : result) : Prop :=
  match r with Accept _ e => e = eh | Reject _ => True | Panic | OutOfFuel => False end.

Lemma index_byte_lt c s n : index_byte c s = Some n -> n < length s.
Proof. intros H. apply index_byte_spec in H. apply nth_error_Some. destruct H as [-> _]. discriminate. Qed.

Lemma finish_refines url eh pre s hostne host prevc a :
  Rel url eh pre [] s hostne host prevc a ->
  good eh (finish url eh s) /\ erase (finish url eh s) = lfinish hostne a.
Proof.
  intros [Hurl Heh Hhn Hhost Hprevc Hdelim Habs Hsp Hhl Hnodot].
  rewrite app_nil_r in Hurl. subst pre.
  pose proof (index_byte_lt _ _ _ Heh) as Hlt.
  assert (Hh : host = false) by (rewrite Hhost; apply Nat.leb_gt; exact Hlt).
  assert (Hlast : exists z, nth_error url (length url - 1) = Some z).
  { destruct (nth_error url (length url - 1)) eqn:E; [eauto|]. apply nth_error_None in E. lia. }
  destruct Hlast as [z Hz].
  assert (Htail : forall s', state s' = state s -> paramCnt s' = paramCnt s ->
     good eh (match state s' with
              | StParam => Reject EUnclosedParam
              | StCatchAll => match nth_error url (length url - 1) with
                              | None => Panic
                              | Some c => if Ascii.eqb c "*" then Reject EMissingBrace else Reject EUnclosedCatchAll
                              end
              | StDefault => Accept (paramCnt s') eh end) /\
     erase (match state s' with
              | StParam => Reject EUnclosedParam
              | StCatchAll => match nth_error url (length url - 1) with
                              | None => Panic
                              | Some c => if Ascii.eqb c "*" then Reject EMissingBrace else Reject EUnclosedCatchAll
                              end
              | StDefault => Accept (paramCnt s') eh end) =
     match state s with StDefault => Some (paramCnt s) | _ => None end).
  { intros s' -> ->. rewrite Hz. destruct (state s); simpl; auto. destruct (Ascii.eqb z "*"); simpl; auto. }
  rewrite Habs. unfold finish, lfinish, absf; cbn [a_state a_cnt a_last a_hostlast a_nonNum a_partlen a_totallen].
  rewrite Hhn. destruct (0 <? eh) eqn:Epos.
  - apply Nat.ltb_lt in Epos. rewrite (Hhl Hh Epos).
    cbn [last set_totallen nonNumeric partlen totallen].
    destruct (Ascii.eqb (last s) "-"); [simpl; auto|].
    destruct (Ascii.eqb (a_hostlast a) "."); [simpl; auto|].
    destruct (negb (nonNumeric s)); [simpl; auto|].
    destruct (max_label <? partlen s); [simpl; auto|].
    destruct (max_host <? totallen s + partlen s); [simpl; auto|].
    apply Htail; reflexivity.
  - apply Htail; reflexivity.
Qed.

Lemma loop_refines : forall fuel url eh pre suf s hostne host prevc a,
  length suf <= fuel ->
  Rel url eh pre suf s hostne host prevc a ->
  good eh (loop fuel mp mk url eh (length pre) s) /\
  erase (loop fuel mp mk url eh (length pre) s) = lrun mp mk hostne host prevc suf a.
Proof.
  induction fuel as [|fuel IH]; intros url eh pre suf s hostne host prevc a Hf HR.
  - destruct suf; [|simpl in Hf; lia].
    simpl. assert (Hl : length url = length pre) by (rewrite (r_url _ _ _ _ _ _ _ _ _ HR), app_nil_r; reflexivity).
    rewrite Hl, Nat.ltb_irrefl. eapply finish_refines; eauto.
  - destruct suf as [|c r].
    + cbn [loop lrun].
      assert (Hl : length url = length pre) by (rewrite (r_url _ _ _ _ _ _ _ _ _ HR), app_nil_r; reflexivity).
      rewrite Hl, Nat.ltb_irrefl. eapply finish_refines; eauto.
    + cbn [loop lrun].
      assert (Hl : length pre <? length url = true).
      { rewrite (r_url _ _ _ _ _ _ _ _ _ HR), app_length. apply Nat.ltb_lt. simpl. lia. }
      rewrite Hl.
      pose proof (step_refines _ _ _ _ _ _ _ _ _ _ HR) as Hs.
      destruct (lstep mp mk hostne host prevc c (hd_error r) a) as [|host' a'|a'].
      * destruct Hs as [k ->]. simpl; auto.
      * destruct Hs as (s' & -> & HR').
        assert (Hlen' : S (length pre) = length (pre ++ [c])) by (rewrite app_length; simpl; lia).
        rewrite Hlen'. apply IH; [simpl in Hf; lia|exact HR'].
      * destruct Hs as (c2 & r' & s' & -> & -> & HR').
        assert (Hlen' : S (S (length pre)) = length (pre ++ [c; c2])) by (rewrite app_length; simpl; lia).
        rewrite Hlen'. apply IH; [simpl in Hf; lia|exact HR'].
Qed.

(* top level: parseRoute in terms of the list machine *)
Lemma parseRoute_lrun url eh :
  index_byte "/" url = Some eh ->
  has_prefix1 "." url = false -> has_prefix1 "-" url = false ->
  good eh (parseRoute mp mk url) /\
  erase (parseRoute mp mk url) = lrun mp mk (0 <? eh) true "x" url a_init.
Proof.
  intros Heh Hd Hm. unfold parseRoute. rewrite Heh, Hd, Hm.
  change 0 with (length (@nil ascii)) at 1 4.
  apply loop_refines; [lia|].
  constructor.
  - reflexivity.
  - exact Heh.
  - reflexivity.
  - reflexivity.
  - intros H; contradiction.
  - destruct eh; reflexivity.
  - reflexivity.
  - cbn; lia.
  - intros H; discriminate.
  - intros _. destruct url as [|x url']; [discriminate|]. simpl in *. intros E. inversion E; subst. discriminate.
Qed.

Lemma parseRoute_reject_early url :
  (index_byte "/" url = None \/ has_prefix1 "." url = true \/ has_prefix1 "-" url = true) ->
  exists k, parseRoute mp mk url = Reject k.
Proof.
  unfold parseRoute. intros [H|[H|H]].
  - rewrite H. eauto.
  - destruct (index_byte "/" url); [rewrite H|]; eauto.
  - destruct (index_byte "/" url); [|eauto]. destruct (has_prefix1 "." url); [eauto|]. rewrite H. eauto.
Qed.

(* never Panic, never OutOfFuel, on any byte string under any limits *)
Lemma parseRoute_no_crash url : parseRoute mp mk url <> Panic /\ parseRoute mp mk url <> OutOfFuel.
Proof.
  destruct (index_byte "/" url) as [eh|] eqn:E.
  - destruct (has_prefix1 "." url) eqn:Hd.
    + destruct (parseRoute_reject_early url) as [k ->]; [auto|split; discriminate].
    + destruct (has_prefix1 "-" url) eqn:Hm.
      * destruct (parseRoute_reject_early url) as [k ->]; [auto|split; discriminate].
      * destruct (parseRoute_lrun url eh E Hd Hm) as [Hg _].
        destruct (parseRoute mp mk url); simpl in Hg; try contradiction; split; discriminate.
  - destruct (parseRoute_reject_early url) as [k ->]; [auto|split; discriminate].
Qed.

End Refine.
