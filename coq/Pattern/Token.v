(* FoxPattern.Token — patterns as token lists.

   INTERFACE (stable; other areas import this file)
     token                     TStatic c | TParam name | TCatch name
     tokenize : bytes -> list token
         lexes a pattern: '{' name '}' -> TParam, '*' '{' name '}' -> TCatch, any
         other byte -> TStatic.  Total; on patterns parseRoute rejects the result is
         unspecified (an unclosed wildcard is dropped, a '*' not followed by '{' is
         static).  For accepted patterns  render (tokenize p) = p  and
         tokenize p = pat_tokens of the grammar's syntax tree (FoxPattern.Props_C10).
     render_token / render     inverse rendering
     host_len p                length of the hostname part = index of the first '/'
                               (length p when there is none)
     tok_names ts              wildcard names in order
     tok_wilds ts              number of wildcard tokens
     subst ts vals             request text obtained by replacing the k-th wildcard
                               token by the k-th value (missing values = empty)
     catch_followed ts         some TCatch token is followed by a further token
     wild_spec off ts          the wildcards of a key whose tokens are ts, as parseWildcard must
                               report them: (name, end, catchAll) with end = offset (from off) of the
                               byte after the wildcard, or -1 when it closes the key
   No proofs in this file. *)
From FoxBase Require Import Bytes.
Import List ListNotations.
Open Scope char_scope.
Open Scope nat_scope.

Inductive token := TStatic (c : ascii) | TParam (n : bytes) | TCatch (n : bytes).

Definition token_eqb (a b : token) : bool :=
  match a, b with
  | TStatic x, TStatic y => Ascii.eqb x y
  | TParam x, TParam y => bytes_eqb x y
  | TCatch x, TCatch y => bytes_eqb x y
  | _, _ => false
  end.

Inductive tmode := MDefault | MParam | MCatch.

(* acc = name bytes read so far, reversed *)
Fixpoint tok (m : tmode) (acc : bytes) (s : bytes) : list token :=
  match s with
  | [] => []
  | c :: r =>
    match m with
    | MDefault =>
      if Ascii.eqb c "{" then tok MParam [] r
      else if Ascii.eqb c "*" then
        match r with
        | c' :: r' => if Ascii.eqb c' "{" then tok MCatch [] r' else TStatic c :: tok MDefault [] r
        | [] => TStatic c :: tok MDefault [] r
        end
      else TStatic c :: tok MDefault [] r
    | MParam =>
      if Ascii.eqb c "}" then TParam (rev acc) :: tok MDefault [] r else tok MParam (c :: acc) r
    | MCatch =>
      if Ascii.eqb c "}" then TCatch (rev acc) :: tok MDefault [] r else tok MCatch (c :: acc) r
    end
  end.

Definition tokenize (p : bytes) : list token := tok MDefault [] p.

Definition render_token (t : token) : bytes :=
  match t with
  | TStatic c => [c]
  | TParam n => "{" :: n ++ ["}"]
  | TCatch n => "*" :: "{" :: n ++ ["}"]
  end.

Definition render (ts : list token) : bytes := concat (map render_token ts).

Fixpoint host_len (p : bytes) : nat :=
  match p with
  | [] => 0
  | c :: r => if Ascii.eqb c "/" then 0 else S (host_len r)
  end.

Definition is_wild (t : token) : bool := match t with TStatic _ => false | _ => true end.
Definition is_catch (t : token) : bool := match t with TCatch _ => true | _ => false end.

Fixpoint tok_names (ts : list token) : list bytes :=
  match ts with
  | [] => []
  | TStatic _ :: r => tok_names r
  | TParam n :: r | TCatch n :: r => n :: tok_names r
  end.

Definition tok_wilds (ts : list token) : nat := length (filter is_wild ts).

Fixpoint subst (ts : list token) (vals : list bytes) : bytes :=
  match ts with
  | [] => []
  | TStatic c :: r => c :: subst r vals
  | _ :: r => match vals with v :: vs => v ++ subst r vs | [] => subst r [] end
  end.

Fixpoint catch_followed (ts : list token) : bool :=
  match ts with
  | [] => false
  | TCatch _ :: r => match r with [] => false | _ => true end || catch_followed r
  | _ :: r => catch_followed r
  end.

Definition wtuple := (bytes * Z * bool)%type.

Fixpoint wild_spec (off : nat) (ts : list token) : list wtuple :=
  match ts with
  | [] => []
  | t :: r =>
    let off' := off + length (render_token t) in
    let e := match r with [] => (-1)%Z | _ => Z.of_nat off' end in
    match t with
    | TStatic _ => wild_spec off' r
    | TParam n => (n, e, false) :: wild_spec off' r
    | TCatch n => (n, e, true) :: wild_spec off' r
    end
  end.
