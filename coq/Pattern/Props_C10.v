(* C10 property theorems: statements only, each closed by [exact].
   parseRoute / parseWildcard are the faithful models (ParseRoute.v, ParseWildcard.v);
   in_grammar is the documented grammar (Grammar.v); both limits are universally quantified. *)
From FoxBase Require Import Bytes.
Import List ListNotations.
From FoxPattern Require Import ParseRoute ParseWildcard Token Grammar ProofsRefine ProofsWild ProofsProps.
Open Scope char_scope.
Open Scope nat_scope.

(* -- registration never panics (nor runs out of fuel) on ANY byte string, under any limits -- *)
Theorem parseRoute_total : forall mp mk url,
  parseRoute mp mk url <> Panic /\ parseRoute mp mk url <> OutOfFuel.
Proof. exact parseRoute_no_crash. Qed.
Print Assumptions parseRoute_total.

Theorem parseWildcard_total : forall key, exists ps, parseWildcard key = WOk ps.
Proof. exact parseWildcard_never_panics. Qed.
Print Assumptions parseWildcard_total.

(* -- accepted exactly per the grammar: full statement (kept visible; refuted below) -- *)
Definition parseRoute_iff_grammar_statement : Prop :=
  forall mp mk s n eh, parseRoute mp mk s = Accept n eh <-> in_grammar mp mk s n eh.

(* what IS true of the code, for every string and both limits: it accepts exactly the
   grammar in which hostname labels may also contain '_' , with the grammar's wildcard
   count and host split *)
Theorem parseRoute_accepts_exactly : forall mp mk s n eh,
  parseRoute mp mk s = Accept n eh <-> in_grammar_with ldh_or_underscore mp mk s n eh.
Proof. exact accepts_exactly. Qed.
Print Assumptions parseRoute_accepts_exactly.

(* hence the full statement holds on every pattern without '_' in its hostname part ... *)
Theorem parseRoute_iff_grammar_partial : forall mp mk s n eh,
  forallb (fun c => negb (Ascii.eqb c "_")) (host_part s) = true ->
  (parseRoute mp mk s = Accept n eh <-> in_grammar mp mk s n eh).
Proof. exact grammar_partial. Qed.
Print Assumptions parseRoute_iff_grammar_partial.

(* ... and fails with it: "a_b/" is accepted, LDH forbids '_' (finding c10_underscore_hostname) *)
Theorem parseRoute_iff_grammar_refuted :
  exists mp mk s n eh, parseRoute mp mk s = Accept n eh /\ ~ in_grammar mp mk s n eh.
Proof. exact grammar_refuted. Qed.
Print Assumptions parseRoute_iff_grammar_refuted.

(* the decision procedure used by the correspondence check is the grammar *)
Theorem grammarb_iff_grammar : forall mp mk s n eh,
  grammarb mp mk s = Some (n, eh) <-> in_grammar mp mk s n eh.
Proof. exact grammarb_iff. Qed.
Print Assumptions grammarb_iff_grammar.

(* -- tokens of an accepted pattern: syntax tree, round trip, count, host split -- *)
Theorem accepted_pattern_tokens : forall mp mk s n eh,
  parseRoute mp mk s = Accept n eh ->
  exists p, render_pat p = s /\ wf_with ldh_or_underscore mp mk p = true /\
            tokenize s = pat_tokens p /\ n = wild_count p /\ eh = host_len s.
Proof. exact accepted_tokens. Qed.
Print Assumptions accepted_pattern_tokens.

Theorem tokenize_render_round_trip : forall mp mk s n eh,
  parseRoute mp mk s = Accept n eh -> render (tokenize s) = s.
Proof. exact tokenize_round_trip. Qed.
Print Assumptions tokenize_render_round_trip.

Theorem accepted_count_and_split : forall mp mk s n eh,
  parseRoute mp mk s = Accept n eh -> n = tok_wilds (tokenize s) /\ eh = host_len s.
Proof. exact accepted_count. Qed.
Print Assumptions accepted_count_and_split.

(* the configured limit on the parameter count holds for every accepted string, however long
   (used by the correspondence check for patterns with >= 65536 wildcards, which are not run
   through the model) *)
Theorem accepted_within_limit : forall mp mk s n eh,
  parseRoute mp mk s = Accept n eh -> n <= mp /\ n = tok_wilds (tokenize s).
Proof. exact within_limit. Qed.
Print Assumptions accepted_within_limit.

(* -- parseWildcard agrees with the validator: on any key cut from an accepted pattern at
      token boundaries it returns exactly the key's wildcards with their end offsets -- *)
Theorem parseWildcard_agrees : forall mp mk s n eh a b c,
  parseRoute mp mk s = Accept n eh -> tokenize s = a ++ b ++ c ->
  parseWildcard (render b) = WOk (map mkp (wild_spec 0 b)).
Proof. exact wildcard_agrees. Qed.
Print Assumptions parseWildcard_agrees.

(* -- non-vacuity -- *)
Example accepted_example :
  parseRoute 7 9 (S2B "{sub}.ex-ample.de{f}.com/foo/x:{bar}/*{rest}/y") = Accept 4 24 /\
  in_grammar 7 9 (S2B "{sub}.ex-ample.de{f}.com/foo/x:{bar}/*{rest}/y") 4 24 /\
  forallb (fun c => negb (Ascii.eqb c "_")) (host_part (S2B "{sub}.ex-ample.de{f}.com/foo/x:{bar}/*{rest}/y")) = true.
Proof.
  split; [vm_compute; reflexivity|]. split; [|vm_compute; reflexivity].
  apply grammarb_iff. vm_compute. reflexivity.
Qed.

Example rejected_examples :
  parseRoute 7 9 (S2B "/a/{}") = Reject EEmptyParam /\
  parseRoute 7 9 (S2B "/*{a}/*{b}") = Reject EConsecutive /\
  parseRoute 7 2 (S2B "/{abc}") = Reject EKeyTooLarge /\
  parseRoute 1 9 (S2B "/{a}/{b}") = Reject ETooManyParams /\
  parseRoute 7 9 (S2B "/*xname}") = Reject EMissingBrace /\
  parseRoute 7 9 (S2B "a.1-/x") = Reject ETrailingDash.
Proof. vm_compute. repeat split; reflexivity. Qed.

Example wildcard_example :
  tokenize (S2B "/a/{b}/*{c}") =
    [TStatic "/"; TStatic "a"; TStatic "/"; TParam (S2B "b"); TStatic "/"; TCatch (S2B "c")] /\
  parseWildcard (S2B "{b}/*{c}") = WOk [mkParam (S2B "b") 3 false; mkParam (S2B "c") (-1) true].
Proof. vm_compute. split; reflexivity. Qed.
