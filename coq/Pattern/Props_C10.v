(* C10 property theorems: statements only, each closed by [exact]. *)
From FoxBase Require Import Bytes.
From FoxPattern Require Import ParseRoute ParseWildcard Token Grammar.
