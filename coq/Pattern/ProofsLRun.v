(* Basic facts about the list machine: irrelevance lemmas and the effect of running it
   over a run of static bytes, a wildcard name, a closing brace. *)
From FoxBase Require Import Bytes.
Import List ListNotations.
From FoxPattern Require Import ParseRoute LMachine.
Require Import Lia.
Open Scope char_scope.
Open Scope nat_scope.

Section LRun.
Variables (mp mk : nat).

Lemma lrun_cons hn host p c r a :
  lrun mp mk hn host p (c :: r) a =
  match lstep mp mk hn host p c (hd_error r) a with
  | LStop => None
  | LNext host' a' => lrun mp mk hn host' c r a'
  | LSkip a' => match r with c2 :: r' => lrun mp mk hn false c2 r' a' | [] => None end
  end.
Proof. reflexivity. Qed.

(* prevc = url[i-1] is only read in the default state inside the hostname *)
Lemma lstep_prevc hn host p1 p2 c nx a :
  a_state a <> StDefault \/ host = false ->
  lstep mp mk hn host p1 c nx a = lstep mp mk hn host p2 c nx a.
Proof.
  intros H. unfold lstep. destruct (a_state a) eqn:E; try reflexivity.
  destruct H as [H| ->]; [congruence|]. reflexivity.
Qed.

Lemma lrun_prevc hn host p1 p2 suf a :
  a_state a <> StDefault \/ host = false ->
  lrun mp mk hn host p1 suf a = lrun mp mk hn host p2 suf a.
Proof.
  intros H. destruct suf as [|c r]; [reflexivity|].
  rewrite !lrun_cons, (lstep_prevc hn host p1 p2) by exact H. reflexivity.
Qed.

(* ---------- generic simulation ---------- *)
Definition sres_rel (R : bool -> ast -> bool -> ast -> Prop) (x y : lsres) : Prop :=
  match x, y with
  | LStop, LStop => True
  | LNext h a, LNext h' a' => R h a h' a'
  | LSkip a, LSkip a' => R false a false a'
  | _, _ => False
  end.

Lemma lrun_sim (hn1 hn2 : bool) (R : bool -> ast -> bool -> ast -> Prop) :
  (forall h a h' a', R h a h' a' -> lfinish hn1 a = lfinish hn2 a') ->
  (forall h a h' a' p c nx, R h a h' a' ->
      sres_rel R (lstep mp mk hn1 h p c nx a) (lstep mp mk hn2 h' p c nx a')) ->
  forall n suf, length suf <= n -> forall p h a h' a', R h a h' a' ->
  lrun mp mk hn1 h p suf a = lrun mp mk hn2 h' p suf a'.
Proof.
  intros Hfin Hstep. induction n as [|n IH]; intros suf Hn p h a h' a' HR.
  - destruct suf; [|simpl in Hn; lia]. simpl. eapply Hfin; eauto.
  - destruct suf as [|c r]; [simpl; eapply Hfin; eauto|].
    rewrite !lrun_cons. specialize (Hstep h a h' a' p c (hd_error r) HR).
    destruct (lstep mp mk hn1 h p c (hd_error r) a), (lstep mp mk hn2 h' p c (hd_error r) a'); simpl in Hstep; try contradiction.
    + reflexivity.
    + apply IH; [simpl in Hn; lia|exact Hstep].
    + destruct r as [|c2 r']; [reflexivity|]. apply IH; [simpl in Hn; lia|exact Hstep].
Qed.

(* ---------- klen is junk outside a wildcard ---------- *)
Definition set_klen (k : nat) (a : ast) : ast :=
  mkA (a_state a) (a_prevCatch a) (a_cnt a) (a_cs a) k (a_inParam a) (a_nonNum a)
      (a_partlen a) (a_totallen a) (a_last a) (a_hostlast a).

Definition klen_rel (h : bool) (a : ast) (h' : bool) (a' : ast) : Prop :=
  h = h' /\ (a = a' \/ (a_state a = StDefault /\ exists k, a' = set_klen k a)).

Lemma lrun_klen hn host p suf a k :
  a_state a = StDefault ->
  lrun mp mk hn host p suf a = lrun mp mk hn host p suf (set_klen k a).
Proof.
  intros Hs. apply (lrun_sim hn hn klen_rel) with (n := length suf); [| |lia|].
  - intros h x h' x' [-> [->|[Hd [k' ->]]]]; [reflexivity|]. destruct x; reflexivity.
  - intros h x h' x' p' c nx [-> [->|[Hd [k' ->]]]].
    + destruct (lstep mp mk hn h' p' c nx x'); simpl; unfold klen_rel; auto.
    + destruct x as [s0 pc cnt cs kl ip nn pl tl la hl]. simpl in Hd. subst s0.
      unfold lstep, set_klen; cbn.
      repeat match goal with
      | |- context [if ?b then _ else _] => destruct b
      | |- context [match ?o with Some _ => _ | None => _ end] => destruct o
      end; simpl; unfold klen_rel; auto;
      try (split; [reflexivity|right; split; [reflexivity|eexists; unfold set_klen; cbn; reflexivity]]).
  - split; [reflexivity|right; split; [exact Hs|eauto]].
Qed.


(* ---------- elementary steps ---------- *)
Definition plain (c : ascii) : bool := negb (Ascii.eqb c "{") && negb (Ascii.eqb c "*").

Definition bump (n : nat) (a : ast) : ast :=
  mkA (a_state a) (a_prevCatch a) (a_cnt a) (n + a_cs a) (n + a_klen a) (a_inParam a) (a_nonNum a)
      (a_partlen a) (a_totallen a) (a_last a) (a_hostlast a).

Lemma lfinish_nondefault hn a : a_state a <> StDefault -> lfinish hn a = None.
Proof.
  intros H. unfold lfinish. destruct (a_state a); [congruence| |];
  repeat match goal with |- context [if ?b then _ else _] => destruct b end; reflexivity.
Qed.

(* a run of static bytes after the hostname *)
Lemma lrun_static hn st : forall p rest a,
  a_state a = StDefault -> a_cnt a <= mp -> forallb plain st = true ->
  lrun mp mk hn false p (st ++ rest) a = lrun mp mk hn false p rest (bump (length st) a).
Proof.
  induction st as [|c st IH]; intros p rest a Hs Hc Hp.
  - destruct a; reflexivity.
  - simpl in Hp. apply andb_true_iff in Hp. destruct Hp as [Hpc Hp].
    unfold plain in Hpc. apply andb_true_iff in Hpc. destruct Hpc as [H1 H2].
    apply negb_true_iff in H1, H2.
    simpl app. rewrite lrun_cons.
    destruct a as [s0 pc cnt cs kl ip nn pl tl la hl]. simpl in Hs, Hc. subst s0.
    unfold lstep; cbn -[Nat.ltb Nat.leb lrun]. rewrite H1, H2.
    replace (mp <? cnt) with false by (symmetry; apply Nat.ltb_ge; exact Hc).
    rewrite (lrun_prevc hn false c p) by (right; reflexivity).
    rewrite IH by (cbn; auto).
    unfold bump; cbn. do 2 f_equal; lia.
Qed.

(* bytes allowed inside a wildcard name, d = the current delimiter *)
Definition nchar (d c : ascii) : bool :=
  negb (Ascii.eqb c "}") && negb (Ascii.eqb c d) && negb (Ascii.eqb c "/") &&
  negb (Ascii.eqb c "*") && negb (Ascii.eqb c "{").

Definition named (n : nat) (a : ast) : ast :=
  mkA (a_state a) (a_prevCatch a) (a_cnt a) (a_cs a) (n + a_klen a) (a_inParam a || (0 <? n)) (a_nonNum a)
      (a_partlen a) (a_totallen a) (a_last a) (a_hostlast a).

Definition in_wild (host : bool) (a : ast) : Prop :=
  a_state a = StParam \/ (a_state a = StCatchAll /\ host = false).

Lemma ldelim_false hn : ldelim hn false = "/".
Proof. reflexivity. Qed.

Lemma nchar_split d c : nchar d c = true ->
  Ascii.eqb c "}" = false /\ Ascii.eqb c d = false /\ Ascii.eqb c "/" = false /\
  Ascii.eqb c "*" = false /\ Ascii.eqb c "{" = false.
Proof.
  unfold nchar. intros H. repeat (apply andb_true_iff in H; destruct H as [H ?]).
  repeat match goal with H : negb _ = true |- _ => apply negb_true_iff in H end. auto.
Qed.

(* one name byte *)
Lemma lrun_name1 hn host p c rest a :
  in_wild host a -> nchar (ldelim hn host) c = true ->
  lrun mp mk hn host p (c :: rest) a =
  if mk <? a_klen a then None else lrun mp mk hn host p rest (named 1 a).
Proof.
  intros Hw Hn. destruct (nchar_split _ _ Hn) as (H1 & H2 & H3 & H4 & H5).
  rewrite lrun_cons.
  destruct a as [s0 pc cnt cs kl ip nn pl tl la hl].
  destruct Hw as [Hs|[Hs Hh]]; simpl in Hs; subst s0.
  - unfold lstep; cbn -[Nat.ltb Nat.leb lrun]. rewrite H1. destruct (mk <? kl); [reflexivity|].
    rewrite H2, H3, H4, H5. cbn.
    rewrite (lrun_prevc hn host c p) by (left; discriminate).
    unfold named; cbn. now rewrite orb_true_r.
  - subst host. unfold lstep; cbn -[Nat.ltb Nat.leb lrun]. rewrite H1. destruct (mk <? kl); [reflexivity|].
    rewrite H3, H4, H5. cbn.
    rewrite (lrun_prevc hn false c p) by (left; discriminate).
    unfold named; cbn. now rewrite orb_true_r.
Qed.

Lemma named_in_wild host n a : in_wild host a -> in_wild host (named n a).
Proof. intros [H|[H H']]; [left|right]; auto. Qed.

Lemma lrun_name hn host name : forall p rest a,
  in_wild host a -> forallb (nchar (ldelim hn host)) name = true ->
  lrun mp mk hn host p (name ++ rest) a =
  if (length name =? 0) || (a_klen a + length name <=? S mk)
  then lrun mp mk hn host p rest (named (length name) a) else None.
Proof.
  induction name as [|c name IH]; intros p rest a Hw Hn.
  - simpl. destruct a; unfold named; cbn. now rewrite orb_false_r.
  - simpl in Hn. apply andb_true_iff in Hn. destruct Hn as [Hc Hn].
    simpl app. rewrite (lrun_name1 hn host p c _ a Hw Hc).
    destruct (mk <? a_klen a) eqn:Ek.
    + apply Nat.ltb_lt in Ek. simpl length. cbn [Nat.eqb orb].
      replace (a_klen a + S (length name) <=? S mk) with false by (symmetry; apply Nat.leb_gt; lia). reflexivity.
    + apply Nat.ltb_ge in Ek. rewrite IH by (auto using named_in_wild).
      simpl length. cbn [Nat.eqb orb].
      assert (Hk : a_klen (named 1 a) = S (a_klen a)) by (destruct a; reflexivity).
      rewrite Hk.
      assert (Hn2 : named (length name) (named 1 a) = named (S (length name)) a).
      { destruct a; unfold named; cbn. f_equal; [lia|]. now rewrite !orb_true_r. }
      rewrite Hn2.
      destruct (length name) as [|m] eqn:El; cbn [Nat.eqb orb].
      * replace (a_klen a + 1 <=? S mk) with true by (symmetry; apply Nat.leb_le; lia). reflexivity.
      * replace (S (a_klen a) + S m <=? S mk) with (a_klen a + S (S m) <=? S mk); [reflexivity|].
        destruct (Nat.leb_spec (a_klen a + S (S m)) (S mk)), (Nat.leb_spec (S (a_klen a) + S m) (S mk)); try reflexivity; lia.
Qed.

(* the closing brace *)
Definition closed (catch host : bool) (a : ast) : ast :=
  mkA StDefault catch (a_cnt a) 0 (S (a_klen a)) false (if catch then a_nonNum a else host || a_nonNum a)
      (a_partlen a) (a_totallen a) (a_last a) (a_hostlast a).

Definition next_ok (d : ascii) (rest : bytes) : bool :=
  match rest with [] => true | n :: _ => Ascii.eqb n d || Ascii.eqb n "/" end.

Lemma lrun_close_param hn host p rest a :
  a_state a = StParam ->
  lrun mp mk hn host p ("}" :: rest) a =
  if a_inParam a && next_ok (ldelim hn host) rest
  then lrun mp mk hn host "}" rest (closed false host a) else None.
Proof.
  intros Hs. rewrite lrun_cons. destruct a as [s0 pc cnt cs kl ip nn pl tl la hl]. simpl in Hs; subst s0.
  unfold lstep; cbn -[Nat.ltb Nat.leb lrun]. destruct ip; cbn; [|reflexivity].
  destruct rest as [|n r]; cbn; [reflexivity|].
  destruct (Ascii.eqb n (ldelim hn host) || Ascii.eqb n "/"); reflexivity.
Qed.

Lemma lrun_close_catch hn p rest a :
  a_state a = StCatchAll ->
  lrun mp mk hn false p ("}" :: rest) a =
  if a_inParam a && next_ok "/" rest && negb (a_prevCatch a && (a_cs a <=? 1))
  then lrun mp mk hn false "}" rest (closed true false a) else None.
Proof.
  intros Hs. rewrite lrun_cons. destruct a as [s0 pc cnt cs kl ip nn pl tl la hl]. simpl in Hs; subst s0.
  unfold lstep; cbn -[Nat.ltb Nat.leb lrun]. destruct ip; cbn; [|reflexivity].
  destruct rest as [|n r]; cbn.
  - destruct (pc && (cs <=? 1)); reflexivity.
  - rewrite orb_diag. destruct (Ascii.eqb n "/"); cbn; [|reflexivity].
    destruct (pc && (cs <=? 1)); reflexivity.
Qed.

(* the opening of a wildcard *)
Definition opened (st : pstate) (a : ast) : ast :=
  mkA st (a_prevCatch a) (S (a_cnt a)) (a_cs a) 1 (a_inParam a) (a_nonNum a)
      (a_partlen a) (a_totallen a) (a_last a) (a_hostlast a).

Lemma lrun_open_param hn host p rest a :
  a_state a = StDefault ->
  lrun mp mk hn host p ("{" :: rest) a =
  if mp <? S (a_cnt a) then None else lrun mp mk hn host "{" rest (opened StParam a).
Proof.
  intros Hs. rewrite lrun_cons. destruct a as [s0 pc cnt cs kl ip nn pl tl la hl]. simpl in Hs; subst s0.
  unfold lstep; cbn -[Nat.ltb Nat.leb lrun]. destruct (mp <? S cnt); reflexivity.
Qed.

Lemma lrun_open_catch hn p rest a :
  a_state a = StDefault ->
  lrun mp mk hn false p ("*" :: rest) a =
  match rest with
  | c2 :: r' => if Ascii.eqb c2 "{" then (if mp <? S (a_cnt a) then None else lrun mp mk hn false "{" r' (opened StCatchAll a)) else None
  | [] => None
  end.
Proof.
  intros Hs. rewrite lrun_cons. destruct a as [s0 pc cnt cs kl ip nn pl tl la hl]. simpl in Hs; subst s0.
  unfold lstep; cbn -[Nat.ltb Nat.leb lrun]. destruct rest as [|c2 r']; cbn -[Nat.ltb Nat.leb lrun]; [reflexivity|].
  destruct (Ascii.eqb_spec c2 "{") as [->|Hne]; cbn -[Nat.ltb Nat.leb lrun]; [|reflexivity].
  destruct (mp <? S cnt); reflexivity.
Qed.

Lemma lrun_star_host hn p rest a :
  a_state a = StDefault -> lrun mp mk hn true p ("*" :: rest) a = None.
Proof.
  intros Hs. rewrite lrun_cons. destruct a as [s0 pc cnt cs kl ip nn pl tl la hl]. simpl in Hs; subst s0.
  reflexivity.
Qed.

(* ---------- the body of a wildcard: name '}' , the brace being its last byte ---------- *)
Fixpoint scan (d : ascii) (body : bytes) : option bytes :=
  match body with
  | [] => None
  | c :: b =>
    if Ascii.eqb c "}" then match b with [] => Some [] | _ => None end
    else if nchar d c then option_map (cons c) (scan d b) else None
  end.

(* no delimiter and no '/' inside a piece *)
Definition nodelim (d c : ascii) : bool := negb (Ascii.eqb c d) && negb (Ascii.eqb c "/").

Definition name_len_ok (ip : bool) (k : nat) (n : bytes) : bool :=
  (ip || negb (length n =? 0)) && ((length n =? 0) || (k + length n <=? S mk)).

Lemma ldelim_not_brace hn host : Ascii.eqb (ldelim hn host) "}" = false.
Proof. unfold ldelim. destruct (host && hn); reflexivity. Qed.

Lemma lrun_body_param hn host body : forall p rest a,
  a_state a = StParam ->
  forallb (nodelim (ldelim hn host)) body = true ->
  next_ok (ldelim hn host) rest = true ->
  lrun mp mk hn host p (body ++ rest) a =
  match scan (ldelim hn host) body with
  | Some n =>
    if name_len_ok (a_inParam a) (a_klen a) n
    then lrun mp mk hn host "}" rest (closed false host (named (length n) a)) else None
  | None => None
  end.
Proof.
  induction body as [|c b IH]; intros p rest a Hs Hb Hr.
  - simpl. destruct rest as [|x r]; [simpl; apply lfinish_nondefault; congruence|].
    rewrite lrun_cons. destruct a as [s0 pc cnt cs kl ip nn pl tl la hl]. simpl in Hs; subst s0.
    unfold lstep; cbn -[Nat.ltb Nat.leb lrun]. simpl in Hr.
    destruct (Ascii.eqb_spec x "}") as [->|Hx].
    { unfold ldelim in Hr. destruct (host && hn); discriminate. }
    destruct (mk <? kl); [reflexivity|].
    apply orb_true_iff in Hr. destruct Hr as [-> | ->]; cbn; [reflexivity|now rewrite orb_true_r].
  - simpl in Hb. apply andb_true_iff in Hb. destruct Hb as [Hc Hb].
    simpl app. simpl scan.
    destruct (Ascii.eqb_spec c "}") as [->|Hc'].
    + rewrite lrun_close_param by exact Hs.
      destruct b as [|x b'].
      * simpl app. rewrite Hr, andb_true_r. unfold name_len_ok; cbn.
        rewrite orb_false_r, andb_true_r.
        assert (Hn0 : named 0 a = a) by (destruct a; unfold named; cbn; now rewrite orb_false_r).
        rewrite Hn0. reflexivity.
      * simpl in Hb. apply andb_true_iff in Hb. destruct Hb as [Hx _].
        unfold nodelim in Hx. apply andb_true_iff in Hx. destruct Hx as [Hx1 Hx2].
        apply negb_true_iff in Hx1, Hx2. simpl. rewrite Hx1, Hx2. simpl. now rewrite andb_false_r.
    + destruct (nchar (ldelim hn host) c) eqn:En.
      * rewrite (lrun_name1 hn host p c _ a) by (auto; left; exact Hs).
        destruct (mk <? a_klen a) eqn:Ek.
        -- apply Nat.ltb_lt in Ek. destruct (scan (ldelim hn host) b) as [n'|]; [|reflexivity].
           simpl. unfold name_len_ok. simpl length. cbn [Nat.eqb negb orb].
           replace (a_klen a + S (length n') <=? S mk) with false by (symmetry; apply Nat.leb_gt; lia).
           now rewrite andb_false_r.
        -- apply Nat.ltb_ge in Ek. rewrite IH by (auto; destruct a; exact Hs).
           destruct (scan (ldelim hn host) b) as [n'|]; [|reflexivity].
           simpl option_map. cbv iota beta.
           assert (Hk : a_klen (named 1 a) = S (a_klen a)) by (destruct a; reflexivity).
           assert (Hip : a_inParam (named 1 a) = true) by (destruct a; cbn; apply orb_true_r).
           rewrite Hk, Hip.
           assert (Hn2 : named (length n') (named 1 a) = named (length (c :: n')) a).
           { destruct a; unfold named; cbn. f_equal; [lia|]. now rewrite !orb_true_r. }
           rewrite Hn2.
           unfold name_len_ok. simpl length. cbn [Nat.eqb negb orb andb].
           rewrite orb_true_r. cbn [andb].
           destruct (length n') as [|m]; cbn [Nat.eqb orb].
           ++ replace (a_klen a + 1 <=? S mk) with true by (symmetry; apply Nat.leb_le; lia). reflexivity.
           ++ replace (S (a_klen a) + S m <=? S mk) with (a_klen a + S (S m) <=? S mk); [reflexivity|].
              destruct (Nat.leb_spec (a_klen a + S (S m)) (S mk)), (Nat.leb_spec (S (a_klen a) + S m) (S mk)); try reflexivity; lia.
      * (* c is '*' or '{' *)
        rewrite lrun_cons. destruct a as [s0 pc cnt cs kl ip nn pl tl la hl]. simpl in Hs; subst s0.
        unfold lstep; cbn -[Nat.ltb Nat.leb lrun]. apply Ascii.eqb_neq in Hc'. rewrite Hc'.
        destruct (mk <? kl); [reflexivity|].
        unfold nchar in En. rewrite Hc' in En. unfold nodelim in Hc.
        apply andb_true_iff in Hc. destruct Hc as [Hc1 Hc2]. apply negb_true_iff in Hc1, Hc2.
        rewrite Hc1, Hc2 in *. cbn in En.
        destruct (Ascii.eqb c "*"); [reflexivity|]. destruct (Ascii.eqb c "{"); [reflexivity|discriminate].
Qed.

Lemma lrun_body_catch hn body : forall p rest a,
  a_state a = StCatchAll ->
  forallb (nodelim "/") body = true ->
  next_ok "/" rest = true ->
  lrun mp mk hn false p (body ++ rest) a =
  match scan "/" body with
  | Some n =>
    if name_len_ok (a_inParam a) (a_klen a) n && negb (a_prevCatch a && (a_cs a <=? 1))
    then lrun mp mk hn false "}" rest (closed true false (named (length n) a)) else None
  | None => None
  end.
Proof.
  induction body as [|c b IH]; intros p rest a Hs Hb Hr.
  - simpl. destruct rest as [|x r]; [simpl; apply lfinish_nondefault; congruence|].
    rewrite lrun_cons. destruct a as [s0 pc cnt cs kl ip nn pl tl la hl]. simpl in Hs; subst s0.
    unfold lstep; cbn -[Nat.ltb Nat.leb lrun]. simpl in Hr. rewrite orb_diag in Hr. apply Ascii.eqb_eq in Hr. subst x. cbn -[Nat.ltb Nat.leb lrun].
    destruct (mk <? kl); reflexivity.
  - simpl in Hb. apply andb_true_iff in Hb. destruct Hb as [Hc Hb].
    simpl app. simpl scan.
    destruct (Ascii.eqb_spec c "}") as [->|Hc'].
    + rewrite lrun_close_catch by exact Hs.
      destruct b as [|x b'].
      * simpl app. rewrite Hr, andb_true_r. unfold name_len_ok; cbn.
        rewrite orb_false_r, andb_true_r.
        assert (Hn0 : named 0 a = a) by (destruct a; unfold named; cbn; now rewrite orb_false_r).
        rewrite Hn0. reflexivity.
      * simpl in Hb. apply andb_true_iff in Hb. destruct Hb as [Hx _].
        unfold nodelim in Hx. apply andb_true_iff in Hx. destruct Hx as [Hx1 Hx2].
        apply negb_true_iff in Hx1. simpl. rewrite Hx1. simpl. now rewrite andb_false_r.
    + destruct (nchar "/" c) eqn:En.
      * rewrite (lrun_name1 hn false p c _ a) by (auto; right; auto).
        destruct (mk <? a_klen a) eqn:Ek.
        -- apply Nat.ltb_lt in Ek. destruct (scan "/" b) as [n'|]; [|reflexivity].
           simpl. unfold name_len_ok. simpl length. cbn [Nat.eqb negb orb].
           replace (a_klen a + S (length n') <=? S mk) with false by (symmetry; apply Nat.leb_gt; lia).
           now rewrite andb_false_r.
        -- apply Nat.ltb_ge in Ek. rewrite IH by (auto; destruct a; exact Hs).
           destruct (scan "/" b) as [n'|]; [|reflexivity].
           simpl option_map. cbv iota beta.
           assert (Hk : a_klen (named 1 a) = S (a_klen a)) by (destruct a; reflexivity).
           assert (Hip : a_inParam (named 1 a) = true) by (destruct a; cbn; apply orb_true_r).
           assert (Hpc : a_prevCatch (named 1 a) = a_prevCatch a) by (destruct a; reflexivity).
           assert (Hcs : a_cs (named 1 a) = a_cs a) by (destruct a; reflexivity).
           rewrite Hk, Hip, Hpc, Hcs.
           assert (Hn2 : named (length n') (named 1 a) = named (length (c :: n')) a).
           { destruct a; unfold named; cbn. f_equal; [lia|]. now rewrite !orb_true_r. }
           rewrite Hn2.
           unfold name_len_ok. simpl length. cbn [Nat.eqb negb orb andb].
           rewrite orb_true_r. cbn [andb].
           destruct (length n') as [|m]; cbn [Nat.eqb orb].
           ++ replace (a_klen a + 1 <=? S mk) with true by (symmetry; apply Nat.leb_le; lia). reflexivity.
           ++ replace (S (a_klen a) + S m <=? S mk) with (a_klen a + S (S m) <=? S mk); [reflexivity|].
              destruct (Nat.leb_spec (a_klen a + S (S m)) (S mk)), (Nat.leb_spec (S (a_klen a) + S m) (S mk)); try reflexivity; lia.
      * rewrite lrun_cons. destruct a as [s0 pc cnt cs kl ip nn pl tl la hl]. simpl in Hs; subst s0.
        unfold lstep; cbn -[Nat.ltb Nat.leb lrun]. apply Ascii.eqb_neq in Hc'. rewrite Hc'.
        destruct (mk <? kl); [reflexivity|].
        unfold nchar in En. rewrite Hc' in En. unfold nodelim in Hc.
        apply andb_true_iff in Hc. destruct Hc as [Hc1 Hc2]. apply negb_true_iff in Hc1.
        rewrite Hc1 in *. cbn in En.
        destruct (Ascii.eqb c "*"); [reflexivity|]. destruct (Ascii.eqb c "{"); [reflexivity|discriminate].
Qed.

End LRun.
