(* C01 — M1 = S (lookup model = routing specification), staged.  Owner: p-equiv.
   Only statements closed by [exact]; non-vacuity examples next to them. *)
From FoxBase Require Import Bytes.
From FoxRoute Require Import Node Lookup Spec Tree Corr StaticEquiv StaticEquiv2.
Open Scope char_scope.

(* ---- the FULL statement (not proved; never used as a hypothesis) ----
   WF is meant to be "reachable from Tree.empty_txn by Tree.insert / Tree.remove of
   patterns accepted by parseRoute".  Direct matches only (tsr = false); the
   trailing-slash part is C08. *)
Definition M1_eq_Spec_statement (WF : roots -> Prop) : Prop :=
  forall r, WF r -> forall method host path,
  exists fuel0, forall fuel, fuel0 <= fuel ->
    direct_obs (roots_lookup fuel r method host path false [] []) =
    sres_direct (spec_lookup (method_patterns r method) host path).

(* ---- stage 1: static tries (no '{', no '*' in any key) ---- *)

(* S on static patterns is exact string membership *)
Theorem C01_select_static : forall pats host path,
  Forall (fun p => sbytes p = true /\ is_path_pattern p = true) pats ->
  select_in pats host path false = if existsb (bytes_eqb path) pats then Some (path, []) else None.
Proof. exact select_in_static. Qed.
Print Assumptions C01_select_static.

(* (a) soundness: a direct hit is a registered leaf whose pattern is the path, no params *)
Theorem C01_static_sound : forall t path lazy fuel n tp pss tpss,
  swf [] t -> static_fuel path <= fuel ->
  lookup_by_path fuel t path lazy [] [] = Found (Some n) tp pss tpss -> tp = false ->
  exists rt, nroute n = Some rt /\ In rt (routes_of_node t) /\ rpat rt = path /\ pss = [].
Proof. exact lbp_static_sound. Qed.
Print Assumptions C01_static_sound.

(* (b) completeness with the closed-form fuel bound 4*|path|+6 *)
Theorem C01_static_complete : forall t path lazy fuel rt,
  swf [] t -> static_fuel path <= fuel ->
  In rt (routes_of_node t) -> rpat rt = path ->
  exists n, lookup_by_path fuel t path lazy [] [] = Found (Some n) false [] [] /\ nroute n = Some rt.
Proof. exact lbp_static_complete. Qed.
Print Assumptions C01_static_complete.

(* never Panic / OutOfFuel under the bound *)
Theorem C01_static_total : forall t path lazy fuel ps0 tps0,
  swf [] t -> static_fuel path <= fuel ->
  exists n tp pss tpss, lookup_by_path fuel t path lazy ps0 tps0 = Found n tp pss tpss.
Proof. exact lbp_static_total. Qed.
Print Assumptions C01_static_total.

(* (c) M1 = S on static tries, at the level of roots.lookup / spec_lookup *)
Theorem M1_eq_Spec_static_partial : forall r m t host path lazy fuel,
  path_only_root r m t -> swf [] t -> static_fuel path <= fuel ->
  direct_obs (roots_lookup fuel r m host path lazy [] []) =
  sres_direct (spec_lookup (method_patterns r m) host path).
Proof. exact roots_lookup_static_eq_spec. Qed.
Print Assumptions M1_eq_Spec_static_partial.

(* non-vacuity: a trie built by Tree.insert satisfies the hypotheses, and both sides are Some *)
Definition ex_static_txn : txn :=
  build [mk_ri "/a" 1 0; mk_ri "/ab" 2 0; mk_ri "/ab/c" 3 0; mk_ri "/b/cd" 4 0; mk_ri "/b/ce" 5 0].
Example ex_static_hyps :
  path_only_root (t_roots ex_static_txn) m_get (path_root ex_static_txn) /\ swf [] (path_root ex_static_txn).
Proof.
  split.
  - exists 0, (Node m_get None [path_root ex_static_txn]). vm_compute. repeat split.
  - apply swfb_sound. vm_compute. reflexivity.
Qed.
Example ex_static_match :
  direct_obs (roots_lookup (static_fuel (S2B "/ab/c")) (t_roots ex_static_txn) m_get [] (S2B "/ab/c") false [] [])
    = Some (S2B "/ab/c", [])
  /\ sres_direct (spec_lookup (method_patterns (t_roots ex_static_txn) m_get) [] (S2B "/ab/c")) = Some (S2B "/ab/c", [])
  /\ direct_obs (roots_lookup (static_fuel (S2B "/b/c")) (t_roots ex_static_txn) m_get [] (S2B "/b/c") false [] []) = None.
Proof. vm_compute. repeat split. Qed.

(* ---- stages 2-4: + named parameters {name} (full-segment and mid-segment), + catch-all *{name} in
   suffix position (also on a leaf that has a "/..." child) and in infix position (sub-lookups on the
   truncated copy of the node, "inode"); backtracking through the skipped-node stack ----
   invariant pwf: every key is a non-empty sequence of whole tokens (static bytes other than '{' '*',
   {name}, *{name}; a catch-all may end a key only on a leaf whose children, if any, are one "/..."
   child); sibling keys start with pairwise distinct bytes (so at most one parameter child and one
   catch-all child per node); a leaf's pattern is the concatenation of the keys on its branch.
   Fuel bound m2_fuel path t = ncost |path| t + 8.
   [plain t] = no catch-all anywhere in the tree; [okpath path] = no '*' byte and no empty segment. *)

(* M1 = M2: the explicit skipped-node stack is the DFS continuation, the catch-all loop is [scan]
   (no side condition on the request) *)
Theorem C01_M1_eq_M2 : forall t path lazy fuel, pwf [] t -> m2_fuel path t <= fuel ->
  match m2 t path with
  | Some (l, vals) => found_as (lookup_by_path fuel t path lazy [] []) l (addp lazy [] vals)
  | None => nodirect2 (lookup_by_path fuel t path lazy [] [])
  end.
Proof. exact lbp_eq_m2. Qed.
Print Assumptions C01_M1_eq_M2.

(* M2 = S *)
Theorem C01_M2_eq_Spec : forall t host path, pwf [] t -> starts_with "/" (nkey t) = true ->
  okpath path = true \/ plain t = true ->
  select_in (map rpat (routes_of_node t)) host path false = res_of [] (m2 t path).
Proof. exact spec_eq_m2. Qed.
Print Assumptions C01_M2_eq_Spec.

Theorem C01_param_total : forall t path lazy fuel, pwf [] t -> m2_fuel path t <= fuel ->
  exists n tp pss tpss, lookup_by_path fuel t path lazy [] [] = Found n tp pss tpss.
Proof. exact lbp_param_total. Qed.
Print Assumptions C01_param_total.

(* lazy = true (Reverse, Iter.Reverse): same route *)
Theorem C01_param_lazy_route : forall t host path fuel lazy,
  pwf [] t -> starts_with "/" (nkey t) = true -> m2_fuel path t <= fuel ->
  okpath path = true \/ plain t = true ->
  option_map fst (direct_obs (lookup_by_path fuel t path lazy [] [])) =
  option_map fst (spec_direct (map rpat (routes_of_node t)) host path).
Proof. exact lbp_param_eq_spec_lazy. Qed.
Print Assumptions C01_param_lazy_route.

(* the stage reached (stage 4): M1 = S (route and parameter values) on path-only trees with static
   text, named parameters and catch-alls.  Trees without catch-all (plain t): every request path.
   Otherwise: request paths without '*' byte and without empty segment — without these conditions the
   statement is FALSE, see the two refutations below. *)
Theorem M1_eq_Spec_partial : forall r m t host path fuel,
  path_only_root r m t -> pwf [] t -> m2_fuel path t <= fuel ->
  okpath path = true \/ plain t = true ->
  direct_obs (roots_lookup fuel r m host path false [] []) =
  sres_direct (spec_lookup (method_patterns r m) host path).
Proof. exact roots_lookup_param_eq_spec. Qed.
Print Assumptions M1_eq_Spec_partial.

(* non-vacuity: backtracking is exercised (static child "a" fails, parameter child matches) *)
Definition ex_fuel : nat := N.to_nat 400000%N.
Definition ex_param_txn : txn :=
  build [mk_ri "/a" 1 0; mk_ri "/ab" 2 0; mk_ri "/ab/c" 3 0; mk_ri "/{x}" 4 1; mk_ri "/a/{y}/b" 5 1;
         mk_ri "/a{z}/c" 6 1; mk_ri "/{x}/d/{w}" 7 2].
Example ex_param_hyps :
  path_only_root (t_roots ex_param_txn) m_get (path_root ex_param_txn) /\ pwf [] (path_root ex_param_txn)
  /\ m2_fuel (S2B "/ab/d/e") (path_root ex_param_txn) <= ex_fuel /\ plain (path_root ex_param_txn) = true.
Proof.
  split; [|split; [|split]].
  - exists 0, (Node m_get None [path_root ex_param_txn]). vm_compute. repeat split.
  - apply pwfb_sound. vm_compute. reflexivity.
  - apply Nat.leb_le. vm_compute. reflexivity.
  - vm_compute. reflexivity.
Qed.
Definition ex_lookup (p : string) :=
  direct_obs (roots_lookup ex_fuel (t_roots ex_param_txn) m_get [] (S2B p) false [] []).
Definition ex_spec (p : string) :=
  sres_direct (spec_lookup (method_patterns (t_roots ex_param_txn) m_get) [] (S2B p)).
Example ex_param_match :
  ex_lookup "/abc" = Some (S2B "/{x}", [(S2B "x", S2B "abc")]) /\ ex_spec "/abc" = ex_lookup "/abc"
  /\ ex_lookup "/a/q/b" = Some (S2B "/a/{y}/b", [(S2B "y", S2B "q")]) /\ ex_spec "/a/q/b" = ex_lookup "/a/q/b"
  /\ ex_lookup "/ab/d/e" = Some (S2B "/{x}/d/{w}", [(S2B "x", S2B "ab"); (S2B "w", S2B "e")])
  /\ ex_spec "/ab/d/e" = ex_lookup "/ab/d/e"
  /\ ex_lookup "/ab/c" = Some (S2B "/ab/c", []) /\ ex_lookup "/a/q/c" = None /\ ex_spec "/a/q/c" = None.
Proof. vm_compute. repeat split. Qed.

(* non-vacuity, stages 3-4: static, parameter and catch-all children at one node; infix catch-alls
   sharing a prefix; a catch-all leaf with a "/..." child *)
Definition ex_catch_txn : txn :=
  build [mk_ri "/a/b" 1 0; mk_ri "/a/*{w}/x" 2 1; mk_ri "/a/*{w}/y/{z}" 3 2; mk_ri "/f/*{p}" 4 1;
         mk_ri "/f/*{p}/end" 5 1; mk_ri "/{x}" 6 1; mk_ri "/a/{y}/c" 7 1; mk_ri "/g=*{q}" 8 1].
Example ex_catch_hyps :
  path_only_root (t_roots ex_catch_txn) m_get (path_root ex_catch_txn) /\ pwf [] (path_root ex_catch_txn)
  /\ m2_fuel (S2B "/a/q/r/s/y/zz") (path_root ex_catch_txn) <= ex_fuel /\ plain (path_root ex_catch_txn) = false
  /\ okpath (S2B "/a/q/r/s/y/zz") = true.
Proof.
  split; [|split; [|split; [|split]]].
  - exists 0, (Node m_get None [path_root ex_catch_txn]). vm_compute. repeat split.
  - apply pwfb_sound. vm_compute. reflexivity.
  - apply Nat.leb_le. vm_compute. reflexivity.
  - vm_compute. reflexivity.
  - vm_compute. reflexivity.
Qed.
Definition ex_lookup3 (p : string) :=
  direct_obs (roots_lookup ex_fuel (t_roots ex_catch_txn) m_get [] (S2B p) false [] []).
Definition ex_spec3 (p : string) :=
  sres_direct (spec_lookup (method_patterns (t_roots ex_catch_txn) m_get) [] (S2B p)).
Example ex_catch_match :
  ex_lookup3 "/a/q/r/s/y/zz" = Some (S2B "/a/*{w}/y/{z}", [(S2B "w", S2B "q/r/s"); (S2B "z", S2B "zz")])
  /\ ex_spec3 "/a/q/r/s/y/zz" = ex_lookup3 "/a/q/r/s/y/zz"
  /\ ex_lookup3 "/a/q/c" = Some (S2B "/a/{y}/c", [(S2B "y", S2B "q")]) /\ ex_spec3 "/a/q/c" = ex_lookup3 "/a/q/c"
  /\ ex_lookup3 "/f/u/v/end" = Some (S2B "/f/*{p}/end", [(S2B "p", S2B "u/v")]) /\ ex_spec3 "/f/u/v/end" = ex_lookup3 "/f/u/v/end"
  /\ ex_lookup3 "/f/u/v" = Some (S2B "/f/*{p}", [(S2B "p", S2B "u/v")]) /\ ex_spec3 "/f/u/v" = ex_lookup3 "/f/u/v"
  /\ ex_lookup3 "/g=/x/y" = Some (S2B "/g=*{q}", [(S2B "q", S2B "/x/y")]) /\ ex_spec3 "/g=/x/y" = ex_lookup3 "/g=/x/y"
  /\ ex_lookup3 "/a/q/x/x" = Some (S2B "/a/*{w}/x", [(S2B "w", S2B "q/x")]) /\ ex_spec3 "/a/q/x/x" = ex_lookup3 "/a/q/x/x"
  /\ ex_lookup3 "/a/" = None /\ ex_spec3 "/a/" = None.
Proof. vm_compute. repeat split. Qed.

(* ---- REFUTED without the side conditions ----
   (1) a request byte '*' is looked up as a static edge (node.go:456-463), so a catch-all child is
       tried BEFORE the parameter child: routes /{x} and /*{w}, request /*abc: M1 (and fox) select
       /*{w}, the specification selects /{x}. *)
Definition wit_txn : txn := build [mk_ri "/{x}" 1 1; mk_ri "/*{w}" 2 1].
Theorem M1_eq_Spec_catchall_refuted :
  exists r m t host path fuel,
    path_only_root r m t /\ pwf [] t /\ m2_fuel path t <= fuel /\
    direct_obs (roots_lookup fuel r m host path false [] []) = Some (S2B "/*{w}", [(S2B "w", S2B "*abc")]) /\
    sres_direct (spec_lookup (method_patterns r m) host path) = Some (S2B "/{x}", [(S2B "x", S2B "*abc")]).
Proof.
  exists (t_roots wit_txn), m_get, (path_root wit_txn), [], (S2B "/*abc"), ex_fuel.
  split; [|split; [|split; [|split]]].
  - exists 0, (Node m_get None [path_root wit_txn]). vm_compute. repeat split.
  - apply pwfb_sound. vm_compute. reflexivity.
  - apply Nat.leb_le. vm_compute. reflexivity.
  - vm_compute. reflexivity.
  - vm_compute. reflexivity.
Qed.
Print Assumptions M1_eq_Spec_catchall_refuted.

(* (2) the catch-all loop stops at an empty segment, the specification does not: route /*{w}/x,
       request /a//b/x: M1 (and fox: 404) find nothing, the specification selects the route with
       w = "a//b". *)
Definition wit2_txn : txn := build [mk_ri "/*{w}/x" 1 1].
Theorem M1_eq_Spec_emptyseg_refuted :
  exists r m t host path fuel,
    path_only_root r m t /\ pwf [] t /\ m2_fuel path t <= fuel /\
    direct_obs (roots_lookup fuel r m host path false [] []) = None /\
    sres_direct (spec_lookup (method_patterns r m) host path) = Some (S2B "/*{w}/x", [(S2B "w", S2B "a//b")]).
Proof.
  exists (t_roots wit2_txn), m_get, (path_root wit2_txn), [], (S2B "/a//b/x"), ex_fuel.
  split; [|split; [|split; [|split]]].
  - exists 0, (Node m_get None [path_root wit2_txn]). vm_compute. repeat split.
  - apply pwfb_sound. vm_compute. reflexivity.
  - apply Nat.leb_le. vm_compute. reflexivity.
  - vm_compute. reflexivity.
  - vm_compute. reflexivity.
Qed.
Print Assumptions M1_eq_Spec_emptyseg_refuted.
