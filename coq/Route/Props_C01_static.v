(* Props_C01_static — reserved. *)
From FoxBase Require Import Bytes.
