(* C01 — M1 = S (lookup model = routing specification), staged.  Owner: p-equiv.
   Only statements closed by [exact]; non-vacuity examples next to them. *)
From FoxBase Require Import Bytes.
From FoxRoute Require Import Node Lookup Spec Tree Corr StaticEquiv StaticEquiv2.
Open Scope char_scope.

(* ---- the FULL statement (not proved; never used as a hypothesis) ----
   WF is meant to be "reachable from Tree.empty_txn by Tree.insert / Tree.remove of
   patterns accepted by parseRoute".  Direct matches only (tsr = false); the
   trailing-slash part is C08. *)
Definition M1_eq_Spec_statement (WF : roots -> Prop) : Prop :=
  forall r, WF r -> forall method host path,
  exists fuel0, forall fuel, fuel0 <= fuel ->
    direct_obs (roots_lookup fuel r method host path false [] []) =
    sres_direct (spec_lookup (method_patterns r method) host path).

(* ---- stage 1: static tries (no '{', no '*' in any key) ---- *)

(* S on static patterns is exact string membership *)
Theorem C01_select_static : forall pats host path,
  Forall (fun p => sbytes p = true /\ is_path_pattern p = true) pats ->
  select_in pats host path false = if existsb (bytes_eqb path) pats then Some (path, []) else None.
Proof. exact select_in_static. Qed.
Print Assumptions C01_select_static.

(* (a) soundness: a direct hit is a registered leaf whose pattern is the path, no params *)
Theorem C01_static_sound : forall t path lazy fuel n tp pss tpss,
  swf [] t -> static_fuel path <= fuel ->
  lookup_by_path fuel t path lazy [] [] = Found (Some n) tp pss tpss -> tp = false ->
  exists rt, nroute n = Some rt /\ In rt (routes_of_node t) /\ rpat rt = path /\ pss = [].
Proof. exact lbp_static_sound. Qed.
Print Assumptions C01_static_sound.

(* (b) completeness with the closed-form fuel bound 4*|path|+6 *)
Theorem C01_static_complete : forall t path lazy fuel rt,
  swf [] t -> static_fuel path <= fuel ->
  In rt (routes_of_node t) -> rpat rt = path ->
  exists n, lookup_by_path fuel t path lazy [] [] = Found (Some n) false [] [] /\ nroute n = Some rt.
Proof. exact lbp_static_complete. Qed.
Print Assumptions C01_static_complete.

(* never Panic / OutOfFuel under the bound *)
Theorem C01_static_total : forall t path lazy fuel ps0 tps0,
  swf [] t -> static_fuel path <= fuel ->
  exists n tp pss tpss, lookup_by_path fuel t path lazy ps0 tps0 = Found n tp pss tpss.
Proof. exact lbp_static_total. Qed.
Print Assumptions C01_static_total.

(* (c) M1 = S on static tries, at the level of roots.lookup / spec_lookup *)
Theorem M1_eq_Spec_static_partial : forall r m t host path lazy fuel,
  path_only_root r m t -> swf [] t -> static_fuel path <= fuel ->
  direct_obs (roots_lookup fuel r m host path lazy [] []) =
  sres_direct (spec_lookup (method_patterns r m) host path).
Proof. exact roots_lookup_static_eq_spec. Qed.
Print Assumptions M1_eq_Spec_static_partial.

(* non-vacuity: a trie built by Tree.insert satisfies the hypotheses, and both sides are Some *)
Definition ex_static_txn : txn :=
  build [mk_ri "/a" 1 0; mk_ri "/ab" 2 0; mk_ri "/ab/c" 3 0; mk_ri "/b/cd" 4 0; mk_ri "/b/ce" 5 0].
Example ex_static_hyps :
  path_only_root (t_roots ex_static_txn) m_get (path_root ex_static_txn) /\ swf [] (path_root ex_static_txn).
Proof.
  split.
  - exists 0, (Node m_get None [path_root ex_static_txn]). vm_compute. repeat split.
  - apply swfb_sound. vm_compute. reflexivity.
Qed.
Example ex_static_match :
  direct_obs (roots_lookup (static_fuel (S2B "/ab/c")) (t_roots ex_static_txn) m_get [] (S2B "/ab/c") false [] [])
    = Some (S2B "/ab/c", [])
  /\ sres_direct (spec_lookup (method_patterns (t_roots ex_static_txn) m_get) [] (S2B "/ab/c")) = Some (S2B "/ab/c", [])
  /\ direct_obs (roots_lookup (static_fuel (S2B "/b/c")) (t_roots ex_static_txn) m_get [] (S2B "/b/c") false [] []) = None.
Proof. vm_compute. repeat split. Qed.
