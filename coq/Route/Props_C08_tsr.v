(* Props_C08_tsr — reserved. *)
From FoxBase Require Import Bytes.
