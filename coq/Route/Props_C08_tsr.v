(* C08 — trailing-slash ("tsr") detection of lookupByPath = the specification's selection on the
   slash-toggled path, for path-only method trees.  Owner: p-tsr.  Notes: docs/C08_tsr.md.
   Only statements closed by [exact]; non-vacuity examples next to them. *)
From FoxBase Require Import Bytes.
From FoxRoute Require Import Node Lookup Spec Tree Corr StaticEquiv StaticEquiv2 TsrEquiv TsrEquiv2.
From FoxRoute Require SpecSound2.
Open Scope char_scope.

(* ---- the FULL statement (not proved; never used as a hypothesis) ----
   WF = "reachable from Tree.empty_txn by Tree.insert / Tree.remove of patterns accepted by parseRoute",
   hostname routes included; InDomain = the request paths on which the specification is meant to apply
   (non-empty, no '*' byte, no empty segment).  Observation = route, tsr flag, params-or-tsrParams. *)
Definition C08_tsr_statement (WF : roots -> Prop) (InDomain : bytes -> Prop) : Prop :=
  forall r, WF r -> forall method host path, InDomain path ->
  exists fuel0, forall fuel, fuel0 <= fuel ->
    lres_sres (roots_lookup fuel r method host path false [] []) =
    Some (spec_lookup (method_patterns r method) host path).

(* ---- 1. M1 = M2t ----
   M2t (TsrEquiv.m2t) = the structural DFS matcher M2 of C01 extended with the trailing-slash candidate:
   it returns a direct match (TD) or the FIRST candidate met in DFS order with its parameter snapshot (TN),
   mirroring the five sites: path ends inside / at the end of a key (remove-slash towards the leaf parent
   when exactly "/" was matched, add-slash when exactly "/" is left or towards a leaf child "/"),
   leaving a fully matched leaf with only "/" left, and propagation through catch-all sub-lookups.
   For pwf trees, any non-empty path, any [lazy], fuel >= m2_fuel: lookupByPath returns exactly M2t's
   node (up to the truncated copy used inside an infix catch-all: same route), tsr flag, and
   params (direct) / tsrParams (tsr; [] when lazy).  No side condition on the request path. *)
Theorem C08_M1_eq_M2t : forall t path lazy fuel, pwf [] t -> path <> [] -> m2_fuel path t <= fuel ->
  tsr_res (lookup_by_path fuel t path lazy [] []) lazy (m2t (has_suffix_slash path) None t path).
Proof. exact lbp_eq_m2t. Qed.
Print Assumptions C08_M1_eq_M2t.

(* ---- 2. M2t = Spec: without a direct match the first DFS candidate is exactly the specification's
   selection on the toggled path (same route, same values) — no false positive, no false negative,
   and the first candidate met is the specification's highest-priority one ---- *)
Theorem C08_M2t_eq_Spec_tsr : forall t host path c,
  pwf [] t -> starts_with "/" (nkey t) = true -> path <> [] -> okpath path = true ->
  m2t (has_suffix_slash path) None t path = TN c ->
  select_tsr_in (map rpat (routes_of_node t)) host path false = res_of [] c.
Proof. exact m2t_eq_spec_tsr. Qed.
Print Assumptions C08_M2t_eq_Spec_tsr.

(* (a) no false positive, in the words of the property: a tsr answer names a registered route that
   matches the toggled path, the added slash facing a literal '/' that ends the pattern *)
Theorem C08_tsr_no_false_positive : forall t host path l kvs,
  pwf [] t -> starts_with "/" (nkey t) = true -> path <> [] -> okpath path = true ->
  m2t (has_suffix_slash path) None t path = TN (Some (l, kvs)) ->
  SpecSound2.TsrMatch (map rpat (routes_of_node t)) host path false (lpat l) (map snd kvs).
Proof. exact m2t_tsr_sound. Qed.
Print Assumptions C08_tsr_no_false_positive.

(* (b) no false negative *)
Theorem C08_tsr_no_false_negative : forall t host path p vals,
  pwf [] t -> starts_with "/" (nkey t) = true -> path <> [] -> okpath path = true ->
  SpecSound2.TsrMatch (map rpat (routes_of_node t)) host path false p vals ->
  m2t (has_suffix_slash path) None t path <> TN None.
Proof. exact m2t_tsr_complete. Qed.
Print Assumptions C08_tsr_no_false_negative.

(* a candidate carries a registered route and the names of its pattern *)
Theorem C08_M2t_candidate_sound : forall sl n pre pm p l kvs, pwf pre n ->
  m2t sl pm n p = TN (Some (l, kvs)) -> cand_ok n pre pm l kvs.
Proof. exact m2t_sound. Qed.
Print Assumptions C08_M2t_candidate_sound.

(* ---- 3. request level, the stage reached: path-only method trees (pwf), non-empty request paths
   without '*' byte and without empty segment.  direct > tsr > nothing, route and parameter values. ---- *)
Theorem C08_tsr_partial : forall r m t host path fuel,
  path_only_root r m t -> pwf [] t -> path <> [] -> okpath path = true -> m2_fuel path t <= fuel ->
  lres_sres (roots_lookup fuel r m host path false [] []) = Some (spec_lookup (method_patterns r m) host path).
Proof. exact roots_lookup_eq_spec_tsr. Qed.
Print Assumptions C08_tsr_partial.

(* on S: a registered route that matches neither the request path nor its slash-adjusted form (in
   either mode) never changes the outcome *)
Theorem C08_spec_lookup_irrelevant_route : forall pats1 p pats2 host path,
  (forall hm, select_in [p] host path hm = None /\ select_tsr_in [p] host path hm = None) ->
  spec_lookup (pats1 ++ p :: pats2) host path = spec_lookup (pats1 ++ pats2) host path.
Proof. exact spec_lookup_irrelevant. Qed.
Print Assumptions C08_spec_lookup_irrelevant_route.

(* ... hence neither does it change the outcome of the implementation *)
Theorem C08_irrelevant_route_impl : forall r m t r' m' t' pats1 p pats2 host path fuel,
  path_only_root r m t -> pwf [] t -> path_only_root r' m' t' -> pwf [] t' ->
  method_patterns r m = pats1 ++ p :: pats2 -> method_patterns r' m' = pats1 ++ pats2 ->
  (forall hm, select_in [p] host path hm = None /\ select_tsr_in [p] host path hm = None) ->
  path <> [] -> okpath path = true -> m2_fuel path t <= fuel -> m2_fuel path t' <= fuel ->
  lres_sres (roots_lookup fuel r m host path false [] []) = lres_sres (roots_lookup fuel r' m' host path false [] []).
Proof. exact roots_lookup_irrelevant_route. Qed.
Print Assumptions C08_irrelevant_route_impl.

(* no trailing-slash action for the path "/" *)
Theorem C08_root_no_tsr : forall r m t host fuel n pss tpss,
  path_only_root r m t -> pwf [] t -> m2_fuel ["/"] t <= fuel ->
  roots_lookup fuel r m host ["/"] false [] [] <> Found (Some n) true pss tpss.
Proof. exact roots_lookup_root_no_tsr. Qed.
Print Assumptions C08_root_no_tsr.

(* ---- non-vacuity ---- *)
Definition ex_fuel : nat := N.to_nat 400000%N.
Definition L (t : txn) (p : string) := lres_sres (roots_lookup ex_fuel (t_roots t) m_get [] (S2B p) false [] []).
Definition Sp (t : txn) (p : string) := spec_lookup (method_patterns (t_roots t) m_get) [] (S2B p).
Definition hyps (t : txn) (p : string) : Prop :=
  path_only_root (t_roots t) m_get (path_root t) /\ pwf [] (path_root t) /\ S2B p <> [] /\ okpath (S2B p) = true /\
  m2_fuel (S2B p) (path_root t) <= ex_fuel.
Ltac hyps_tac t :=
  split; [exists 0, (Node m_get None [path_root t]); vm_compute; repeat split|];
  split; [apply pwfb_sound; vm_compute; reflexivity|];
  split; [discriminate|]; split; [vm_compute; reflexivity|apply Nat.leb_le; vm_compute; reflexivity].

(* the four repaired witnesses *)
Definition w1 : txn := build [mk_ri "/foo" 1 0; mk_ri "/foobar/x" 2 0; mk_ri "/foobar/y" 3 0].
Definition w2 : txn := build [mk_ri "/a/" 1 0; mk_ri "/ab" 2 0].
Definition w3 : txn := build [mk_ri "/a" 1 0; mk_ri "/a{x}/b" 2 1].
Definition w4 : txn := build [mk_ri "/a*{v}/" 1 1].
Example ex_w1 : hyps w1 "/foobar/" /\ L w1 "/foobar/" = Some SNone /\ Sp w1 "/foobar/" = SNone
  /\ L w1 "/foo/" = Some (STsr (S2B "/foo") []) /\ Sp w1 "/foo/" = STsr (S2B "/foo") [].
Proof. split; [hyps_tac w1|vm_compute; repeat split]. Qed.
Example ex_w2 : hyps w2 "/a" /\ L w2 "/a" = Some (STsr (S2B "/a/") []) /\ Sp w2 "/a" = STsr (S2B "/a/") []
  /\ L w2 "/ab/" = Some (STsr (S2B "/ab") []) /\ Sp w2 "/ab/" = STsr (S2B "/ab") [].
Proof. split; [hyps_tac w2|vm_compute; repeat split]. Qed.
Example ex_w3 : hyps w3 "/a/" /\ L w3 "/a/" = Some (STsr (S2B "/a") []) /\ Sp w3 "/a/" = STsr (S2B "/a") []
  /\ L w3 "/ax/b/" = Some (STsr (S2B "/a{x}/b") [(S2B "x", S2B "x")]) /\ Sp w3 "/ax/b/" = STsr (S2B "/a{x}/b") [(S2B "x", S2B "x")].
Proof. split; [hyps_tac w3|vm_compute; repeat split]. Qed.
Example ex_w4 : hyps w4 "/a/c/b" /\ L w4 "/a/c/b" = Some SNone /\ Sp w4 "/a/c/b" = SNone
  /\ L w4 "/ac/b" = Some (STsr (S2B "/a*{v}/") [(S2B "v", S2B "c/b")]) /\ Sp w4 "/ac/b" = STsr (S2B "/a*{v}/") [(S2B "v", S2B "c/b")].
Proof. split; [hyps_tac w4|vm_compute; repeat split]. Qed.

(* all five sites on one tree: key-end-mid-edge add-slash with a parameter (site 2), remove-slash towards the
   leaf parent through a non-leaf "/" node (site 1), leaf child "/" (site 1, add), leaving a leaf with "/"
   left before a wildcard child (site 4), propagation out of an infix catch-all sub-lookup (site 5);
   and direct > tsr *)
Definition w5 : txn :=
  build [mk_ri "/u/{id}/" 1 1; mk_ri "/u/{id}/posts" 2 1; mk_ri "/f/*{p}/end/" 3 1; mk_ri "/s" 4 0; mk_ri "/s/x" 5 0;
         mk_ri "/s/y" 6 0; mk_ri "/d" 7 0; mk_ri "/d{z}" 8 1; mk_ri "/c/x" 9 0; mk_ri "/c/x/" 10 0; mk_ri "/e/" 11 0; mk_ri "/e/*{w}" 12 1].
Example ex_w5 : hyps w5 "/f/a/b/end" /\ plain (path_root w5) = false
  /\ L w5 "/u/7" = Some (STsr (S2B "/u/{id}/") [(S2B "id", S2B "7")]) /\ Sp w5 "/u/7" = STsr (S2B "/u/{id}/") [(S2B "id", S2B "7")]
  /\ L w5 "/u/7/posts/" = Some (STsr (S2B "/u/{id}/posts") [(S2B "id", S2B "7")])
  /\ L w5 "/f/a/b/end" = Some (STsr (S2B "/f/*{p}/end/") [(S2B "p", S2B "a/b")]) /\ Sp w5 "/f/a/b/end" = STsr (S2B "/f/*{p}/end/") [(S2B "p", S2B "a/b")]
  /\ L w5 "/s/" = Some (STsr (S2B "/s") []) /\ Sp w5 "/s/" = STsr (S2B "/s") []
  /\ L w5 "/d/" = Some (STsr (S2B "/d") []) /\ Sp w5 "/d/" = STsr (S2B "/d") []
  /\ L w5 "/c/x/" = Some (SDirect (S2B "/c/x/") []) /\ L w5 "/c/x" = Some (SDirect (S2B "/c/x") [])
  /\ L w5 "/e" = Some (STsr (S2B "/e/") []) /\ Sp w5 "/e" = STsr (S2B "/e/") []
  /\ L w5 "/" = Some SNone /\ L w5 "/zz/" = Some SNone /\ Sp w5 "/zz/" = SNone.
Proof. split; [hyps_tac w5|vm_compute; repeat split]. Qed.

(* an irrelevant route: "/q/{k}" matches neither "/s/" nor "/s" *)
Example ex_irrelevant :
  (forall hm, select_in [S2B "/q/{k}"] [] (S2B "/s/") hm = None /\ select_tsr_in [S2B "/q/{k}"] [] (S2B "/s/") hm = None)
  /\ spec_lookup [S2B "/s"; S2B "/q/{k}"; S2B "/s/x"] [] (S2B "/s/") = STsr (S2B "/s") [].
Proof. split; [intros [|]; vm_compute; split; reflexivity|vm_compute; reflexivity]. Qed.

(* ---- the side condition path <> "" is needed: on the EMPTY path the matcher reports a trailing-slash
   action towards "/" (fox: Lookup with URL.Path = "" returns route "/" with tsr = true), the
   specification none ---- *)
Definition w0 : txn := build [mk_ri "/" 1 0].
Theorem C08_tsr_empty_path_refuted :
  exists r m t host fuel,
    path_only_root r m t /\ pwf [] t /\ m2_fuel [] t <= fuel /\
    lres_sres (roots_lookup fuel r m host [] false [] []) = Some (STsr (S2B "/") []) /\
    spec_lookup (method_patterns r m) host [] = SNone.
Proof.
  exists (t_roots w0), m_get, (path_root w0), [], ex_fuel.
  split; [|split; [|split; [|split]]].
  - exists 0, (Node m_get None [path_root w0]). vm_compute. repeat split.
  - apply pwfb_sound. vm_compute. reflexivity.
  - apply Nat.leb_le. vm_compute. reflexivity.
  - vm_compute. reflexivity.
  - vm_compute. reflexivity.
Qed.
Print Assumptions C08_tsr_empty_path_refuted.
