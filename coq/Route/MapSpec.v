(* C02 specification: the registered routes as a sequential map keyed by
   (method, pattern), with the conflict rule stated on token lists.
   Independent of the radix tree. *)
From FoxBase Require Import Bytes.
From FoxRoute Require Import Spec.
Open Scope char_scope.

Definition mkey := (bytes * bytes)%type.          (* method, pattern *)
Definition mstate := list (mkey * N).             (* association list, value = route id *)

Definition mkey_eqb (a b : mkey) : bool := bytes_eqb (fst a) (fst b) && bytes_eqb (snd a) (snd b).

Fixpoint mfind (s : mstate) (k : mkey) : option N :=
  match s with
  | [] => None
  | (k', v) :: r => if mkey_eqb k k' then Some v else mfind r k
  end.
Definition mremove (s : mstate) (k : mkey) : mstate := filter (fun e => negb (mkey_eqb k (fst e))) s.
Fixpoint mreplace (s : mstate) (k : mkey) (v : N) : mstate :=
  match s with
  | [] => []
  | (k', v') :: r => if mkey_eqb k k' then (k', v) :: r else (k', v') :: mreplace r k v
  end.

(* two patterns conflict when their token lists agree on a prefix and then both
   declare a wildcard of the same kind with a different name *)
Definition token_eqb (a b : token) : bool :=
  match a, b with
  | TStatic x, TStatic y => Ascii.eqb x y
  | TParam x, TParam y => bytes_eqb x y
  | TCatch x, TCatch y => bytes_eqb x y
  | _, _ => false
  end.
Fixpoint tokens_conflict (a b : list token) : bool :=
  match a, b with
  | x :: a', y :: b' =>
      if token_eqb x y then tokens_conflict a' b'
      else match x, y with
           | TParam _, TParam _ => true
           | TCatch _, TCatch _ => true
           | _, _ => false
           end
  | _, _ => false
  end.
Definition patterns_conflict (p q : bytes) : bool := tokens_conflict (tokenize p) (tokenize q).

Inductive mout := MOk | MExist | MNotFound | MConflict (pats : list bytes) | MInvalid.

Definition conflicts_of (s : mstate) (method pat : bytes) : list bytes :=
  map (fun e => snd (fst e))
      (filter (fun e => bytes_eqb (fst (fst e)) method && patterns_conflict pat (snd (fst e))) s).

Definition m_handle (s : mstate) (valid : bool) (method pat : bytes) (id : N) : mstate * mout :=
  if negb valid then (s, MInvalid)
  else match mfind s (method, pat) with
       | Some _ => (s, MExist)
       | None => match conflicts_of s method pat with
                 | [] => (s ++ [((method, pat), id)], MOk)
                 | cs => (s, MConflict cs)
                 end
       end.
Definition m_update (s : mstate) (valid : bool) (method pat : bytes) (id : N) : mstate * mout :=
  if negb valid then (s, MInvalid)
  else match mfind s (method, pat) with
       | Some _ => (mreplace s (method, pat) id, MOk)
       | None => (s, MNotFound)
       end.
Definition m_delete (s : mstate) (valid : bool) (method pat : bytes) : mstate * mout * option N :=
  if negb valid then (s, MInvalid, None)
  else match mfind s (method, pat) with
       | Some v => (mremove s (method, pat), MOk, Some v)
       | None => (s, MNotFound, None)
       end.
Definition m_truncate (s : mstate) (methods : list bytes) : mstate :=
  match methods with
  | [] => []
  | _ => filter (fun e => negb (existsb (bytes_eqb (fst (fst e))) methods)) s
  end.
