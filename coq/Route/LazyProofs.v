(* LazyProofs — the `lazy` flag of lookupByPath does not influence the selected
   (node, tsr); the modelling-artifact LPanic of PBack is unreachable; fuel monotonicity.
   See docs/C01_lazy.md. *)
From FoxBase Require Import Bytes.
From FoxRoute Require Import Node Lookup.
Require Import Lia.
Open Scope char_scope.

(* ---------- relation between the lazy and the non-lazy state ---------- *)
Definition zsk (k : skipped) : skipped :=
  {| sk_n := sk_n k; sk_path := sk_path k; sk_pcnt := 0; sk_child := sk_child k |}.

(* the lazy-side state that corresponds to the non-lazy state [sn]: same control
   variables, paramCnt = 0, every saved paramCnt = 0, params / tsrParams arbitrary *)
Definition lz (sn : st) (p tp : list kv) : st :=
  {| cur := cur sn; par := par sn; cm := cm sn; cmn := cmn sn; pcnt := 0; pkc := pkc sn;
     sks := map zsk (sks sn); ps := p; tsr := tsr sn; tn := tn sn; tps := tp |}.

Definition lazy_rel (sl sn : st) : Prop :=
  cur sl = cur sn /\ par sl = par sn /\ cm sl = cm sn /\ cmn sl = cmn sn /\ pkc sl = pkc sn /\
  tsr sl = tsr sn /\ tn sl = tn sn /\ pcnt sl = 0 /\ sks sl = map zsk (sks sn).

Lemma lazy_rel_lz sl sn : lazy_rel sl sn -> sl = lz sn (ps sl) (tps sl).
Proof.
  destruct sl, sn; unfold lazy_rel, lz; cbn.
  intros (-> & -> & -> & -> & -> & -> & -> & -> & ->); reflexivity.
Qed.

Lemma lz_lazy_rel sn p tp : lazy_rel (lz sn p tp) sn.
Proof. unfold lazy_rel, lz; cbn; repeat split; reflexivity. Qed.

(* ---------- result relation ---------- *)
Definition strong_rel (rl rn : lres) : Prop :=
  match rl, rn with
  | Found n t _ _, Found n' t' _ _ => n = n' /\ t = t'
  | LPanic, LPanic => True
  | LOutOfFuel, LOutOfFuel => True
  | _, _ => False
  end.

(* ---------- invariant of the non-lazy run: paramCnt and the saved paramCnts never
   exceed len(params); the saved counts decrease down the stack ---------- *)
Fixpoint chain (k : nat) (l : list skipped) : Prop :=
  match l with [] => True | sk :: r => sk_pcnt sk <= k /\ chain (sk_pcnt sk) r end.

Lemma chain_mono k k' l : k <= k' -> chain k l -> chain k' l.
Proof. destruct l; cbn; intuition lia. Qed.

Definition Inv (ph : phase) (s : st) : Prop :=
  match ph with
  | PBack => chain (List.length (ps s)) (sks s)
  | _ => pcnt s <= List.length (ps s) /\ chain (pcnt s) (sks s)
  end.

Definition out (rl rn : lres) (ph : phase) (sn : st) : Prop :=
  strong_rel rl rn \/ (rn = LPanic /\ ~ Inv ph sn).

Lemma relax rl rn ph sn ph' sn' :
  (Inv ph sn -> Inv ph' sn') -> out rl rn ph' sn' -> out rl rn ph sn.
Proof. unfold out; intuition. Qed.

(* ---------- tactics ---------- *)
Ltac dm :=
  match goal with
  | |- context[match ?x with _ => _ end] =>
      lazymatch x with
      | context[match _ with _ => _ end] => fail
      | _ => destruct x eqn:?
      end
  end.

Ltac red_st :=
  cbn [lz cur par cm cmn pcnt pkc sks ps tsr tn tps set_tsr push descend init_st par_is_leaf
       dpush dgo map zsk sk_n sk_path sk_pcnt sk_child] in *.

Ltac dms := repeat (dm; red_st; try congruence).

Ltac inv_solve :=
  cbn [Inv chain cur par cm cmn pcnt pkc sks ps tsr tn tps sk_pcnt List.length
       set_tsr push descend dpush dgo init_st];
  intros; rewrite ?app_length, ?firstn_length; cbn [List.length];
  repeat match goal with H : _ /\ _ |- _ => destruct H end;
  repeat split; try lia; try (eapply chain_mono; [|eassumption]; lia); try assumption.

Ltac leaf IH :=
  lazymatch goal with
  | |- out (Found _ _ _ _) (Found _ _ _ _) _ _ => left; cbn; auto
  | |- out LPanic LPanic _ _ => left; exact I
  | |- out LOutOfFuel LOutOfFuel _ _ => left; exact I
  | |- out (lbp _ _ true ?ph' ?sl') (lbp _ _ false ?ph' ?sn') _ _ =>
      eapply relax; [ | exact (IH ph' sn' (ps sl') (tps sl')) ]; inv_solve
  end.

(* ---------- the simulation ---------- *)
Lemma lbp_sim path : forall f ph sn p tp,
  out (lbp f path true ph (lz sn p tp)) (lbp f path false ph sn) ph sn.
Proof.
  induction f as [|f IH]; intros ph sn p tp.
  - left; exact I.
  - destruct sn as [c pa m mn pc k sk psn t n tpsn].
    destruct ph; cbn [lbp]; red_st.
    + (* PWalk *) dms; leaf IH.
    + (* PInner *) dms; leaf IH.
    + (* PSelect *) dms; leaf IH.
    + (* PAfter *) dms; leaf IH.
    + (* PBack *)
      destruct sk as [|s0 rest]; red_st.
      * left; cbn; auto.
      * change (Nat.ltb (List.length p) 0) with false; cbv iota.
        dms; try leaf IH.
        right; split; [reflexivity|].
        cbn [Inv chain ps sks]; intros [H _].
        match goal with E : Nat.ltb _ _ = true |- _ => apply Nat.ltb_lt in E; lia end.
    + (* PCatch *) dms; leaf IH.
Qed.

(* ---------- consequences for lookupByPath ---------- *)

(* (1) forward simulation, from arbitrary related states, no invariant needed *)
Theorem lbp_lazy_irrelevant : forall f path ph sl sn, lazy_rel sl sn ->
  match lbp f path false ph sn with
  | Found n t _ _ => exists p tp, lbp f path true ph sl = Found n t p tp
  | LOutOfFuel => lbp f path true ph sl = LOutOfFuel
  | LPanic => True
  end.
Proof.
  intros f path ph sl sn R. rewrite (lazy_rel_lz _ _ R).
  destruct (lbp_sim path f ph sn (ps sl) (tps sl)) as [H|[H _]]; [|rewrite H; exact I].
  destruct (lbp f path false ph sn), (lbp f path true ph (lz sn (ps sl) (tps sl)));
    cbn in H; try contradiction; try exact I; try reflexivity.
  destruct H as [-> ->]; eauto.
Qed.

(* the converse without the invariant: the only way to differ is the PBack guard *)
Theorem lbp_lazy_irrelevant_conv : forall f path ph sl sn, lazy_rel sl sn ->
  match lbp f path true ph sl with
  | Found n t _ _ => (exists p tp, lbp f path false ph sn = Found n t p tp) \/ lbp f path false ph sn = LPanic
  | LOutOfFuel => lbp f path false ph sn = LOutOfFuel \/ lbp f path false ph sn = LPanic
  | LPanic => lbp f path false ph sn = LPanic
  end.
Proof.
  intros f path ph sl sn R. rewrite (lazy_rel_lz _ _ R).
  destruct (lbp_sim path f ph sn (ps sl) (tps sl)) as [H|[H _]].
  - destruct (lbp f path false ph sn), (lbp f path true ph (lz sn (ps sl) (tps sl)));
      cbn in H; try contradiction; auto.
    destruct H as [-> ->]; eauto.
  - rewrite H. destruct (lbp f path true ph (lz sn (ps sl) (tps sl))); auto.
Qed.

(* (2) under the invariant the two runs correspond exactly *)
Theorem lbp_lazy_strong : forall f path ph sl sn, lazy_rel sl sn -> Inv ph sn ->
  strong_rel (lbp f path true ph sl) (lbp f path false ph sn).
Proof.
  intros f path ph sl sn R I. rewrite (lazy_rel_lz _ _ R).
  destruct (lbp_sim path f ph sn (ps sl) (tps sl)) as [H|[_ H]]; [exact H|contradiction].
Qed.

Lemma strong_rel_iff rl rn : strong_rel rl rn ->
  (forall n t, (exists p tp, rl = Found n t p tp) <-> (exists p tp, rn = Found n t p tp)) /\
  (rl = LPanic <-> rn = LPanic) /\ (rl = LOutOfFuel <-> rn = LOutOfFuel).
Proof.
  intros H. destruct rl, rn; cbn in H; try contradiction;
    try match type of H with _ /\ _ => destruct H; subst end;
    (split; [intros n' t'; split; intros (p & tp & E); try discriminate; inversion E; subst; eauto
            | split; split; intros E; try discriminate; reflexivity ]).
Qed.

(* lazy run returns Found n t iff the non-lazy run does; likewise for a genuine index panic
   (LPanic) and for running out of fuel *)
Theorem lbp_lazy_irrelevant_iff : forall f path ph sl sn, lazy_rel sl sn -> Inv ph sn ->
  (forall n t, (exists p tp, lbp f path true ph sl = Found n t p tp) <->
               (exists p tp, lbp f path false ph sn = Found n t p tp)) /\
  (lbp f path true ph sl = LPanic <-> lbp f path false ph sn = LPanic) /\
  (lbp f path true ph sl = LOutOfFuel <-> lbp f path false ph sn = LOutOfFuel).
Proof. intros; apply strong_rel_iff, lbp_lazy_strong; assumption. Qed.

(* the artifact branch of PBack ([:k] beyond len) is not the cause of any LPanic of a run that
   starts in a state satisfying the invariant: the lazy run, whose guard is `len < 0`, panics too *)
Theorem lbp_panic_genuine : forall f path ph sn, Inv ph sn ->
  lbp f path false ph sn = LPanic -> forall p tp, lbp f path true ph (lz sn p tp) = LPanic.
Proof.
  intros f path ph sn I E p tp.
  pose proof (lbp_lazy_strong f path ph _ sn (lz_lazy_rel sn p tp) I) as H. rewrite E in H.
  destruct (lbp f path true ph (lz sn p tp)); cbn in H; try contradiction; reflexivity.
Qed.

Lemma Inv_init : forall c ps0 tps0, Inv PWalk (init_st c ps0 tps0).
Proof. intros; cbn; split; [lia|exact I]. Qed.

Theorem lookup_by_path_lazy_irrelevant : forall f c path ps0 tps0 ps1 tps1,
  strong_rel (lookup_by_path f c path true ps0 tps0) (lookup_by_path f c path false ps1 tps1).
Proof.
  intros. unfold lookup_by_path. apply lbp_lazy_strong; [|apply Inv_init].
  unfold lazy_rel; cbn; repeat split; reflexivity.
Qed.

(* ---------- (4) fuel monotonicity ---------- *)
Ltac dmf IH :=
  first
  [ match goal with
    | |- context[match lbp (?f + ?k) ?pa ?lz ?ph ?s with _ => _ end] =>
        let E := fresh "E" in
        destruct (IH pa lz k ph s) as [E|E]; rewrite E; [cbv iota; left; reflexivity|]
    end
  | dm ].

Lemma lbp_fuel_le : forall f path lazy k ph s,
  lbp f path lazy ph s = LOutOfFuel \/ lbp (f + k) path lazy ph s = lbp f path lazy ph s.
Proof.
  induction f as [|f IH]; intros path lazy k ph s; [left; reflexivity|].
  destruct s as [c pa m mn pc kk sk psn t n tpsn].
  destruct ph; cbn [Nat.add lbp]; red_st;
    repeat (dmf IH; red_st; try congruence);
    solve [ apply IH | right; reflexivity ].
Qed.

Theorem lbp_fuel_mono : forall f k path lazy ph s,
  lbp f path lazy ph s <> LOutOfFuel -> lbp (f + k) path lazy ph s = lbp f path lazy ph s.
Proof. intros f k path lazy ph s H. destruct (lbp_fuel_le f path lazy k ph s); tauto. Qed.

Corollary lbp_fuel_mono_le : forall f f' path lazy ph s, f <= f' ->
  lbp f path lazy ph s <> LOutOfFuel -> lbp f' path lazy ph s = lbp f path lazy ph s.
Proof. intros f f' path lazy ph s L H. replace f' with (f + (f' - f)) by lia. apply lbp_fuel_mono, H. Qed.

Theorem lookup_by_path_fuel_mono : forall f k c path lazy ps0 tps0,
  lookup_by_path f c path lazy ps0 tps0 <> LOutOfFuel ->
  lookup_by_path (f + k) c path lazy ps0 tps0 = lookup_by_path f c path lazy ps0 tps0.
Proof. intros; unfold lookup_by_path in *; apply lbp_fuel_mono; assumption. Qed.
