(* Route area — the invariants of the proofs, evaluated on the REAL trees: every tree dumped
   from the implementation after every step of a history must satisfy WF_txn (checker wf via
   obs_wfb) and be canonical (canon_rootsb), and every pattern the real parseRoute accepted must
   satisfy the validity notion the theorems assume (hop_okb, the hypothesis of C02_refines_map /
   C01_end_to_end).  A failure here means a theorem's hypothesis does not hold of the code. *)
From FoxBase Require Import Bytes.
From FoxRoute Require Import Node Lookup Spec Tree MapSpec CorrHist Iter CorrIter WFDef TreeMap2 Canon.

Definition hist_invariants_ok (h : hcase) : bool :=
  forallb hop_okb h && forallb obs_wfb h && forallb (fun o => canon_rootsb (o_tree (h_obs o))) h.

Definition c2_spec_wf (c : c2case) : bool :=
  c2_spec c && match c with CHist h => hist_invariants_ok h | CIter i => canon_rootsb (ic_tree i) end.

Definition c2_violations_wf (cs : list c2case) : list nat := true_idx (map (fun c => negb (c2_spec_wf c)) cs).

Definition c7_spec_wf (c : c7case) : bool :=
  c7_spec_ok c && canon_rootsb (c7_treeA c) && canon_rootsb (c7_treeB c).
Definition c7_violations_wf (cs : list c7case) : list nat := true_idx (map (fun c => negb (c7_spec_wf c)) cs).
