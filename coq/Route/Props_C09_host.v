(* Props_C09_host — reserved. *)
From FoxBase Require Import Bytes.
