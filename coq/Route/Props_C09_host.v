(* C09 — hostname routes match the whole host; path-only routes are the fallback.  Owner: p-host.
   Only statements closed by [exact]; non-vacuity examples next to them.  Notes: docs/C09_host.md *)
From FoxBase Require Import Bytes.
From FoxRoute Require Import Node Lookup HostPort Spec Tree Corr StaticEquiv StaticEquiv2 HostEquiv HostEquiv2.
From FoxRoute Require SpecSound.
Open Scope char_scope.

(* ================================================================== *)
(* 1. StripHostPort                                                     *)
(* ================================================================== *)
(* strip_host_port is a total function on byte lists (no index expression survives in the model:
   the only slicing of the Go code is guarded), hence it never panics — on "", ".", ":80" either. *)
Theorem strip_host_port_eq_spec : forall h, strip_host_port h = strip_spec h.
Proof. exact strip_host_port_eq_spec_thm. Qed.
Print Assumptions strip_host_port_eq_spec.

(* host:port, host and port well formed: port and colon removed, then one trailing dot *)
Theorem strip_removes_port : forall a port,
  HostPort.plain a = true -> plain_port port = true -> contains port ":" = false ->
  strip_host_port (a ++ ":" :: port) = trim_dot a /\ contains (strip_host_port (a ++ ":" :: port)) ":" = false.
Proof. exact (fun a port H1 H2 H3 => conj (strip_host_colon_port a port H1 H2 H3) (strip_host_colon_port_noport a port H1 H2 H3)). Qed.
Print Assumptions strip_removes_port.

(* [v6]:port *)
Theorem strip_removes_port_v6 : forall v6 port,
  contains v6 "[" = false -> contains v6 "]" = false -> plain_port port = true -> contains port ":" = false ->
  strip_host_port ("[" :: v6 ++ "]" :: ":" :: port) = trim_dot v6.
Proof. exact strip_v6_port. Qed.
Print Assumptions strip_removes_port_v6.

(* hosts without ':' only lose a trailing dot; at most ONE trailing dot is ever removed *)
Theorem strip_without_colon : forall h, contains h ":" = false -> strip_host_port h = trim_dot h.
Proof. exact strip_no_colon. Qed.
Print Assumptions strip_without_colon.

Theorem trim_dot_at_most_one : forall s, (trim_dot s = s \/ s = trim_dot s ++ ["."]) /\ trim_dot (s ++ ["."]) = s.
Proof. exact (fun s => conj (trim_dot_once s) (trim_dot_app_dot s)). Qed.
Print Assumptions trim_dot_at_most_one.

Example strip_examples :
  strip_host_port (S2B "example.com:8080") = S2B "example.com" /\
  strip_host_port (S2B "example.com.") = S2B "example.com" /\
  strip_host_port (S2B "example.com..:80") = S2B "example.com." /\
  strip_host_port (S2B "[::1]:443") = S2B "::1" /\
  strip_host_port (S2B "::1") = S2B "::1" /\                       (* not host:port: unchanged *)
  strip_host_port (S2B ".") = [] /\ strip_host_port (S2B ":80") = [] /\ strip_host_port [] = [] /\
  HostPort.plain (S2B "example.com.") = true /\ plain_port (S2B "80") = true.
Proof. vm_compute. repeat split. Qed.

(* ================================================================== *)
(* 3. roots.lookup: shortcut, hostname pass, fallback                   *)
(* ================================================================== *)
(* the shortcut: exactly when the method root's only child starts with '/' ([shortcut root]);
   then the Host is not looked at *)
Theorem shortcut_exact : forall fuel r m i root c0 host path lazy ps0 tps0,
  method_index r m = Some i -> nth_error r i = Some root ->
  nchildren root = [c0] -> starts_with "/" (nkey c0) = true ->
  roots_lookup fuel r m host path lazy ps0 tps0 = lookup_by_path fuel c0 path lazy ps0 tps0.
Proof. exact roots_lookup_shortcut. Qed.
Print Assumptions shortcut_exact.

(* otherwise, with a non-empty host: the hostname pass; its result stands whenever it returned a
   node (direct or trailing-slash); the fallback runs exactly when it returned no node, on the
   "/" child, with the parameters reset to [] and a fresh state (tsr = false, n = nil) *)
Theorem fallback_exact : forall fuel r m i root host path lazy ps0 tps0,
  method_index r m = Some i -> nth_error r i = Some root ->
  nchildren root <> [] -> shortcut root = false -> host <> [] ->
  roots_lookup fuel r m host path lazy ps0 tps0 =
  match lookup_by_domain fuel root host path lazy ps0 tps0 with
  | Found (Some n) t p tp => Found (Some n) t p tp
  | Found None _ p tp =>
      match get_edge root "/" with
      | Some c => lookup_by_path fuel c path lazy [] tp
      | None => Found None false p tp
      end
  | LPanic => LPanic
  | LOutOfFuel => LOutOfFuel
  end.
Proof. exact roots_lookup_hostpass. Qed.
Print Assumptions fallback_exact.

Theorem fallback_iff_no_node : forall fuel r m i root host path lazy ps0 tps0,
  method_index r m = Some i -> nth_error r i = Some root ->
  nchildren root <> [] -> shortcut root = false -> host <> [] ->
  ((exists t p tp, lookup_by_domain fuel root host path lazy ps0 tps0 = Found None t p tp /\
                   roots_lookup fuel r m host path lazy ps0 tps0 = path_fallback fuel root path lazy p tp)
   \/
   (lookup_by_domain fuel root host path lazy ps0 tps0 = roots_lookup fuel r m host path lazy ps0 tps0 /\
    forall t p tp, lookup_by_domain fuel root host path lazy ps0 tps0 <> Found None t p tp)).
Proof. exact fallback_iff. Qed.
Print Assumptions fallback_iff_no_node.

(* empty (stripped) host: no hostname pass at all *)
Theorem empty_host_path_only : forall fuel r m i root path lazy ps0 tps0,
  method_index r m = Some i -> nth_error r i = Some root ->
  nchildren root <> [] -> shortcut root = false ->
  roots_lookup fuel r m [] path lazy ps0 tps0 = path_fallback fuel root path lazy ps0 tps0.
Proof. exact roots_lookup_nohost. Qed.
Print Assumptions empty_host_path_only.

(* a method without hostname routes ignores the Host altogether *)
Theorem host_ignored_without_hostname_routes : forall fuel r m host host' path lazy ps0 tps0,
  (forall i root, method_index r m = Some i -> nth_error r i = Some root ->
     NoDup (heads (nchildren root)) /\ forall c, In c (nchildren root) -> starts_with "/" (nkey c) = true) ->
  roots_lookup fuel r m host path lazy ps0 tps0 = roots_lookup fuel r m host' path lazy ps0 tps0.
Proof. exact host_ignored. Qed.
Print Assumptions host_ignored_without_hostname_routes.

(* ---- example trees (Tree.insert) ---- *)
Definition ex_host_txn : txn :=
  build [mk_rih "example.com/" 1 0; mk_rih "{sub}.example.com/x" 2 1; mk_rih "a.{h}.com/{id}/y" 3 2;
         mk_rih "a.b.com/{id}/x" 4 1; mk_rih "/x" 5 0; mk_rih "/{v}" 6 1].
Definition ex_root : node := get_root ex_host_txn.
Definition ex_path_txn : txn := build [mk_rih "/x" 1 0; mk_rih "/{v}/y" 2 1].

Example ex_fallback_hyps :
  method_index (t_roots ex_host_txn) m_get = Some 0 /\ nth_error (t_roots ex_host_txn) 0 = Some ex_root /\
  nchildren ex_root <> [] /\ shortcut ex_root = false /\
  (* hostname pass returns no node -> fallback *)
  (exists t p tp, lookup_by_domain big_fuel ex_root (S2B "zzz.org") (S2B "/x") false [] [] = Found None t p tp) /\
  direct_obs (roots_lookup big_fuel (t_roots ex_host_txn) m_get (S2B "zzz.org") (S2B "/x") false [] []) = Some (S2B "/x", []) /\
  (* hostname pass returns a node -> no fallback although "/{v}" would match *)
  direct_obs (roots_lookup big_fuel (t_roots ex_host_txn) m_get (S2B "example.com") (S2B "/") false [] [])
    = Some (S2B "example.com/", []) /\
  (* path-only method: shortcut, Host ignored *)
  shortcut (get_root ex_path_txn) = true.
Proof. vm_compute. repeat split; try discriminate. do 3 eexists; reflexivity. Qed.

Example ex_host_ignored_hyps : forall i root, method_index (t_roots ex_path_txn) m_get = Some i ->
  nth_error (t_roots ex_path_txn) i = Some root ->
  NoDup (heads (nchildren root)) /\ forall c, In c (nchildren root) -> starts_with "/" (nkey c) = true.
Proof.
  intros i root Hi Hr. vm_compute in Hi. inversion Hi; subst i. vm_compute in Hr. inversion Hr; subst root.
  split; [apply nodupb_sound; vm_compute; reflexivity|]. intros c [<-|[]]. vm_compute. reflexivity.
Qed.

(* ================================================================== *)
(* 4a. M1 = M2h: the hostname pass with its skipped-node stack is the DFS M2h  *)
(* ================================================================== *)
(* hroot_ok root: sibling keys below the method root start with distinct bytes; every child
   satisfies the token invariant pwf (StaticEquiv2); each child is the "/"-subtree or a hostname
   node (hostb: no route, key = host tokens — static bytes other than '{' '*' '/', {name} —,
   children again hostname nodes or the "/"-subtree: the host->path split of WF).
   nohslash host: no '/' byte in the (stripped) host.  No other condition on host or path. *)
Theorem C09_M1_eq_M2h : forall host path root lazy fuel,
  nohslash host -> hroot_ok root -> host <> [] -> hroot_fuel path root <= fuel ->
  match m2h_root path root host with
  | Some (l, vals) => found_as (lookup_by_domain fuel root host path lazy [] []) l (addp lazy [] vals)
  | None => nodirect2 (lookup_by_domain fuel root host path lazy [] [])
  end.
Proof. exact lbd_eq_m2h. Qed.
Print Assumptions C09_M1_eq_M2h.

Example ex_host_hyps :
  hroot_ok ex_root /\ nroute ex_root = None /\ nohslash (S2B "a.b.com") /\ hroot_fuel (S2B "/7/y") ex_root <= big_fuel /\
  root_fuel (S2B "/7/y") ex_root <= big_fuel /\
  pathok (S2B "/7/y") = true /\ root_side (S2B "/7/y") ex_root.
Proof.
  split; [apply hroot_okb_sound; vm_compute; reflexivity|]. split; [reflexivity|].
  split; [apply nohslashb_sound; vm_compute; reflexivity|].
  split; [apply Nat.leb_le; vm_compute; reflexivity|]. split; [apply Nat.leb_le; vm_compute; reflexivity|].
  split; [reflexivity|]. left. vm_compute. reflexivity.
Qed.

(* backtracking is exercised: for a.b.com/7/y the static label "b" is tried first, its path part
   "/{id}/x" fails, the skipped parameter label {h} is resumed *)
Example ex_m2h_match :
  option_map (fun r => (lpat (fst r), snd r)) (m2h_root (S2B "/7/y") ex_root (S2B "a.b.com"))
    = Some (S2B "a.{h}.com/{id}/y", [(S2B "h", S2B "b"); (S2B "id", S2B "7")]).
Proof. vm_compute. reflexivity. Qed.

(* ================================================================== *)
(* 2. host_exact                                                        *)
(* ================================================================== *)
(* A DIRECT match of the hostname pass (on M1 itself): the returned route's pattern splits into host
   tokens ht and a rest bt starting with '/'; ht matches the WHOLE host label for label
   ([SpecSound.Matches ht host |host| hvals]: static bytes equal, {name} = one non-empty label part up
   to the next '.' or the end of the host) — never a mere prefix, suffix or infix of the host; bt
   matched the path below the host->path split node x (M2 of StaticEquiv2, = S by C01_M2_eq_Spec);
   the parameters are the host values then the path values. *)
Theorem host_exact : forall host path root lazy fuel n pss tpss,
  nohslash host -> hroot_ok root -> host <> [] -> hroot_fuel path root <= fuel ->
  lookup_by_domain fuel root host path lazy [] [] = Found (Some n) false pss tpss ->
  exists rt ht bt hvals x l kvp,
    nroute n = Some rt /\ In rt (flat_map routes_s (nchildren root)) /\
    rpat rt = render ht ++ render bt /\
    forallb htok_ok ht = true /\ forallb tok_ok bt = true /\ (exists q, render bt = "/" :: q) /\
    SpecSound.Matches ht host (List.length host) hvals /\
    List.length hvals = List.length (wildcard_names ht) /\
    starts_with "/" (nkey x) = true /\ pwf (render ht) x /\ m2 x path = Some (l, kvp) /\ nroute l = Some rt /\
    map fst kvp = wildcard_names bt /\
    pss = addp lazy [] (combine (wildcard_names ht) hvals ++ kvp).
Proof. exact host_exact_thm. Qed.
Print Assumptions host_exact.

Example ex_host_exact :
  (exists n tpss, lookup_by_domain big_fuel ex_root (S2B "foo.example.com") (S2B "/x") false [] []
                  = Found (Some n) false [(S2B "sub", S2B "foo")] tpss) /\
  (* host merely starts with / ends with / contains the pattern's host: no hostname match *)
  direct_obs (lookup_by_domain big_fuel ex_root (S2B "example.comx") (S2B "/") false [] []) = None /\
  direct_obs (lookup_by_domain big_fuel ex_root (S2B "example.com.evil.org") (S2B "/") false [] []) = None /\
  direct_obs (lookup_by_domain big_fuel ex_root (S2B "xexample.com") (S2B "/") false [] []) = None /\
  direct_obs (lookup_by_domain big_fuel ex_root (S2B "example.co") (S2B "/") false [] []) = None /\
  direct_obs (lookup_by_domain big_fuel ex_root (S2B "a.b.c.com") (S2B "/7/y") false [] []) = None.
Proof. vm_compute. repeat split. do 2 eexists; reflexivity. Qed.

(* what the repaired guard charsMatched == len(host) protects: lbd_v b is a verbatim copy of lbd
   whose decision after the walk loop drops that conjunct when b = false *)
Theorem lbd_variant_faithful : forall fuel host path lazy ph s,
  lbd_v true fuel host path lazy ph s = lbd fuel host path lazy ph s.
Proof. exact lbd_v_fixed. Qed.
Print Assumptions lbd_variant_faithful.

Example host_exact_without_fix_refuted :
  hroot_ok ex_root /\ nohslash (S2B "example.comx") /\
  direct_obs (lookup_by_domain_v false big_fuel ex_root (S2B "example.comx") (S2B "/") false [] [])
    = Some (S2B "example.com/", []) /\
  direct_obs (lookup_by_domain_v false big_fuel ex_root (S2B "example.com.evil.org") (S2B "/") false [] [])
    = Some (S2B "example.com/", []) /\
  direct_obs (lookup_by_domain_v true big_fuel ex_root (S2B "example.comx") (S2B "/") false [] []) = None /\
  direct_obs (lookup_by_domain big_fuel ex_root (S2B "example.comx") (S2B "/") false [] []) = None.
Proof.
  split; [apply hroot_okb_sound; vm_compute; reflexivity|].
  split; [apply nohslashb_sound; vm_compute; reflexivity|]. vm_compute. repeat split.
Qed.

(* ================================================================== *)
(* 4b. stage 5 of M1 = S: hostnames                                     *)
(* ================================================================== *)
(* the FULL statement (not proved; never used as a hypothesis): M1_eq_Spec_statement of
   Props_C01_static.v, whose WF covers method trees with hostname routes *)
Definition M1_eq_Spec_host_statement (WF : roots -> Prop) : Prop :=
  forall r, WF r -> forall method host path,
  exists fuel0, forall fuel, fuel0 <= fuel ->
    direct_obs (roots_lookup fuel r method host path false [] []) =
    sres_direct (spec_lookup (method_patterns r method) host path).

(* M2h = S.  Side conditions: host non-empty without '/'; the path is empty or starts with '/'
   (pathok); root_side: okpath path (no '*' byte, no empty segment) or no catch-all in the tree *)
Theorem C09_M2h_eq_Spec : forall root host path,
  hroot_ok root -> nroute root = None -> host <> [] -> nohslash host -> pathok path = true ->
  root_side path root ->
  select_in (map rpat (routes_of_node root)) host path true = res_of [] (m2h_root path root host).
Proof. exact spec_eq_m2h. Qed.
Print Assumptions C09_M2h_eq_Spec.

(* M1 = S for the hostname pass: same route, same parameter values (host values, then path values) *)
Theorem C09_hostpass_eq_Spec : forall root host path fuel,
  hroot_ok root -> nroute root = None -> host <> [] -> nohslash host -> pathok path = true ->
  root_side path root -> hroot_fuel path root <= fuel ->
  direct_obs (lookup_by_domain fuel root host path false [] []) =
  match select_in (map rpat (routes_of_node root)) host path true with
  | Some (p, vals) => Some (p, name_values p vals)
  | None => None
  end.
Proof. exact lbd_eq_spec. Qed.
Print Assumptions C09_hostpass_eq_Spec.

Theorem C09_hostpass_lazy_route : forall root host path fuel lazy,
  hroot_ok root -> nroute root = None -> host <> [] -> nohslash host -> pathok path = true ->
  root_side path root -> hroot_fuel path root <= fuel ->
  option_map fst (direct_obs (lookup_by_domain fuel root host path lazy [] [])) =
  option_map fst (spec_direct_host (map rpat (routes_of_node root)) host path).
Proof. exact lbd_eq_spec_lazy. Qed.
Print Assumptions C09_hostpass_lazy_route.

(* the ONE lemma through which [nohslash host] enters the roots_lookup-level theorem *)
Theorem C09_host_pass_nohslash : forall root host path fuel,
  hroot_ok root -> nroute root = None -> host <> [] -> nohslash host -> pathok path = true ->
  root_side path root -> hroot_fuel path root <= fuel ->
  direct_obs (lookup_by_domain fuel root host path false [] []) =
    spec_direct_host (map rpat (routes_of_node root)) host path /\
  exists tn' t p tp, lookup_by_domain fuel root host path false [] [] = Found tn' t p tp /\
    (select_in (map rpat (routes_of_node root)) host path true = None -> t = false -> tn' = None).
Proof. exact host_pass_nohslash. Qed.
Print Assumptions C09_host_pass_nohslash.

(* the stage reached, at the level roots_lookup / spec_lookup, for a method WITH hostname routes.
   Missing for the full statement: (1) the link WF_txn => hroot_ok (as for pwf in stage 2-4: the
   examples use the boolean checkers on trees built with Tree.insert); (2) [host_tsr_agree]: that M1
   and S agree on WHETHER the hostname pass yields a trailing-slash recommendation when it has no
   direct match — this is C08 for hostname trees and decides between "tsr of the hostname pass" and
   "path-only fallback"; it is a hypothesis here, needed only when S has no direct hostname match. *)
Theorem M1_eq_Spec_host_partial : forall r m i root host path fuel,
  method_index r m = Some i -> nth_error r i = Some root -> nroute root = None ->
  hroot_ok root -> nchildren root <> [] -> shortcut root = false ->
  nohslash host -> pathok path = true -> root_side path root -> root_fuel path root <= fuel ->
  (host <> [] -> select_in (map rpat (routes_of_node root)) host path true = None ->
   host_tsr_agree fuel root host path) ->
  direct_obs (roots_lookup fuel r m host path false [] []) =
  sres_direct (spec_lookup (method_patterns r m) host path).
Proof. exact roots_lookup_host_eq_spec. Qed.
Print Assumptions M1_eq_Spec_host_partial.

Definition ex_lk (h p : string) :=
  direct_obs (roots_lookup big_fuel (t_roots ex_host_txn) m_get (S2B h) (S2B p) false [] []).
Definition ex_sp (h p : string) :=
  sres_direct (spec_lookup (method_patterns (t_roots ex_host_txn) m_get) (S2B h) (S2B p)).
Example ex_host_match :
  ex_lk "a.b.com" "/7/y" = Some (S2B "a.{h}.com/{id}/y", [(S2B "h", S2B "b"); (S2B "id", S2B "7")])
  /\ ex_sp "a.b.com" "/7/y" = ex_lk "a.b.com" "/7/y"
  /\ ex_lk "a.b.com" "/7/x" = Some (S2B "a.b.com/{id}/x", [(S2B "id", S2B "7")]) /\ ex_sp "a.b.com" "/7/x" = ex_lk "a.b.com" "/7/x"
  /\ ex_lk "foo.example.com" "/x" = Some (S2B "{sub}.example.com/x", [(S2B "sub", S2B "foo")])
  /\ ex_sp "foo.example.com" "/x" = ex_lk "foo.example.com" "/x"
  /\ ex_lk "example.comx" "/q" = Some (S2B "/{v}", [(S2B "v", S2B "q")]) /\ ex_sp "example.comx" "/q" = ex_lk "example.comx" "/q"
  /\ ex_lk "" "/x" = Some (S2B "/x", []) /\ ex_sp "" "/x" = ex_lk "" "/x"
  /\ ex_lk "example.com" "/a/b" = None /\ ex_sp "example.com" "/a/b" = None.
Proof. vm_compute. repeat split. Qed.

(* the tsr-agreement hypothesis is satisfiable on a request whose hostname pass finds nothing *)
Example ex_tsr_agree : host_tsr_agree big_fuel ex_root (S2B "example.comx") (S2B "/q") /\
  select_in (map rpat (routes_of_node ex_root)) (S2B "example.comx") (S2B "/q") true = None.
Proof.
  split; [|vm_compute; reflexivity]. intros tn' t p tp H. vm_compute in H. inversion H; subst.
  split; intros _; [vm_compute|]; reflexivity.
Qed.

(* ---- REFUTED without [nohslash host] ----
   A Host containing '/' makes the hostname pass take the "/"-subtree (the PATH-ONLY routes) as a
   hostname edge: getEdge(host[0]) at the method root and the split test getEdge('/') after the walk
   do not distinguish hostname nodes from path nodes.  Routes example.com/, /x, /x/y; Host "/x",
   path "/y": M1 (and fox: 200, pattern /x/y) serve the path-only route /x/y although the request path
   is /y; the specification answers "no route".  (net/http's server rejects such a Host header for
   HTTP/1; r.Host set by middleware, tests or other front-ends is not checked.) *)
Definition wit_slash_txn : txn := build [mk_rih "example.com/" 1 0; mk_rih "/x" 2 0; mk_rih "/x/y" 3 0].
Theorem M1_eq_Spec_host_slash_refuted :
  exists r m i root host path fuel,
    method_index r m = Some i /\ nth_error r i = Some root /\ nroute root = None /\ hroot_ok root /\
    pathok path = true /\ root_side path root /\ root_fuel path root <= fuel /\ ~ nohslash host /\
    direct_obs (roots_lookup fuel r m host path false [] []) = Some (S2B "/x/y", []) /\
    sres_direct (spec_lookup (method_patterns r m) host path) = None /\
    spec_lookup (method_patterns r m) host path = SNone.
Proof.
  exists (t_roots wit_slash_txn), m_get, 0, (get_root wit_slash_txn), (S2B "/x"), (S2B "/y"), big_fuel.
  split; [reflexivity|]. split; [reflexivity|]. split; [reflexivity|].
  split; [apply hroot_okb_sound; vm_compute; reflexivity|]. split; [reflexivity|].
  split; [left; vm_compute; reflexivity|]. split; [apply Nat.leb_le; vm_compute; reflexivity|].
  split; [intros H; apply (H "/"); [left; reflexivity|reflexivity]|].
  vm_compute. repeat split.
Qed.
Print Assumptions M1_eq_Spec_host_slash_refuted.
