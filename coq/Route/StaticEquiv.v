(* StaticEquiv — C01, M1 = S, stage 1 (static tries) and the reusable single-step
   lemmas about the state machine lbp (Lookup.v).
   Owner: proof agent p-equiv. *)
From FoxBase Require Import Bytes.
From FoxRoute Require Import Node Lookup Spec SpecFacts Tree Corr.
Open Scope char_scope.

(* ------------------------------------------------------------------ *)
(* generic list facts                                                  *)
(* ------------------------------------------------------------------ *)
Lemma skipn_cons_nth {A} : forall i (l : list A) x r,
  skipn i l = x :: r -> nth_error l i = Some x /\ skipn (S i) l = r /\ i < List.length l.
Proof.
  induction i as [|i IH]; intros [|y l] x r H; simpl in *; try discriminate.
  - inversion H; subst. repeat split; auto. lia.
  - destruct (IH l x r H) as (H1 & H2 & H3). repeat split; auto. lia.
Qed.

Lemma skipn_nil_len {A} : forall i (l : list A), skipn i l = [] -> List.length l <= i.
Proof.
  induction i as [|i IH]; intros [|y l] H; simpl in *; try discriminate; try lia.
  apply IH in H. lia.
Qed.

Lemma skipn_skipn' {A} : forall a b (l : list A), skipn a (skipn b l) = skipn (a + b) l.
Proof.
  intros a b; revert a. induction b as [|b IH]; intros a l.
  - simpl. f_equal. lia.
  - destruct l as [|x l]; simpl.
    + rewrite !skipn_nil. reflexivity.
    + rewrite IH. replace (a + S b) with (S (a + b)) by lia. reflexivity.
Qed.

(* ------------------------------------------------------------------ *)
(* induction on nodes                                                  *)
(* ------------------------------------------------------------------ *)
Section NodeInd.
  Variable P : node -> Prop.
  Hypothesis H : forall k r ch, Forall P ch -> P (Node k r ch).
  Fixpoint node_ind' (n : node) : P n :=
    match n with
    | Node k r ch =>
        H k r ch ((fix go (l : list node) : Forall P l :=
                     match l with
                     | [] => Forall_nil P
                     | x :: l' => Forall_cons x (node_ind' x) (go l')
                     end) ch)
    end.
End NodeInd.

(* ------------------------------------------------------------------ *)
(* static bytes, static trees                                          *)
(* ------------------------------------------------------------------ *)
Definition sbyte (c : ascii) : bool := negb (Ascii.eqb c "{") && negb (Ascii.eqb c "*").
Definition sbytes (b : bytes) : bool := forallb sbyte b.

(* every key in the subtree is free of '{' and '*' *)
Inductive stree : node -> Prop :=
| STree k r ch : sbytes k = true -> Forall stree ch -> stree (Node k r ch).

Lemma stree_inv k r ch : stree (Node k r ch) -> sbytes k = true /\ Forall stree ch.
Proof. inversion 1; auto. Qed.

(* first child whose key starts with c: what getEdge returns *)
Fixpoint first_child (c : ascii) (l : list node) : option node :=
  match l with
  | [] => None
  | x :: r => if starts_with c (nkey x) then Some x else first_child c r
  end.

Lemma find_child_from_first c : forall l i,
  match find_child_from i c l with
  | Some j => exists k, j = i + k /\ nth_error l k = first_child c l /\ first_child c l <> None
  | None => first_child c l = None
  end.
Proof.
  induction l as [|x l IH]; intros i; simpl; auto.
  destruct (starts_with c (nkey x)).
  - exists 0. repeat split; [lia|discriminate].
  - specialize (IH (S i)). destruct (find_child_from (S i) c l); auto.
    destruct IH as (k & -> & H1 & H2). exists (S k). repeat split; auto. lia.
Qed.

Lemma find_child_first n c :
  match find_child n c with
  | Some j => nth_error (nchildren n) j = first_child c (nchildren n) /\ first_child c (nchildren n) <> None
  | None => first_child c (nchildren n) = None
  end.
Proof.
  unfold find_child. pose proof (find_child_from_first c (nchildren n) 0) as H.
  destruct (find_child_from 0 c (nchildren n)); auto.
  destruct H as (k & -> & H1 & H2). simpl. auto.
Qed.

Lemma first_child_in c : forall l x, first_child c l = Some x -> In x l /\ starts_with c (nkey x) = true.
Proof.
  induction l as [|y l IH]; intros x; simpl; [discriminate|].
  destruct (starts_with c (nkey y)) eqn:E.
  - intros [= <-]. auto.
  - intros H. apply IH in H. tauto.
Qed.

Lemma last_index_none c : forall l i acc,
  (forall x, In x l -> starts_with c (nkey x) = false) -> last_index_from i c l acc = acc.
Proof.
  induction l as [|x l IH]; intros i acc Hn; simpl; auto.
  rewrite (Hn x (or_introl eq_refl)). apply IH. intros y Hy. apply Hn. right; exact Hy.
Qed.

Lemma sbytes_no_start c k : sbytes k = true -> sbyte c = false -> starts_with c k = false.
Proof.
  destruct k as [|x k]; simpl; auto. intros H Hc.
  apply andb_prop in H. destruct H as [Hx _].
  destruct (Ascii.eqb_spec x c); subst; congruence.
Qed.

Lemma stree_no_param n : stree n -> param_child_index n = None /\ wildcard_child_index n = None.
Proof.
  intros Hs. destruct n as [k r ch]. apply stree_inv in Hs. destruct Hs as [_ Hch].
  unfold param_child_index, wildcard_child_index. simpl.
  rewrite Forall_forall in Hch.
  split; apply last_index_none; intros x Hx; specialize (Hch x Hx); destruct x as [kx rx cx];
    apply stree_inv in Hch; destruct Hch as [Hk _]; simpl; apply sbytes_no_start; auto.
Qed.

(* ------------------------------------------------------------------ *)
(* single-step lemmas about lbp                                        *)
(* ------------------------------------------------------------------ *)
(* s' differs from s at most in the trailing-slash bookkeeping and the two counters *)
Definition same_core (s s' : st) : Prop :=
  cur s' = cur s /\ par s' = par s /\ cm s' = cm s /\ cmn s' = cmn s /\ sks s' = sks s /\ ps s' = ps s.
(* no direct-looking result is hidden in the tsr registers *)
Definition tinv (s : st) : Prop := tsr s = false -> tn s = None.

Lemma same_core_refl s : same_core s s.
Proof. repeat split. Qed.

Lemma same_core_trans a b c : same_core a b -> same_core b c -> same_core a c.
Proof. unfold same_core. intuition congruence. Qed.

Lemma set_tsr_core lazy s n tp : same_core s (set_tsr lazy s n tp).
Proof. repeat split. Qed.
Lemma set_tsr_tinv lazy s n tp : tinv (set_tsr lazy s n tp).
Proof. unfold tinv; simpl; discriminate. Qed.

Definition zero_cnt (s : st) : st :=
  {| cur := cur s; par := par s; cm := cm s; cmn := cmn s; pcnt := 0; pkc := 0; sks := sks s;
     ps := ps s; tsr := tsr s; tn := tn s; tps := tps s |}.

Lemma zero_cnt_core s : same_core s (zero_cnt s).
Proof. repeat split. Qed.

Ltac core_tac :=
  repeat match goal with
  | |- context [match ?x with _ => _ end] => destruct x
  end;
  repeat split; auto; try (unfold tinv; simpl; intros; congruence).

(* PAfter without a direct hit goes to Backtrack *)
Lemma after_fail f path lazy s :
  is_leaf (cur s) && Nat.eqb (cm s) (List.length path) && Nat.eqb (cmn s) (List.length (nkey (cur s))) = false ->
  tinv s ->
  exists s', lbp (S f) path lazy PAfter s = lbp f path lazy PBack s'
             /\ same_core s s' /\ tinv s' /\ pcnt s' = 0 /\ pkc s' = 0.
Proof.
  intros Hno Ht. destruct s as [cu pa cm0 cmn0 pc pk sk ps0 ts tn0 tp]. simpl in Hno. unfold tinv in Ht; simpl in Ht.
  cbn [lbp cur par cm cmn pcnt pkc sks ps tsr tn tps].
  destruct (is_leaf cu) eqn:El; cbn [negb].
  - destruct (Nat.eqb cm0 (List.length path)) eqn:E1; cbn [andb] in Hno |- *.
    + rewrite Hno. cbn [andb].
      destruct (Nat.ltb cmn0 (List.length (nkey cu))).
      * eexists; split; [reflexivity|]. unfold par_is_leaf; cbn [par tsr]. core_tac.
      * destruct (Nat.ltb cm0 (List.length path)); cbn [andb];
          eexists; (split; [reflexivity|]); core_tac.
    + destruct (Nat.ltb cm0 (List.length path) && Nat.eqb cmn0 (List.length (nkey cu)));
        eexists; (split; [reflexivity|]); core_tac.
  - eexists; split; [reflexivity|]. unfold par_is_leaf; cbn [par tsr]. core_tac.
Qed.

Lemma after_found f path lazy s :
  is_leaf (cur s) = true -> cm s = List.length path -> cmn s = List.length (nkey (cur s)) ->
  lbp (S f) path lazy PAfter s = Found (Some (cur s)) false (ps s) (tps s).
Proof.
  intros Hl H1 H2. destruct s as [cu pa cm0 cmn0 pc pk sk ps0 ts tn0 tp]. simpl in *.
  cbn [lbp cur par cm cmn pcnt pkc sks ps tsr tn tps]. rewrite Hl. subst. rewrite !Nat.eqb_refl. reflexivity.
Qed.

Lemma back_nil f path lazy s : sks s = [] ->
  lbp (S f) path lazy PBack s = Found (tn s) (tsr s) (ps s) (tps s).
Proof. intros H. cbn [lbp]. rewrite H. reflexivity. Qed.

Lemma walk_lt f path lazy s : cm s < List.length path ->
  lbp (S f) path lazy PWalk s = lbp f path lazy (PInner 0)
    {| cur := cur s; par := par s; cm := cm s; cmn := 0; pcnt := pcnt s; pkc := pkc s; sks := sks s;
       ps := ps s; tsr := tsr s; tn := tn s; tps := tps s |}.
Proof. intros H. cbn [lbp]. apply Nat.ltb_lt in H. rewrite H. reflexivity. Qed.

Lemma walk_ge f path lazy s : List.length path <= cm s ->
  lbp (S f) path lazy PWalk s = lbp f path lazy PAfter s.
Proof. intros H. cbn [lbp]. apply Nat.ltb_ge in H. rewrite H. reflexivity. Qed.

Lemma select_ge f path lazy s : List.length path <= cm s ->
  lbp (S (S f)) path lazy PSelect s = lbp f path lazy PAfter s.
Proof.
  intros H. cbn [lbp]. pose proof H as H'. apply Nat.ltb_ge in H'. rewrite H'. reflexivity.
Qed.

Lemma select_child f path lazy s c x :
  cm s < List.length path -> nth_error path (cm s) = Some c ->
  first_child c (nchildren (cur s)) = Some x ->
  param_child_index (cur s) = None -> wildcard_child_index (cur s) = None ->
  lbp (S f) path lazy PSelect s = lbp f path lazy PWalk (descend s x).
Proof.
  intros Hlt Hc Hx Hp Hw. cbn [lbp]. apply Nat.ltb_lt in Hlt. rewrite Hlt, Hc.
  pose proof (find_child_first (cur s) c) as Hf. destruct (find_child (cur s) c) as [j|].
  - destruct Hf as [Hj _]. rewrite Hp, Hw, Hj, Hx. reflexivity.
  - congruence.
Qed.

Lemma select_none f path lazy s c :
  cm s < List.length path -> nth_error path (cm s) = Some c ->
  first_child c (nchildren (cur s)) = None ->
  param_child_index (cur s) = None -> wildcard_child_index (cur s) = None ->
  tinv s ->
  exists s', lbp (S f) path lazy PSelect s = lbp f path lazy PAfter s' /\ same_core s s' /\ tinv s'.
Proof.
  intros Hlt Hc Hx Hp Hw Ht. cbn [lbp]. apply Nat.ltb_lt in Hlt. rewrite Hlt, Hc.
  pose proof (find_child_first (cur s) c) as Hf. destruct (find_child (cur s) c) as [j|].
  - destruct Hf as [_ Hj]. congruence.
  - match goal with |- context [if ?b then set_tsr lazy s (cur s) (ps s) else s] => destruct b end.
    + change (cur (set_tsr lazy s (cur s) (ps s))) with (cur s). rewrite Hp, Hw.
      eexists; split; [reflexivity|]. split; [apply set_tsr_core|apply set_tsr_tinv].
    + rewrite Hp, Hw. eexists; split; [reflexivity|]. split; [apply same_core_refl|exact Ht].
Qed.

(* ------------------------------------------------------------------ *)
(* the key walk on a static key                                        *)
(* ------------------------------------------------------------------ *)
(* kwalk k p = (number of bytes matched, false iff stopped on a mismatch) *)
Fixpoint kwalk (k p : bytes) : nat * bool :=
  match p with
  | [] => (0, true)
  | c :: p' =>
    match k with
    | [] => (0, true)
    | d :: k' => if Ascii.eqb d c then let '(m, b) := kwalk k' p' in (S m, b) else (0, false)
    end
  end.

Definition adv (s : st) (m : nat) : st :=
  {| cur := cur s; par := par s; cm := m + cm s; cmn := m + cmn s; pcnt := pcnt s; pkc := pkc s; sks := sks s;
     ps := ps s; tsr := tsr s; tn := tn s; tps := tps s |}.

Lemma inner_static path lazy : forall kr pr i f s,
  skipn i (nkey (cur s)) = kr -> skipn (cm s) path = pr -> sbytes kr = true ->
  lbp (fst (kwalk kr pr) + 1 + f) path lazy (PInner i) s =
  lbp f path lazy (if snd (kwalk kr pr) then PSelect else PAfter) (adv s (fst (kwalk kr pr))).
Proof.
  induction kr as [|k kr IH]; intros pr i f s Hk Hp Hs.
  - (* key exhausted *)
    destruct s as [cu pa cm0 cmn0 pc pk sk ps0 ts tn0 tp]. simpl in Hk, Hp.
    apply skipn_nil_len in Hk.
    assert (kwalk [] pr = (0, true)) as -> by (destruct pr; reflexivity).
    cbn [fst snd plus adv cur par cm cmn pcnt pkc sks ps tsr tn tps].
    cbn [lbp cur par cm cmn pcnt pkc sks ps tsr tn tps].
    destruct (Nat.ltb cm0 (List.length path)); cbn [negb]; [|reflexivity].
    apply Nat.ltb_ge in Hk. rewrite Hk. reflexivity.
  - destruct pr as [|p pr].
    + destruct s as [cu pa cm0 cmn0 pc pk sk ps0 ts tn0 tp]. simpl in Hk, Hp.
      apply skipn_nil_len in Hp. apply Nat.ltb_ge in Hp.
      cbn [kwalk fst snd plus adv cur par cm cmn pcnt pkc sks ps tsr tn tps].
      cbn [lbp cur par cm cmn pcnt pkc sks ps tsr tn tps]. rewrite Hp. reflexivity.
    + apply skipn_cons_nth in Hk. destruct Hk as (Hk1 & Hk2 & Hk3).
      apply skipn_cons_nth in Hp. destruct Hp as (Hp1 & Hp2 & Hp3).
      simpl in Hs. apply andb_prop in Hs. destruct Hs as [Hsk Hs].
      cbn [kwalk]. destruct (Ascii.eqb k p) eqn:E.
      * apply Ascii.eqb_eq in E. subst p.
        specialize (IH pr (S i) f (adv s 1)).
        destruct (kwalk kr pr) as [m b] eqn:Ekw. cbn [fst snd] in *.
        replace (S m + 1 + f) with (S (m + 1 + f)) by lia.
        cbn [lbp]. apply Nat.ltb_lt in Hk3, Hp3. rewrite Hp3, Hk3. cbn [negb].
        rewrite Hk1, Hp1. rewrite Ascii.eqb_refl. cbn [negb orb].
        unfold sbyte in Hsk. apply andb_prop in Hsk. destruct Hsk as [H1 H2].
        apply negb_true_iff in H1, H2. rewrite H1, H2. cbn [orb].
        change ({| cur := cur s; par := par s; cm := S (cm s); cmn := S (cmn s); pcnt := pcnt s; pkc := pkc s;
                   sks := sks s; ps := ps s; tsr := tsr s; tn := tn s; tps := tps s |}) with (adv s 1).
        rewrite IH; auto.
        f_equal. unfold adv; simpl. f_equal; lia.
      * cbn [fst snd plus]. cbn [lbp]. apply Nat.ltb_lt in Hk3, Hp3. rewrite Hp3, Hk3. cbn [negb].
        rewrite Hk1, Hp1, E. cbn [negb orb].
        unfold sbyte in Hsk. apply andb_prop in Hsk. destruct Hsk as [H1 H2].
        apply negb_true_iff in H1, H2. rewrite H1, H2.
        destruct s; reflexivity.
Qed.

(* ------------------------------------------------------------------ *)
(* the static matcher: plain compressed-trie search                     *)
(* ------------------------------------------------------------------ *)
Fixpoint strip (k p : bytes) : option bytes :=
  match k with
  | [] => Some p
  | d :: k' => match p with
               | [] => None
               | c :: p' => if Ascii.eqb d c then strip k' p' else None
               end
  end.

Fixpoint smatch (n : node) (p : bytes) : option node :=
  match n with
  | Node k r ch =>
    match strip k p with
    | None => None
    | Some [] => match r with Some _ => Some n | None => None end
    | Some (c :: rest) =>
        (fix go (l : list node) : option node :=
           match l with
           | [] => None
           | x :: l' => if starts_with c (nkey x) then smatch x (c :: rest) else go l'
           end) ch
    end
  end.

Lemma smatch_eq k r ch p :
  smatch (Node k r ch) p =
  match strip k p with
  | None => None
  | Some [] => match r with Some _ => Some (Node k r ch) | None => None end
  | Some (c :: rest) => match first_child c ch with Some x => smatch x (c :: rest) | None => None end
  end.
Proof.
  cbn [smatch]. destruct (strip k p) as [[|c rest]|]; auto.
  induction ch as [|x ch IH]; simpl; auto.
  destruct (starts_with c (nkey x)); auto.
Qed.

Lemma kwalk_le k : forall p, fst (kwalk k p) <= List.length p.
Proof.
  induction k as [|d k IH]; intros [|c p]; simpl; try lia.
  destruct (Ascii.eqb d c); simpl; [|lia].
  specialize (IH p). destruct (kwalk k p); simpl in *. lia.
Qed.

Lemma kwalk_strip k : forall p,
  match strip k p with
  | Some rest => kwalk k p = (List.length k, true) /\ p = k ++ rest
  | None => (snd (kwalk k p) = false /\ fst (kwalk k p) < List.length p)
            \/ (snd (kwalk k p) = true /\ fst (kwalk k p) = List.length p /\ List.length p < List.length k)
  end.
Proof.
  induction k as [|d k IH]; intros p.
  - simpl. destruct p; auto.
  - destruct p as [|c p]; simpl.
    + right. repeat split; lia.
    + destruct (Ascii.eqb_spec d c) as [->|Hn].
      * specialize (IH p). destruct (strip k p) as [rest|].
        -- destruct IH as [-> ->]. auto.
        -- destruct (kwalk k p) as [m b]; simpl in *.
           destruct IH as [[H1 H2]|(H1 & H2 & H3)]; [left|right]; repeat split; auto; lia.
      * left. simpl. split; auto. lia.
Qed.

(* a result that is not a direct hit (and keeps the parameter list) *)
Definition nodirect (r : lres) (ps0 : list kv) : Prop :=
  exists tn' tsr' tps', r = Found tn' tsr' ps0 tps' /\ (tsr' = false -> tn' = None).

Lemma fail_static f path lazy s :
  sks s = [] -> tinv s ->
  is_leaf (cur s) && Nat.eqb (cm s) (List.length path) && Nat.eqb (cmn s) (List.length (nkey (cur s))) = false ->
  nodirect (lbp (S (S f)) path lazy PAfter s) (ps s).
Proof.
  intros Hsk Ht Hno. destruct (after_fail (S f) path lazy s Hno Ht) as (s' & -> & Hc & Ht' & _).
  destruct Hc as (_ & _ & _ & _ & Hs & Hp). rewrite back_nil by congruence.
  rewrite Hp. do 3 eexists. split; [reflexivity|exact Ht'].
Qed.

Lemma lbp_fuel_shape (a b : nat) : a <= b -> exists f, b = a + f.
Proof. intros H. exists (b - a). lia. Qed.

Lemma walk_static path lazy : forall n, stree n -> nkey n <> [] ->
  forall fuel s, cur s = n -> sks s = [] -> cm s < List.length path -> tinv s ->
  4 * (List.length path - cm s) + 6 <= fuel ->
  match smatch n (skipn (cm s) path) with
  | Some l => lbp fuel path lazy PWalk s = Found (Some l) false (ps s) (tps s)
  | None => nodirect (lbp fuel path lazy PWalk s) (ps s)
  end.
Proof.
  induction n as [k r ch IH] using node_ind'. intros Hst Hk fuel s Hcur Hsk Hlt Ht Hfuel.
  apply stree_inv in Hst. destruct Hst as [Hsb Hch]. simpl in Hk.
  set (pr := skipn (cm s) path).
  assert (Hlen : List.length pr = List.length path - cm s) by apply skipn_length.
  destruct fuel as [|f1]; [lia|]. rewrite walk_lt by exact Hlt.
  match goal with |- context [lbp _ _ _ (PInner 0) ?x] => set (s0 := x) end.
  pose proof (kwalk_le k pr) as Hle.
  destruct (lbp_fuel_shape (fst (kwalk k pr) + 1) f1) as [f2 Hf2]; [lia|].
  rewrite Hf2.
  rewrite (inner_static path lazy k pr 0 f2 s0);
    [| simpl; rewrite Hcur; reflexivity | reflexivity | exact Hsb].
  rewrite smatch_eq. pose proof (kwalk_strip k pr) as Hks.
  assert (Hc0 : cur s0 = Node k r ch) by exact Hcur.
  assert (Hsk0 : sks s0 = []) by exact Hsk.
  assert (Ht0 : tinv s0) by exact Ht.
  destruct (strip k pr) as [rest|].
  - destruct Hks as [Hkw Hpr]. rewrite Hkw in *. cbn [fst snd] in *.
    assert (Hlk : List.length pr = List.length k + List.length rest) by (rewrite Hpr, app_length; reflexivity).
    destruct rest as [|c rest].
    + (* the path ends exactly at the end of the key *)
      simpl in Hlk.
      destruct f2 as [|[|f3]]; [lia|lia|].
      rewrite select_ge by (simpl; lia).
      destruct r as [rt|].
      * destruct f3 as [|f4]; [lia|]. rewrite after_found.
        -- simpl. rewrite Hcur. reflexivity.
        -- simpl. rewrite Hcur. reflexivity.
        -- simpl. lia.
        -- simpl. rewrite Hcur. simpl. lia.
      * destruct f3 as [|[|f4]]; [lia|lia|].
        apply (fail_static f4 path lazy (adv s0 (List.length k))); auto.
        simpl. rewrite Hcur. reflexivity.
    + (* key consumed, path continues with c *)
      simpl in Hlk.
      assert (Hsk' : skipn (List.length k + cm s) path = c :: rest).
      { rewrite <- skipn_skipn'. fold pr. rewrite Hpr. rewrite skipn_app, skipn_all, Nat.sub_diag. reflexivity. }
      pose proof (skipn_cons_nth _ _ _ _ Hsk') as (Hn1 & _ & Hn3).
      destruct (stree_no_param (Node k r ch)) as [Hnp Hnw]; [constructor; auto|].
      destruct (first_child c ch) as [x|] eqn:Efc.
      * destruct f2 as [|f3]; [lia|].
        rewrite (select_child f3 path lazy (adv s0 (List.length k)) c x); simpl; try rewrite Hcur; auto.
        apply first_child_in in Efc. destruct Efc as [Hin Hst].
        rewrite Forall_forall in IH, Hch.
        specialize (IH x Hin (Hch x Hin)).
        assert (Hkx : nkey x <> []) by (destruct (nkey x); simpl in Hst; congruence).
        specialize (IH Hkx f3 (descend (adv s0 (List.length k)) x) eq_refl Hsk).
        simpl in IH. rewrite Hsk' in IH. apply IH; auto.
        destruct k; [congruence|]. simpl in *. lia.
      * destruct f2 as [|f3]; [lia|].
        destruct (select_none f3 path lazy (adv s0 (List.length k)) c) as (s' & -> & Hc' & Ht');
          simpl; try rewrite Hcur; auto.
        destruct Hc' as (Hc1 & _ & Hc3 & _ & Hc5 & Hc6). simpl in *.
        destruct f3 as [|[|f4]]; [lia|lia|].
        rewrite <- Hc6. apply fail_static; auto; [congruence|].
        rewrite Hc3. replace (Nat.eqb (List.length k + cm s) (List.length path)) with false
          by (symmetry; apply Nat.eqb_neq; lia).
        rewrite andb_false_r. reflexivity.
  - destruct (kwalk k pr) as [m b]. cbn [fst snd] in *.
    destruct Hks as [[-> Hm]|(-> & Hm & Hm2)].
    + destruct f2 as [|[|f3]]; [lia|lia|].
      apply (fail_static f3 path lazy (adv s0 m)); auto. simpl.
      replace (Nat.eqb (m + cm s) (List.length path)) with false by (symmetry; apply Nat.eqb_neq; lia).
      rewrite andb_false_r. reflexivity.
    + destruct f2 as [|[|f3]]; [lia|lia|].
      rewrite select_ge by (simpl; lia).
      destruct f3 as [|[|f4]]; [lia|lia|].
      apply (fail_static f4 path lazy (adv s0 m)); auto. simpl. rewrite Hcur. simpl.
      replace (Nat.eqb (m + 0) (List.length k)) with false by (symmetry; apply Nat.eqb_neq; lia).
      rewrite andb_false_r. reflexivity.
Qed.

(* ------------------------------------------------------------------ *)
(* routes of a tree, structurally                                       *)
(* ------------------------------------------------------------------ *)
Definition opt_list {A} (o : option A) : list A := match o with Some x => [x] | None => [] end.

Fixpoint routes_s (n : node) : list route :=
  match n with Node _ r ch => opt_list r ++ flat_map routes_s ch end.

Lemma height_child x ch :
  In x ch -> node_height x <= fold_right (fun c acc => Nat.max (node_height c) acc) 0 ch.
Proof.
  induction ch as [|y ch IH]; simpl; [tauto|]. intros [->|H]; [lia|]. apply IH in H. lia.
Qed.

Lemma routes_pre_s : forall n f, node_height n <= f -> routes_pre f n = routes_s n.
Proof.
  induction n as [k r ch IH] using node_ind'. intros f Hf.
  destruct f as [|f]; [simpl in Hf; lia|].
  cbn [routes_pre routes_s nroute nchildren].
  assert (flat_map (routes_pre f) ch = flat_map routes_s ch) as ->.
  { cbn [node_height] in Hf. rewrite Forall_forall in IH.
    assert (forall x, In x ch -> routes_pre f x = routes_s x) as Hx.
    { intros x Hx. apply IH; auto. pose proof (height_child x ch Hx). lia. }
    clear -Hx. induction ch as [|y ch IHc]; simpl; auto.
    rewrite Hx by (left; reflexivity). f_equal. apply IHc. intros x Hin. apply Hx. right; exact Hin. }
  destruct r; reflexivity.
Qed.

Lemma routes_of_node_s n : routes_of_node n = routes_s n.
Proof. unfold routes_of_node. apply routes_pre_s. lia. Qed.

(* ------------------------------------------------------------------ *)
(* well-formed static trie                                              *)
(* ------------------------------------------------------------------ *)
(* pre = concatenation of the keys above the node *)
Inductive swf : bytes -> node -> Prop :=
| SWF pre k r ch :
    k <> [] -> sbytes k = true ->
    (forall rt, r = Some rt -> rpat rt = pre ++ k) ->
    NoDup (map (fun c => hd_byte (nkey c)) ch) ->
    Forall (swf (pre ++ k)) ch ->
    swf pre (Node k r ch).

Lemma swf_inv pre k r ch : swf pre (Node k r ch) ->
  k <> [] /\ sbytes k = true /\ (forall rt, r = Some rt -> rpat rt = pre ++ k) /\
  NoDup (map (fun c => hd_byte (nkey c)) ch) /\ Forall (swf (pre ++ k)) ch.
Proof. inversion 1; subst; auto 6. Qed.

Lemma swf_stree : forall n pre, swf pre n -> stree n.
Proof.
  induction n as [k r ch IH] using node_ind'. intros pre H.
  apply swf_inv in H. destruct H as (_ & Hs & _ & _ & Hch). constructor; auto.
  rewrite Forall_forall in *. intros x Hx. eapply IH; eauto.
Qed.

Lemma strip_app k : forall q, strip k (k ++ q) = Some q.
Proof. induction k as [|d k IH]; intros q; simpl; auto. rewrite Ascii.eqb_refl. apply IH. Qed.

Lemma strip_some k : forall p q, strip k p = Some q -> p = k ++ q.
Proof. intros p q H. pose proof (kwalk_strip k p) as Hk. rewrite H in Hk. tauto. Qed.

Lemma smatch_sound : forall n pre p l, swf pre n -> smatch n p = Some l ->
  exists rt, nroute l = Some rt /\ rpat rt = pre ++ p /\ In rt (routes_s n).
Proof.
  induction n as [k r ch IH] using node_ind'. intros pre p l Hwf.
  apply swf_inv in Hwf. destruct Hwf as (_ & _ & Hr & _ & Hch).
  rewrite smatch_eq. destruct (strip k p) as [[|c rest]|] eqn:Es; try discriminate.
  - apply strip_some in Es. rewrite app_nil_r in Es. subst p.
    destruct r as [rt|]; [|discriminate]. intros [= <-]. exists rt. simpl. auto.
  - apply strip_some in Es. subst p.
    destruct (first_child c ch) as [x|] eqn:Ef; [|discriminate]. intros Hm.
    apply first_child_in in Ef. destruct Ef as [Hin _].
    rewrite Forall_forall in IH, Hch.
    destruct (IH x Hin (pre ++ k) (c :: rest) l (Hch x Hin) Hm) as (rt & H1 & H2 & H3).
    exists rt. split; auto. split; [rewrite H2, app_assoc; reflexivity|].
    cbn [routes_s]. apply in_or_app. right. apply in_flat_map. exists x; auto.
Qed.

Lemma routes_prefix : forall n pre rt, swf pre n -> In rt (routes_s n) -> exists q, rpat rt = pre ++ nkey n ++ q.
Proof.
  induction n as [k r ch IH] using node_ind'. intros pre rt Hwf Hin.
  apply swf_inv in Hwf. destruct Hwf as (_ & _ & Hr & _ & Hch).
  cbn [routes_s] in Hin. apply in_app_or in Hin. destruct Hin as [Hin|Hin].
  - destruct r as [r0|]; simpl in Hin; [|tauto]. destruct Hin as [<-|[]].
    exists []. simpl. rewrite app_nil_r. apply Hr; reflexivity.
  - apply in_flat_map in Hin. destruct Hin as (x & Hx & Hrt).
    rewrite Forall_forall in IH, Hch.
    destruct (IH x Hx (pre ++ k) rt (Hch x Hx) Hrt) as [q Hq].
    exists (nkey x ++ q). simpl. rewrite Hq, <- app_assoc. reflexivity.
Qed.

Lemma first_child_nodup c : forall l x,
  NoDup (map (fun y => hd_byte (nkey y)) l) -> In x l -> hd_byte (nkey x) = Some c ->
  first_child c l = Some x.
Proof.
  induction l as [|y l IH]; intros x Hnd Hin Hc; simpl in *; [tauto|].
  inversion Hnd as [|? ? Hni Hnd']; subst.
  destruct Hin as [->|Hin].
  - destruct (nkey x) as [|d kx]; simpl in *; [discriminate|]. inversion Hc; subst. rewrite Ascii.eqb_refl. reflexivity.
  - destruct (starts_with c (nkey y)) eqn:E.
    + exfalso. apply Hni. apply in_map_iff. exists x. split; auto.
      rewrite Hc. destruct (nkey y) as [|d ky]; simpl in *; [discriminate|].
      apply Ascii.eqb_eq in E. subst; reflexivity.
    + apply IH; auto.
Qed.

Lemma smatch_complete : forall n pre p rt, swf pre n -> In rt (routes_s n) -> rpat rt = pre ++ p ->
  exists l, smatch n p = Some l /\ nroute l = Some rt.
Proof.
  induction n as [k r ch IH] using node_ind'. intros pre p rt Hwf Hin Hp.
  pose proof Hwf as Hwf0.
  apply swf_inv in Hwf. destruct Hwf as (_ & _ & Hr & Hnd & Hch).
  rewrite smatch_eq.
  cbn [routes_s] in Hin. apply in_app_or in Hin. destruct Hin as [Hin|Hin].
  - destruct r as [r0|]; simpl in Hin; [|tauto]. destruct Hin as [<-|[]].
    rewrite (Hr r0 eq_refl) in Hp. apply app_inv_head in Hp. subst p.
    replace (strip k k) with (strip k (k ++ [])) by (rewrite app_nil_r; reflexivity). rewrite strip_app. eexists; split; reflexivity.
  - apply in_flat_map in Hin. destruct Hin as (x & Hx & Hrt).
    rewrite Forall_forall in IH, Hch.
    destruct (routes_prefix x (pre ++ k) rt (Hch x Hx) Hrt) as [q Hq].
    rewrite Hp, <- app_assoc in Hq. apply app_inv_head in Hq. subst p.
    rewrite strip_app.
    pose proof (Hch x Hx) as Hwx. destruct x as [kx rx cx]. pose proof Hwx as Hwx0.
    apply swf_inv in Hwx. destruct Hwx as (Hkx & _). simpl in *.
    destruct kx as [|c kx]; [congruence|]. simpl.
    rewrite (first_child_nodup c ch (Node (c :: kx) rx cx)); auto.
    apply (IH _ Hx (pre ++ k)); auto. rewrite Hp, <- app_assoc. reflexivity.
Qed.

(* ------------------------------------------------------------------ *)
(* S on static patterns: exact string membership                        *)
(* ------------------------------------------------------------------ *)
Lemma tokenize_step c r f : sbyte c = true -> tokenize_fuel (S f) (c :: r) = TStatic c :: tokenize_fuel f r.
Proof.
  intros H. destruct c as [[] [] [] [] [] [] [] []]; try reflexivity; simpl in H; discriminate.
Qed.

Lemma tokenize_fuel_static : forall s f, sbytes s = true -> List.length s <= f -> tokenize_fuel f s = map TStatic s.
Proof.
  induction s as [|c s IH]; intros f Hs Hf.
  - destruct f; reflexivity.
  - destruct f as [|f]; [simpl in Hf; lia|]. simpl in Hs. apply andb_prop in Hs. destruct Hs as [Hc Hs].
    rewrite tokenize_step by exact Hc. simpl. f_equal. apply IH; auto. simpl in Hf. lia.
Qed.

Lemma tokenize_static s : sbytes s = true -> tokenize s = map TStatic s.
Proof. intros H. apply tokenize_fuel_static; auto. Qed.

(* a candidate whose remaining tokens are all static *)
Definition scand (k : cand) : Prop := exists suf, toks k = map TStatic suf.

Lemma adv_param_static cs : Forall scand cs -> adv_param cs = [].
Proof.
  induction 1 as [|k cs [suf Hk] _ IH]; simpl; auto. rewrite IH, Hk. destruct suf; reflexivity.
Qed.
Lemma adv_catch_static cs : Forall scand cs -> adv_catch cs = [].
Proof.
  induction 1 as [|k cs [suf Hk] _ IH]; simpl; auto. rewrite IH, Hk. destruct suf; reflexivity.
Qed.

Lemma adv_static_in c cs k' :
  In k' (adv_static c cs) <-> exists k, In k cs /\ toks k = TStatic c :: toks k' /\ pat k' = pat k.
Proof.
  unfold adv_static. rewrite in_flat_map. split.
  - intros (k & Hin & Hk). exists k. split; auto.
    destruct (toks k) as [|[d|n|n] t]; simpl in Hk; try tauto.
    destruct (Ascii.eqb_spec c d); simpl in Hk; [|tauto]. destruct Hk as [<-|[]]. subst. auto.
  - intros (k & Hin & Ht & Hp). exists k. split; auto. rewrite Ht, Ascii.eqb_refl. left.
    destruct k'; simpl in *. subst; reflexivity.
Qed.

Lemma adv_static_scand c cs : Forall scand cs -> Forall scand (adv_static c cs).
Proof.
  intros H. rewrite Forall_forall in *. intros k' Hk'. apply adv_static_in in Hk'.
  destruct Hk' as (k & Hin & Ht & _). destruct (H k Hin) as [suf Hs]. rewrite Hs in Ht.
  destruct suf as [|d suf]; simpl in Ht; [discriminate|]. inversion Ht. exists suf; auto.
Qed.

Lemma select_static_step fuel cs c r vals : Forall scand cs ->
  select (S fuel) cs (c :: r) 0 vals =
  if Ascii.eqb c "{" || Ascii.eqb c "*" then None
  else match adv_static c cs with [] => None | cs' => select fuel cs' r 0 vals end.
Proof.
  intros H. cbn [select]. rewrite adv_param_static, adv_catch_static by exact H.
  cbn [Nat.eqb negb pred]. unfold orelse.
  destruct (Ascii.eqb c "{" || Ascii.eqb c "*"); auto.
  destruct (adv_static c cs) eqn:E; auto. destruct (select fuel (c0 :: l) r 0 vals); auto.
Qed.

Lemma select_static_sound : forall fuel cs s vals p vs, Forall scand cs ->
  select fuel cs s 0 vals = Some (p, vs) ->
  exists k, In k cs /\ pat k = p /\ toks k = map TStatic s /\ vs = rev vals.
Proof.
  induction fuel as [|fuel IH]; intros cs s vals p vs Hsc; [discriminate|].
  destruct s as [|c r].
  - cbn [select]. unfold leaf.
    destruct (filter (fun k => match toks k with [] => true | _ => false end) cs) as [|k l] eqn:E; [discriminate|].
    intros [= <- <-]. assert (In k (k :: l)) as Hin by (left; reflexivity). rewrite <- E in Hin.
    apply filter_In in Hin. destruct Hin as [Hin Ht]. exists k. repeat split; auto.
    destruct (toks k); [reflexivity|discriminate].
  - rewrite select_static_step by exact Hsc.
    destruct (Ascii.eqb c "{" || Ascii.eqb c "*"); [discriminate|].
    destruct (adv_static c cs) as [|k0 l] eqn:E; [discriminate|]. rewrite <- E. intros Hsel.
    apply IH in Hsel; [|apply adv_static_scand; exact Hsc].
    destruct Hsel as (k' & Hin & Hp & Ht & Hv). apply adv_static_in in Hin.
    destruct Hin as (k & Hin & Htk & Hpk). exists k. repeat split; auto; [congruence|].
    rewrite Htk, Ht. reflexivity.
Qed.

Lemma select_static_complete : forall fuel cs s vals k, Forall scand cs ->
  In k cs -> toks k = map TStatic s -> sbytes s = true -> List.length s < fuel ->
  exists p, select fuel cs s 0 vals = Some (p, rev vals).
Proof.
  induction fuel as [|fuel IH]; intros cs s vals k Hsc Hin Ht Hs Hf; [lia|].
  destruct s as [|c r].
  - cbn [select]. unfold leaf.
    destruct (filter (fun k => match toks k with [] => true | _ => false end) cs) as [|k1 l] eqn:E.
    + exfalso. assert (In k (filter (fun k => match toks k with [] => true | _ => false end) cs)) as H.
      { apply filter_In. split; auto. rewrite Ht. reflexivity. }
      rewrite E in H. exact H.
    + eexists; reflexivity.
  - rewrite select_static_step by exact Hsc.
    simpl in Hs. apply andb_prop in Hs. destruct Hs as [Hc Hs].
    unfold sbyte in Hc. apply andb_prop in Hc. destruct Hc as [H1 H2]. apply negb_true_iff in H1, H2.
    rewrite H1, H2. cbn [orb].
    assert (In {| pat := pat k; toks := map TStatic r |} (adv_static c cs)) as Hin'.
    { apply adv_static_in. exists k. repeat split; auto. }
    destruct (adv_static c cs) as [|k0 l] eqn:E; [destruct Hin'|]. rewrite <- E in *.
    eapply IH; eauto; [apply adv_static_scand; exact Hsc|simpl in Hf; lia].
Qed.

Lemma map_TStatic_inj : forall a b, map TStatic a = map TStatic b -> a = b.
Proof.
  induction a as [|x a IH]; intros [|y b] H; simpl in H; try discriminate; auto.
  inversion H; subst. f_equal; auto.
Qed.

(* on static patterns S is exact string membership *)
Theorem select_in_static pats host path :
  Forall (fun p => sbytes p = true /\ is_path_pattern p = true) pats ->
  select_in pats host path false = if existsb (bytes_eqb path) pats then Some (path, []) else None.
Proof.
  intros Hp. unfold select_in.
  assert (filter (fun p => is_path_pattern p) pats = pats) as ->.
  { induction Hp as [|p l [_ Hpp] _ IH]; simpl; auto. rewrite Hpp, IH. reflexivity. }
  assert (Forall scand (map mk_cand pats)) as Hsc.
  { rewrite Forall_forall in *. intros k Hk. apply in_map_iff in Hk. destruct Hk as (p & <- & Hin).
    exists p. simpl. apply tokenize_static. apply Hp; auto. }
  destruct (existsb (bytes_eqb path) pats) eqn:Ex.
  - apply existsb_exists in Ex. destruct Ex as (p & Hin & Heq). apply bytes_eqb_eq in Heq. subst p.
    rewrite Forall_forall in Hp. destruct (Hp path Hin) as [Hs _].
    destruct (select_static_complete (spec_fuel host path) (map mk_cand pats) path [] (mk_cand path)) as [p Hsel]; auto.
    + apply in_map; exact Hin.
    + simpl. apply tokenize_static; exact Hs.
    + unfold spec_fuel. rewrite app_length || idtac. lia.
    + rewrite Hsel. simpl. destruct (select_static_sound _ _ _ _ _ _ Hsc Hsel) as (k & Hk & Hpk & Htk & _).
      apply in_map_iff in Hk. destruct Hk as (q & <- & Hq). simpl in *. subst q.
      rewrite tokenize_static in Htk by (apply Hp; auto). apply map_TStatic_inj in Htk. subst. reflexivity.
  - destruct (select (spec_fuel host path) (map mk_cand pats) path 0 []) as [[p vs]|] eqn:Hsel; auto.
    exfalso. destruct (select_static_sound _ _ _ _ _ _ Hsc Hsel) as (k & Hk & Hpk & Htk & _).
    apply in_map_iff in Hk. destruct Hk as (q & <- & Hq). simpl in *.
    rewrite Forall_forall in Hp. rewrite tokenize_static in Htk by (apply Hp; auto).
    apply map_TStatic_inj in Htk. subst q.
    assert (existsb (bytes_eqb path) pats = true) as Hc.
    { apply existsb_exists. exists path. split; auto. apply bytes_eqb_refl. }
    congruence.
Qed.

(* ------------------------------------------------------------------ *)
(* stage 1: M1 on a static trie                                         *)
(* ------------------------------------------------------------------ *)
Definition static_fuel (path : bytes) : nat := 4 * List.length path + 6.

Theorem lbp_static_char t path lazy ps0 tps0 fuel : swf [] t -> static_fuel path <= fuel ->
  match smatch t path with
  | Some l => lookup_by_path fuel t path lazy ps0 tps0 = Found (Some l) false ps0 tps0
  | None => nodirect (lookup_by_path fuel t path lazy ps0 tps0) ps0
  end.
Proof.
  intros Hwf Hf. unfold lookup_by_path, static_fuel in *.
  pose proof (swf_stree _ _ Hwf) as Hst.
  destruct t as [k r ch]. pose proof (swf_inv _ _ _ _ Hwf) as (Hk & _).
  destruct path as [|c path].
  - rewrite smatch_eq. destruct k as [|d k]; [congruence|]. simpl strip. cbv iota.
    destruct fuel as [|[|[|f]]]; try (simpl in Hf; lia).
    rewrite walk_ge by (simpl; lia).
    apply (fail_static f [] lazy (init_st (Node (d :: k) r ch) ps0 tps0)); simpl; auto.
    + unfold tinv; simpl; auto.
    + rewrite andb_false_r. reflexivity.
  - pose proof (walk_static (c :: path) lazy (Node k r ch) Hst Hk fuel
                  (init_st (Node k r ch) ps0 tps0) eq_refl eq_refl) as H.
    simpl skipn in H. apply H.
    + simpl. lia.
    + unfold tinv; simpl; auto.
    + simpl cm. simpl in Hf |- *. lia.
Qed.

(* (a) soundness *)
Theorem lbp_static_sound t path lazy fuel n tp pss tpss :
  swf [] t -> static_fuel path <= fuel ->
  lookup_by_path fuel t path lazy [] [] = Found (Some n) tp pss tpss -> tp = false ->
  exists rt, nroute n = Some rt /\ In rt (routes_of_node t) /\ rpat rt = path /\ pss = [].
Proof.
  intros Hwf Hf Hl ->. pose proof (lbp_static_char t path lazy [] [] fuel Hwf Hf) as H.
  destruct (smatch t path) as [l|] eqn:Em.
  - rewrite H in Hl. inversion Hl; subst.
    destruct (smatch_sound _ _ _ _ Hwf Em) as (rt & H1 & H2 & H3).
    exists rt. rewrite routes_of_node_s. auto.
  - destruct H as (tn' & tsr' & tps' & He & Hi). rewrite He in Hl. inversion Hl; subst.
    specialize (Hi eq_refl). discriminate.
Qed.

(* (b) completeness, with the closed-form fuel bound *)
Theorem lbp_static_complete t path lazy fuel rt :
  swf [] t -> static_fuel path <= fuel ->
  In rt (routes_of_node t) -> rpat rt = path ->
  exists n, lookup_by_path fuel t path lazy [] [] = Found (Some n) false [] [] /\ nroute n = Some rt.
Proof.
  intros Hwf Hf Hin Hp. rewrite routes_of_node_s in Hin.
  destruct (smatch_complete t [] path rt Hwf Hin Hp) as (l & Hm & Hr).
  pose proof (lbp_static_char t path lazy [] [] fuel Hwf Hf) as H. rewrite Hm in H.
  exists l. auto.
Qed.

(* never Panic / OutOfFuel, and the skipped-node stack is never used: every result is a Found *)
Theorem lbp_static_total t path lazy fuel ps0 tps0 :
  swf [] t -> static_fuel path <= fuel ->
  exists n tp pss tpss, lookup_by_path fuel t path lazy ps0 tps0 = Found n tp pss tpss.
Proof.
  intros Hwf Hf. pose proof (lbp_static_char t path lazy ps0 tps0 fuel Hwf Hf) as H.
  destruct (smatch t path).
  - rewrite H. do 4 eexists; reflexivity.
  - destruct H as (a & b & c & -> & _). do 4 eexists; reflexivity.
Qed.

(* (c) M1 = S, direct matches *)
Definition direct_obs (r : lres) : option (bytes * list kv) :=
  match r with
  | Found (Some n) false pss _ => match nroute n with Some rt => Some (rpat rt, pss) | None => None end
  | _ => None
  end.

Definition spec_direct (pats : list bytes) (host path : bytes) : option (bytes * list kv) :=
  match select_in pats host path false with
  | Some (p, vals) => Some (p, name_values p vals)
  | None => None
  end.

Lemma swf_routes_static : forall n pre rt, swf pre n -> In rt (routes_s n) -> sbytes pre = true -> sbytes (rpat rt) = true.
Proof.
  induction n as [k r ch IH] using node_ind'. intros pre rt Hwf Hin Hpre.
  apply swf_inv in Hwf. destruct Hwf as (_ & Hs & Hr & _ & Hch).
  assert (sbytes (pre ++ k) = true) as Hpk by (unfold sbytes; rewrite forallb_app; apply andb_true_intro; auto).
  cbn [routes_s] in Hin. apply in_app_or in Hin. destruct Hin as [Hin|Hin].
  - destruct r as [r0|]; simpl in Hin; [|tauto]. destruct Hin as [<-|[]]. rewrite (Hr r0 eq_refl). exact Hpk.
  - apply in_flat_map in Hin. destruct Hin as (x & Hx & Hrt). rewrite Forall_forall in IH, Hch.
    eapply IH; eauto.
Qed.

Theorem lbp_static_eq_spec t host path lazy fuel :
  swf [] t -> starts_with "/" (nkey t) = true -> static_fuel path <= fuel ->
  direct_obs (lookup_by_path fuel t path lazy [] []) = spec_direct (map rpat (routes_of_node t)) host path.
Proof.
  intros Hwf Hsl Hf. unfold spec_direct. rewrite select_in_static.
  - pose proof (lbp_static_char t path lazy [] [] fuel Hwf Hf) as H.
    destruct (smatch t path) as [l|] eqn:Em.
    + rewrite H. destruct (smatch_sound _ _ _ _ Hwf Em) as (rt & H1 & H2 & H3). simpl in H2.
      simpl. rewrite H1, H2.
      assert (existsb (bytes_eqb path) (map rpat (routes_of_node t)) = true) as ->.
      { apply existsb_exists. exists path. split; [|apply bytes_eqb_refl].
        rewrite routes_of_node_s. apply in_map_iff. exists rt; auto. }
      unfold name_values. destruct (wildcard_names (tokenize path)); reflexivity.
    + destruct H as (a & b & c & -> & Hi).
      destruct (existsb (bytes_eqb path) (map rpat (routes_of_node t))) eqn:Ex.
      * exfalso. apply existsb_exists in Ex. destruct Ex as (p & Hin & Heq). apply bytes_eqb_eq in Heq. subst p.
        apply in_map_iff in Hin. destruct Hin as (rt & Hp & Hin). rewrite routes_of_node_s in Hin.
        destruct (smatch_complete t [] path rt Hwf Hin Hp) as (l & Hm & _). congruence.
      * simpl. destruct a as [n|]; auto. destruct b; auto. specialize (Hi eq_refl). discriminate.
  - rewrite Forall_forall. intros p Hp. apply in_map_iff in Hp. destruct Hp as (rt & <- & Hin).
    rewrite routes_of_node_s in Hin. split.
    + eapply swf_routes_static; eauto.
    + destruct (routes_prefix t [] rt Hwf Hin) as [q Hq]. rewrite Hq. simpl.
      destruct (nkey t) as [|d kk]; simpl in *; [discriminate|]. apply Ascii.eqb_eq in Hsl. subst d. reflexivity.
Qed.

(* ------------------------------------------------------------------ *)
(* boolean checker for swf (used by the non-vacuity examples)           *)
(* ------------------------------------------------------------------ *)
Definition oa_eqb (a b : option ascii) : bool := opt_eqb Ascii.eqb a b.
Lemma oa_eqb_eq a b : oa_eqb a b = true <-> a = b.
Proof.
  destruct a as [x|], b as [y|]; simpl; split; try congruence; try tauto.
  - intros H. apply Ascii.eqb_eq in H. congruence.
  - intros [= ->]. apply Ascii.eqb_refl.
Qed.

Fixpoint nodupb (l : list (option ascii)) : bool :=
  match l with [] => true | x :: r => negb (existsb (oa_eqb x) r) && nodupb r end.
Lemma nodupb_sound l : nodupb l = true -> NoDup l.
Proof.
  induction l as [|x l IH]; simpl; [constructor|]. intros H. apply andb_prop in H. destruct H as [H1 H2].
  constructor; auto. intros Hin. apply negb_true_iff in H1.
  assert (existsb (oa_eqb x) l = true) as Hc; [|congruence].
  apply existsb_exists. exists x. split; auto. apply oa_eqb_eq; reflexivity.
Qed.

Fixpoint swfb (pre : bytes) (n : node) : bool :=
  match n with
  | Node k r ch =>
      negb (Spec.is_nil k) && sbytes k
      && match r with Some rt => bytes_eqb (rpat rt) (pre ++ k) | None => true end
      && nodupb (map (fun c => hd_byte (nkey c)) ch)
      && forallb (swfb (pre ++ k)) ch
  end.

Lemma swfb_sound : forall n pre, swfb pre n = true -> swf pre n.
Proof.
  induction n as [k r ch IH] using node_ind'. intros pre H. cbn [swfb] in H.
  repeat (apply andb_prop in H; destruct H as [H ?]).
  constructor; auto.
  - destruct k; [discriminate|congruence].
  - intros rt ->. apply bytes_eqb_eq; auto.
  - apply nodupb_sound; auto.
  - rewrite Forall_forall in *. intros x Hx. apply IH; auto.
    match goal with Hf : forallb _ ch = true |- _ => rewrite forallb_forall in Hf; apply Hf; auto end.
Qed.

(* building example trees with Tree.insert *)
Definition mk_ri (p : string) (id : N) (npar : nat) : rinfo :=
  {| ri_route := {| rpat := S2B p; rid := id |}; ri_pslen := npar; ri_hostsplit := 0 |}.
Definition build (l : list rinfo) : txn :=
  fold_left (fun t ri => match insert t m_get ri with ROk t' => t' | _ => t end) l empty_txn.
Definition path_root (t : txn) : node :=
  match t_roots t with
  | r :: _ => match nchildren r with c :: _ => c | [] => Node [] None [] end
  | [] => Node [] None []
  end.

(* ------------------------------------------------------------------ *)
(* lifting to roots.lookup / spec_lookup for a path-only method tree     *)
(* ------------------------------------------------------------------ *)
Definition sres_direct (r : sres) : option (bytes * list kv) :=
  match r with SDirect p pss => Some (p, pss) | _ => None end.

(* the method root has no route and exactly one child, the "/"-subtree t *)
Definition path_only_root (r : roots) (m : bytes) (t : node) : Prop :=
  exists i root, method_index r m = Some i /\ nth_error r i = Some root /\
                 nroute root = None /\ nchildren root = [t] /\ starts_with "/" (nkey t) = true.

Lemma roots_lookup_path_only fuel r m host path lazy ps0 tps0 t :
  path_only_root r m t ->
  roots_lookup fuel r m host path lazy ps0 tps0 = lookup_by_path fuel t path lazy ps0 tps0.
Proof.
  intros (i & root & H1 & H2 & _ & H4 & H5). unfold roots_lookup. rewrite H1, H2, H4, H5. reflexivity.
Qed.

Lemma method_patterns_path_only r m t :
  path_only_root r m t -> Corr.method_patterns r m = map rpat (routes_of_node t).
Proof.
  intros (i & root & H1 & H2 & H3 & H4 & _). unfold Corr.method_patterns. rewrite H1, H2.
  rewrite !routes_of_node_s. destruct root as [k rr ch]. simpl in *. subst. simpl. rewrite app_nil_r. reflexivity.
Qed.

Lemma spec_lookup_direct_path_only pats host path :
  Forall (fun p => is_path_pattern p = true) pats ->
  sres_direct (spec_lookup pats host path) = spec_direct pats host path.
Proof.
  intros H. unfold spec_lookup, spec_direct.
  assert (filter (fun p => negb (is_path_pattern p)) pats = []) as ->.
  { induction H as [|p l Hp _ IH]; simpl; auto. rewrite Hp. simpl. exact IH. }
  unfold Spec.is_nil at 1. cbn [negb andb].
  destruct (select_in pats host path false) as [[p vals]|]; [reflexivity|].
  destruct (select_tsr_in pats host path false) as [[p vals]|]; reflexivity.
Qed.

Lemma swf_routes_path t : swf [] t -> starts_with "/" (nkey t) = true ->
  Forall (fun p => is_path_pattern p = true) (map rpat (routes_of_node t)).
Proof.
  intros Hwf Hsl. rewrite Forall_forall. intros p Hp. apply in_map_iff in Hp. destruct Hp as (rt & <- & Hin).
  rewrite routes_of_node_s in Hin. destruct (routes_prefix t [] rt Hwf Hin) as [q Hq]. rewrite Hq. simpl.
  destruct (nkey t) as [|d kk]; simpl in *; [discriminate|]. apply Ascii.eqb_eq in Hsl. subst d. reflexivity.
Qed.

Theorem roots_lookup_static_eq_spec r m t host path lazy fuel :
  path_only_root r m t -> swf [] t -> static_fuel path <= fuel ->
  direct_obs (roots_lookup fuel r m host path lazy [] []) =
  sres_direct (spec_lookup (Corr.method_patterns r m) host path).
Proof.
  intros Hr Hwf Hf. rewrite (roots_lookup_path_only _ _ _ _ _ _ _ _ t Hr), (method_patterns_path_only _ _ t Hr).
  destruct Hr as (i & root & _ & _ & _ & _ & Hsl).
  rewrite spec_lookup_direct_path_only by (apply swf_routes_path; auto).
  apply lbp_static_eq_spec; auto.
Qed.
