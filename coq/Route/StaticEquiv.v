(* StaticEquiv — reserved. *)
From FoxBase Require Import Bytes.
