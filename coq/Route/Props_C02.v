(* C02 property theorems (orchestrator's file; further theorem files are listed in checks/C02.py). *)
From FoxBase Require Import Bytes.
From FoxRoute Require Import Node Lookup Spec Tree MapSpec CorrHist HistFacts.

Theorem C02_failed_call_changes_nothing : forall s o s' out rm,
  hstep s o = (s', out, rm) -> out <> OutOk -> s' = s.
Proof. exact hstep_failed_unchanged. Qed.
Print Assumptions C02_failed_call_changes_nothing.

Theorem C02_spec_failed_call_changes_nothing : forall s o s' out rm,
  sstep s o = (s', out, rm) -> out <> MOk -> svisible s' = svisible s.
Proof. exact sstep_failed_unchanged. Qed.
Print Assumptions C02_spec_failed_call_changes_nothing.
