(* HostEquiv4 — C09/C08 on hostname trees, part 2 (agent p-host2).
   Part D: add-slash — M2ht on a path without trailing slash against S in hostname mode on the
           patterns ending in a literal '/' (filtered candidates), on host ++ path ++ "/".
   Part E: the trailing-slash outcome of the hostname pass = Spec.select_tsr_in ... true
           (discharges HostEquiv2.host_tsr_agree).
   Part F: roots_lookup_g = spec_lookup_g, full outcome (direct / tsr / none), hostname methods.
   Part G: composition with C02 (every history, every method). *)
From FoxBase Require Import Bytes.
From FoxRoute Require Import Node Lookup HostPort Spec SpecFacts Guard Tree MapSpec Corr CorrHist WFDef TreeWF TreeWF2 TreeMap TreeMap2
  SpecSound SpecSound2 StaticEquiv StaticEquiv2 EndToEnd EndToEnd2 TsrEquiv TsrEquiv2 HostEquiv HostEquiv2 HostEquiv3.
From Coq Require Import Sorting.Sorted Permutation.
Open Scope char_scope.
Local Notation starts_with := Node.starts_with.

(* ================================================================== *)
(* Part D — add-slash in hostname mode                                  *)
(* ================================================================== *)
Section FiltHost.
  Variable g : bytes -> bool.
  Local Notation GG := (G g).

  Lemma fhsel_static f d kt r ch c s' hr vals :
    select (S f) (filter GG (cands (TStatic d :: kt) r ch)) (c :: s') (S hr) vals =
    if Ascii.eqb d c && sbyte c then select f (filter GG (cands kt r ch)) s' hr vals else None.
  Proof.
    cbn [select]. rewrite filter_adv_param, filter_adv_static.
    rewrite adv_param_cands_static, adv_static_cands_static.
    cbn [filter Nat.eqb negb pred]. unfold orelse. rewrite (Ascii.eqb_sym d c).
    destruct (sbyte c) eqn:Es.
    - destruct (sbyte_split c Es) as [-> ->]. cbn [orb]. rewrite andb_true_r.
      destruct (Ascii.eqb c d); [|reflexivity].
      rewrite match_nil_select. destruct (select f (filter GG (cands kt r ch)) s' hr vals); reflexivity.
    - rewrite (sbyte_false c Es). rewrite andb_false_r. reflexivity.
  Qed.

  Lemma fhsel_param f nm kt r ch c s' hr vals :
    select (S f) (filter GG (cands (TParam nm :: kt) r ch)) (c :: s') (S hr) vals =
    match seg is_dot (firstn (S hr) (c :: s')) with
    | [] => None
    | v => select f (filter GG (cands kt r ch)) (skipn (List.length v) (c :: s')) (S hr - List.length v) (v :: vals)
    end.
  Proof.
    cbn [select]. rewrite filter_adv_param, filter_adv_static.
    rewrite adv_param_cands_param, adv_static_cands_param.
    cbn [filter Nat.eqb negb]. unfold orelse.
    assert ((if Ascii.eqb c "{" || Ascii.eqb c "*" then None else @None (bytes * list bytes)) = None) as ->
      by (destruct (Ascii.eqb c "{" || Ascii.eqb c "*"); reflexivity).
    change (fun x : ascii => Ascii.eqb x ".") with is_dot.
    destruct (filter GG (cands kt r ch)) as [|k0 l] eqn:E.
    - destruct (seg is_dot (firstn (S hr) (c :: s'))); [reflexivity|]. rewrite select_nil. reflexivity.
    - rewrite <- E. destruct (seg is_dot (firstn (S hr) (c :: s'))) as [|v0 v]; [reflexivity|].
      destruct (select f (filter GG (cands kt r ch)) _ _ _); reflexivity.
  Qed.

  Lemma fhsel_below pre f r ch c s' hr vals :
    NoDup (heads ch) -> (forall x, In x ch -> pwf pre x) ->
    select (S f) (filter GG (below r ch)) (c :: s') (S hr) vals =
    orelse (if sbyte c then
              match first_child c ch with Some x => select f (filter GG (tl_cands x)) s' hr vals | None => None end
            else None)
      (fun _ =>
         match first_child "{" ch with
         | Some y => match seg is_dot (firstn (S hr) (c :: s')) with
                     | [] => None
                     | a :: l => select f (filter GG (tl_cands y)) (skipn (List.length (a :: l)) (c :: s'))
                                   (S hr - List.length (a :: l)) ((a :: l) :: vals)
                     end
         | None => None
         end).
  Proof.
    intros Hnd Hch. cbn [select]. cbn [Nat.eqb negb pred].
    destruct (fbelow_adv g pre r ch Hnd Hch) as (Hstatic & Hparam & _).
    rewrite Hparam.
    change (fun x : ascii => Ascii.eqb x ".") with is_dot.
    assert (HB : forall X : option (bytes * list bytes),
              orelse X (fun _ =>
                orelse (match match first_child "{" ch with Some y => filter GG (tl_cands y) | None => [] end with
                        | [] => None
                        | c0 :: l =>
                            match seg is_dot (firstn (S hr) (c :: s')) with
                            | [] => None
                            | _ :: _ => select f (c0 :: l) (skipn (List.length (seg is_dot (firstn (S hr) (c :: s')))) (c :: s'))
                                          (S hr - List.length (seg is_dot (firstn (S hr) (c :: s'))))
                                          (seg is_dot (firstn (S hr) (c :: s')) :: vals)
                            end
                        end) (fun _ => None)) =
              orelse X (fun _ =>
                match first_child "{" ch with
                | Some y => match seg is_dot (firstn (S hr) (c :: s')) with
                            | [] => None
                            | a :: l => select f (filter GG (tl_cands y)) (skipn (List.length (a :: l)) (c :: s'))
                                          (S hr - List.length (a :: l)) ((a :: l) :: vals)
                            end
                | None => None
                end)).
    { intros X. unfold orelse. destruct X; [reflexivity|].
      destruct (first_child "{" ch) as [y|]; [|reflexivity].
      destruct (seg is_dot (firstn (S hr) (c :: s'))) as [|a l0].
      - destruct (filter GG (tl_cands y)); reflexivity.
      - destruct (filter GG (tl_cands y)) eqn:E; [rewrite select_nil; reflexivity|].
        destruct (select f (c0 :: l) _ _ _); reflexivity. }
    rewrite HB. clear HB.
    destruct (sbyte c) eqn:Es.
    - destruct (sbyte_split c Es) as [-> ->]. cbn [orb].
      rewrite (Hstatic c Es). destruct (first_child c ch) as [x|]; [|reflexivity].
      rewrite match_nil_select. reflexivity.
    - rewrite (sbyte_false c Es). reflexivity.
  Qed.
End FiltHost.

Section AddSlash.
  Variable path : bytes.
  Hypothesis Hpo : pathok path = true.
  Hypothesis Hok : okpath path = true.
  Hypothesis Hhs : has_suffix_slash path = false.
  Hypothesis Hpne : path <> [].

  Definition hadd_ok (x : node) : Prop :=
    forall kt fuel h vals c, forallb htok_ok kt = true -> nohslash h -> List.length (h ++ path) + 3 < fuel ->
      kht (Khtof false path x) kt h = TN c ->
      select fuel (filter sse (cands kt (nroute x) (nchildren x))) (h ++ path ++ ["/"]) (List.length h) vals = res_of vals c.

  Lemma path_cons : exists p', path = "/" :: p'.
  Proof.
    destruct path as [|c p']; [congruence|]. simpl in Hpo. apply Ascii.eqb_eq in Hpo. subst c. eauto.
  Qed.

  (* the children below a consumed key / below the method root, at a host byte *)
  Lemma fhbelow_add pre ch f c h' vals cc :
    NoDup (heads ch) -> (forall x, In x ch -> pwf pre x) ->
    (forall x, In x ch -> starts_with "/" (nkey x) = true \/ hostb x = true) ->
    (forall x, In x ch -> hostb x = true -> hadd_ok x) ->
    nohslash (c :: h') -> List.length ((c :: h') ++ path) + 3 < S f ->
    talt (m2ht_child false path c ch (c :: h')) (m2ht_child false path "{" ch (c :: h')) = TN cc ->
    select (S f) (filter sse (below None ch)) (c :: h' ++ path ++ ["/"]) (S (List.length h')) vals = res_of vals cc.
  Proof.
    intros Hnd Hch Hsplit Hadd Hns Hf Hm.
    assert (Hc : c <> "/") by (apply Hns; left; reflexivity).
    assert (Hnostar : first_child "*" ch = None).
    { apply first_child_none. intros x Hx. destruct (Hsplit x Hx) as [H|H].
      - apply starts_with_hd in H. destruct (starts_with "*" (nkey x)) eqn:E; auto. apply starts_with_hd in E. congruence.
      - eapply host_key_nostar; eauto. }
    rewrite (fhsel_below static_slash_end pre f None ch c (h' ++ path ++ ["/"]) (List.length h') vals Hnd Hch).
    assert (Hfirstn : firstn (S (List.length h')) (c :: h' ++ path ++ ["/"]) = c :: h').
    { change (c :: h' ++ path ++ ["/"]) with ((c :: h') ++ path ++ ["/"]). change (S (List.length h')) with (List.length (c :: h')).
      apply firstn_app_exact. }
    rewrite Hfirstn.
    apply talt_TN in Hm. destruct Hm as (ca & cb & Ha & Hb & ->). rewrite res_of_cor.
    assert (Hhost : forall c1 x, c1 <> "/" -> first_child c1 ch = Some x -> In x ch /\ starts_with c1 (nkey x) = true /\ hostb x = true).
    { intros c1 x Hc1 Hx. apply first_child_in in Hx. destruct Hx as [Hin Hsw]. repeat split; auto.
      apply (host_child_of c1 x (Hsplit x Hin) Hc1 Hsw). }
    assert (Hstat : forall x, first_child c ch = Some x -> sbyte c = true ->
              select f (filter sse (tl_cands x)) (h' ++ path ++ ["/"]) (List.length h') vals = res_of vals ca).
    { intros x Hx Hcs. destruct (Hhost c x Hc Hx) as (Hinx & Hsw & Hxb).
      destruct (host_key_first _ _ (Hch x Hinx) Hxb) as (t & kt' & Htk & Hkx & Htok & Hkt').
      unfold m2ht_child in Ha. rewrite Hx, m2ht_kht, Htk in Ha. unfold tl_cands. rewrite Htk. simpl tl.
      rewrite Hkx in Hsw.
      destruct t as [d|nm|nm]; [| |discriminate].
      - change (render (TStatic d :: kt')) with (d :: render kt') in Hsw. cbn [starts_with] in Hsw.
        apply Ascii.eqb_eq in Hsw. subst d.
        cbn [kht] in Ha. rewrite Ascii.eqb_refl, Hcs in Ha. cbn [andb] in Ha.
        apply (Hadd x Hinx Hxb kt' f h' vals ca Hkt' (nohslash_tl _ _ Hns)); [|exact Ha].
        simpl in Hf. lia.
      - change (render (TParam nm :: kt')) with ("{" :: (nm ++ ["}"]) ++ render kt') in Hsw. cbn [starts_with] in Hsw.
        apply Ascii.eqb_eq in Hsw. subst c. discriminate. }
    assert (Hpar : match first_child "{" ch with
                   | Some y => match seg is_dot (c :: h') with
                               | [] => None
                               | a :: l => select f (filter sse (tl_cands y)) (skipn (List.length (a :: l)) (c :: h' ++ path ++ ["/"]))
                                             (S (List.length h') - List.length (a :: l)) ((a :: l) :: vals)
                               end
                   | None => None
                   end = res_of vals cb).
    { unfold m2ht_child in Hb. destruct (first_child "{" ch) as [y|] eqn:Ey; [|inversion Hb; reflexivity].
      destruct (Hhost "{" y ltac:(discriminate) Ey) as (Hiny & Hsw & Hyb).
      destruct (host_key_first _ _ (Hch y Hiny) Hyb) as (t & kt' & Htk & Hky & Htok & Hkt').
      rewrite m2ht_kht, Htk in Hb. unfold tl_cands. rewrite Htk. simpl tl.
      rewrite Hky in Hsw. destruct t as [d|nm|nm]; [| |discriminate].
      - change (render (TStatic d :: kt')) with (d :: render kt') in Hsw. cbn [starts_with] in Hsw.
        apply Ascii.eqb_eq in Hsw. subst d. simpl in Htok. discriminate.
      - cbn [kht] in Hb.
        destruct (seg is_dot (c :: h')) as [|v0 vv] eqn:Ev; [inversion Hb; reflexivity|]. set (v := v0 :: vv) in *.
        apply twith_TN in Hb. destruct Hb as (c' & Hb & ->). rewrite res_of_cwith.
        assert (Hvl : List.length v <= List.length (c :: h')) by (rewrite <- Ev; apply SpecSound.seg_length).
        change (c :: h' ++ path ++ ["/"]) with ((c :: h') ++ path ++ ["/"]). rewrite (skipn_app_le (c :: h') _ _ Hvl).
        replace (S (List.length h') - List.length v) with (List.length (skipn (List.length v) (c :: h')))
          by (rewrite skipn_length; reflexivity).
        apply (Hadd y Hiny Hyb kt' f _ (v :: vals) c' Hkt' (nohslash_skipn _ _ Hns)); [|exact Hb].
        rewrite app_length, skipn_length. rewrite app_length in Hf. unfold v. simpl in Hf |- *. lia. }
    rewrite Hpar. unfold orelse.
    destruct (sbyte c) eqn:Es.
    - destruct (first_child c ch) as [x|] eqn:Ex.
      + rewrite (Hstat x eq_refl eq_refl). reflexivity.
      + unfold m2ht_child in Ha. rewrite Ex in Ha. inversion Ha. reflexivity.
    - destruct (sbyte_false_cases c Es) as [-> | ->].
      + rewrite Ha in Hb. inversion Hb. destruct (res_of vals cb); reflexivity.
      + unfold m2ht_child in Ha. rewrite Hnostar in Ha. inversion Ha. reflexivity.
  Qed.

  Lemma hkmt_add : forall n pre pt, pwf pre n -> pre = render pt -> forallb tok_ok pt = true ->
    hostb n = true -> hadd_ok n.
  Proof.
    induction n as [k r ch IH] using node_ind'. intros pre pt Hwf Hpre Hpt Hhb.
    pose proof (pwf_inv _ _ _ _ Hwf) as (kt0 & Hne0 & Hk0 & Hok0 & Hr & Hnd & Hch).
    destruct (hostb_inv _ _ _ Hhb) as (Hrn & Hht & Hsplit).
    rewrite Forall_forall in IH, Hch. subst r.
    set (n := Node k None ch) in *.
    assert (Htk0 : tokenize k = kt0) by (rewrite Hk0; apply tokenize_render; eapply kt_ok_tok; eauto).
    rewrite Htk0 in Hht.
    assert (Hpre' : pre ++ k = render (pt ++ kt0)) by (rewrite render_app, Hpre, Hk0; reflexivity).
    assert (Hpt' : forallb tok_ok (pt ++ kt0) = true) by (rewrite forallb_app, Hpt; eapply kt_ok_tok; eauto).
    assert (Hnostar : first_child "*" ch = None).
    { apply first_child_none. intros x Hx. destruct (Hsplit x Hx) as [H|H].
      - apply starts_with_hd in H. destruct (starts_with "*" (nkey x)) eqn:E; auto. apply starts_with_hd in E. congruence.
      - eapply host_key_nostar; eauto. }
    destruct path_cons as [p' Hp'].
    unfold hadd_ok. change (nroute n) with (@None route). change (nchildren n) with ch.
    induction kt as [|t kt IHkt]; intros fuel h vals c Hokt Hns Hf Hm.
    - (* the key is consumed *)
      rewrite cands_nil. cbn [kht] in Hm. destruct fuel as [|f]; [lia|].
      destruct h as [|hc h'].
      + (* the host is consumed: the path, below the "/" child *)
        cbn [app List.length]. cbn [Khtof] in Hm. unfold n in Hm at 1. cbn [nchildren] in Hm.
        rewrite Hp'. change (("/" :: p') ++ ["/"]) with ("/" :: p' ++ ["/"]).
        rewrite (fsel_below static_slash_end (pre ++ k)) by auto. change (sbyte "/") with true. cbv iota.
        rewrite Hnostar.
        assert (Hpar : match first_child "{" ch with
                       | Some y => match seg is_slash ("/" :: p' ++ ["/"]) with
                                   | [] => None
                                   | a :: l => select f (filter sse (tl_cands y)) (skipn (List.length (a :: l)) ("/" :: p' ++ ["/"])) 0 ((a :: l) :: vals)
                                   end
                       | None => None
                       end = None).
        { destruct (first_child "{" ch); reflexivity. }
        rewrite Hpar. unfold orelse.
        destruct (first_child "/" ch) as [c0|] eqn:E0; [|inversion Hm; reflexivity].
        apply first_child_in in E0. destruct E0 as [Hin0 Hsl0].
        destruct (pwf_tokens _ _ (Hch c0 Hin0)) as (t0 & ktc & Htkc & Hkc & Hokc).
        pose proof Hsl0 as Hsl1. rewrite Hkc in Hsl1. apply starts_render in Hsl1.
        destruct t0 as [d|nm|nm]; try discriminate. subst d.
        rewrite m2t_kmt, Htkc in Hm.
        pose proof (kmt_add c0 (pre ++ k) (pt ++ kt0) (Hch c0 Hin0) Hpre' Hpt' (TStatic "/" :: ktc) [] None [] (S f) path vals c
                      Htkc Hokc ltac:(simpl in Hf; lia) Hok Hhs Hm) as Hadd.
        rewrite Hp' in Hadd. change (("/" :: p') ++ ["/"]) with ("/" :: p' ++ ["/"]) in Hadd.
        rewrite fsel_static in Hadd. cbn [Ascii.eqb Bool.eqb andb] in Hadd. change (sbyte "/") with true in Hadd. cbv iota in Hadd.
        unfold tl_cands. rewrite Htkc. simpl tl. rewrite Hadd.
        destruct (res_of vals c); reflexivity.
      + (* the host continues *)
        cbn [Khtof] in Hm. unfold n in Hm at 1 2. cbn [nchildren] in Hm.
        change ((hc :: h') ++ path ++ ["/"]) with (hc :: h' ++ path ++ ["/"]). cbn [List.length].
        apply (fhbelow_add (pre ++ k) ch f hc h' vals c); auto.
        intros x Hx Hxb. apply (IH x Hx (pre ++ k) (pt ++ kt0)); auto.
    - (* a token of the key *)
      cbn [forallb] in Hokt. apply andb_prop in Hokt. destruct Hokt as [Hokt1 Hokt2].
      destruct fuel as [|f]; [lia|].
      destruct h as [|hc h'].
      + (* host exhausted inside a key *)
        cbn [kht] in Hm. inversion Hm. cbn [app List.length res_of].
        rewrite Hp'. change (("/" :: p') ++ ["/"]) with ("/" :: p' ++ ["/"]).
        destruct t as [d|nm|nm]; [| |discriminate].
        * rewrite fsel_static. simpl in Hokt1. apply andb_prop in Hokt1. destruct Hokt1 as [_ Hd].
          apply negb_true_iff in Hd. rewrite Hd. reflexivity.
        * rewrite fsel_param. reflexivity.
      + change ((hc :: h') ++ path ++ ["/"]) with (hc :: h' ++ path ++ ["/"]). cbn [List.length].
        destruct t as [d|nm|nm]; [| |discriminate]; cbn [kht] in Hm.
        * rewrite fhsel_static.
          destruct (Ascii.eqb d hc && sbyte hc); [|inversion Hm; reflexivity].
          apply IHkt; auto. { eapply nohslash_tl; eauto. } simpl in Hf. lia.
        * rewrite fhsel_param.
          assert (Hfirstn : firstn (S (List.length h')) (hc :: h' ++ path ++ ["/"]) = hc :: h').
          { change (hc :: h' ++ path ++ ["/"]) with ((hc :: h') ++ path ++ ["/"]). change (S (List.length h')) with (List.length (hc :: h')).
            apply firstn_app_exact. }
          rewrite Hfirstn.
          destruct (seg is_dot (hc :: h')) as [|v0 vv] eqn:Ev; [inversion Hm; reflexivity|]. set (v := v0 :: vv) in *.
          apply twith_TN in Hm. destruct Hm as (c' & Hm & ->). rewrite res_of_cwith. cbv zeta.
          assert (Hvl : List.length v <= List.length (hc :: h')) by (rewrite <- Ev; apply SpecSound.seg_length).
          change (hc :: h' ++ path ++ ["/"]) with ((hc :: h') ++ path ++ ["/"]). rewrite (skipn_app_le (hc :: h') _ _ Hvl).
          replace (S (List.length h') - List.length v) with (List.length (skipn (List.length v) (hc :: h')))
            by (rewrite skipn_length; reflexivity).
          apply IHkt; auto. { apply nohslash_skipn; exact Hns. }
          rewrite app_length, skipn_length. rewrite app_length in Hf. unfold v. simpl in Hf |- *. lia.
  Qed.
End AddSlash.

(* ================================================================== *)
(* Part E — the trailing-slash outcome of the hostname pass = S         *)
(* ================================================================== *)
Lemma filter_comm {A} (P Q : A -> bool) l : filter P (filter Q l) = filter Q (filter P l).
Proof.
  induction l as [|x l IH]; simpl; auto.
  destruct (P x) eqn:Ep, (Q x) eqn:Eq; simpl; rewrite ?Ep, ?Eq, IH; reflexivity.
Qed.

Lemma m2ht_child_hostkids sl p cc ch h : cc <> "/" ->
  m2ht_child sl p cc (hostkids ch) h = m2ht_child sl p cc ch h.
Proof. intros H. unfold m2ht_child. rewrite (first_child_hostkids cc ch H). reflexivity. Qed.

Lemma removelast_cons2 {A} (a b : A) l : removelast (a :: b :: l) = a :: removelast (b :: l).
Proof. reflexivity. Qed.

(* M2ht = S (trailing slash, hostname mode): when the hostname pass has no direct match, its first
   trailing-slash candidate is exactly Spec.select_tsr_in ... true — same route, same values *)
Theorem m2ht_eq_spec_tsr root host path c :
  hroot_ok root -> nroute root = None -> host <> [] -> nohslash host ->
  path <> [] -> pathok path = true -> okpath path = true ->
  m2ht_root (has_suffix_slash path) path root host = TN c ->
  select_tsr_in (map rpat (routes_of_node root)) host path true = res_of [] c.
Proof.
  intros Hroot Hr Hne Hns Hpne Hpo Hok Hm.
  destruct path as [|c0 [|c1 p]]; [congruence| |].
  - (* a one-byte path never gets a trailing-slash action *)
    cbn [select_tsr_in]. simpl in Hpo. apply Ascii.eqb_eq in Hpo. subst c0.
    change (has_suffix_slash ["/"]) with true in Hm. change ["/"] with ([] ++ ["/"]) in Hm.
    apply (m2ht_root_rm [] root host c Hroot Hns) in Hm. subst c.
    destruct (m2h_root [] root host) as [[l vals]|] eqn:E; [|reflexivity]. exfalso.
    destruct (m2h_root_sound host [] root l vals Hns Hroot E) as (rt & ht & bt & hvals & x & kvp & _ & _ & _ & _ & _ & _ & _ & _ & _ & Hpx & Hmx & _).
    rewrite (m2_nil_pwf _ _ Hpx) in Hmx. discriminate.
  - set (path := c0 :: c1 :: p) in *.
    assert (Hsel : select_tsr_in (map rpat (routes_of_node root)) host path true =
                   if ends_with_slash path then select_in (map rpat (routes_of_node root)) host (removelast path) true
                   else select_in (filter static_slash_end (map rpat (routes_of_node root))) host (path ++ ["/"]) true)
      by reflexivity.
    rewrite Hsel, ends_with_slash_hss. clear Hsel.
    destruct (has_suffix_slash path) eqn:Ehs.
    + (* remove-slash *)
      pose proof (hss_last path Ehs) as Hq. set (q := removelast path) in *.
      rewrite Hq in Hm. apply (m2ht_root_rm q root host c Hroot Hns) in Hm. subst c.
      apply spec_eq_m2h; auto.
      left. rewrite Hq in Hok. eapply okpath_app_l; eauto.
    + (* add-slash *)
      destruct Hroot as (Hnd & Hpw & Hsplit). unfold select_in.
      rewrite filter_comm, map_filter_mk, routes_of_node_s, (host_cands root Hpw Hr).
      destruct host as [|hc h']; [congruence|].
      unfold m2ht_root in Hm. set (ch := nchildren root) in *.
      assert (Hc : hc <> "/") by (apply Hns; left; reflexivity).
      rewrite <- (m2ht_child_hostkids false path hc ch _ Hc), <- (m2ht_child_hostkids false path "{" ch) in Hm by discriminate.
      rewrite Forall_forall in Hpw.
      unfold spec_fuel.
      assert (Hfu : exists f, 4 * (List.length (hc :: h') + List.length (path ++ ["/"])) + 8 = S f) by (eexists; simpl; reflexivity).
      destruct Hfu as [f Hfu]. rewrite Hfu.
      change ((hc :: h') ++ path ++ ["/"]) with (hc :: h' ++ path ++ ["/"]). change (List.length (hc :: h')) with (S (List.length h')).
      apply (fhbelow_add path [] (hostkids ch) f hc h' [] c); auto.
      * apply heads_filter_nodup. exact Hnd.
      * intros x Hx. apply filter_In in Hx. apply Hpw. tauto.
      * intros x Hx. apply filter_In in Hx. apply Hsplit. tauto.
      * intros x Hx Hxb. apply filter_In in Hx.
        apply (hkmt_add path Hpo Hok Ehs ltac:(discriminate) x [] []); auto. apply Hpw. tauto.
      * rewrite !app_length in *. simpl in Hfu |- *. lia.
Qed.

(* the hostname pass of M1, full outcome, against S *)
Theorem lbd_full_eq_spec root host path fuel :
  hroot_ok root -> nroute root = None -> host <> [] -> nohslash host ->
  path <> [] -> pathok path = true -> okpath path = true -> hroot_fuel path root <= fuel ->
  match select_in (map rpat (routes_of_node root)) host path true with
  | Some x => lres_sres (lookup_by_domain fuel root host path false [] []) = Some (mk_res false x)
  | None =>
      match select_tsr_in (map rpat (routes_of_node root)) host path true with
      | Some x => lres_sres (lookup_by_domain fuel root host path false [] []) = Some (mk_res true x)
      | None => exists ps', lookup_by_domain fuel root host path false [] [] = Found None false ps' []
      end
  end.
Proof.
  intros Hroot Hr Hne Hns Hpne Hpo Hok Hf.
  destruct (host_pass_nohslash root host path fuel Hroot Hr Hne Hns Hpo (or_introl Hok) Hf)
    as (Hd & tn' & t & pp & tp & E & Hnone).
  pose proof (lbd_eq_m2ht host path root false fuel Hns Hroot Hne Hpne Hf) as Ht.
  unfold spec_direct_host in Hd.
  destruct (m2ht_root (has_suffix_slash path) path root host) as [l vals|c] eqn:Em; cbn [tsr_res] in Ht.
  - (* direct *)
    destruct Ht as (l' & tps' & Er & Hl). cbn [addp app] in Er.
    destruct (select_in (map rpat (routes_of_node root)) host path true) as [[p vs]|].
    + rewrite Er in Hd |- *. cbn [direct_obs lres_sres mk_res] in *.
      destruct (nroute l') as [rt|]; [|discriminate]. inversion Hd; subst. reflexivity.
    + exfalso. rewrite Er in E. inversion E; subst. specialize (Hnone eq_refl eq_refl). discriminate.
  - assert (Hnd : direct_obs (lookup_by_domain fuel root host path false [] []) = None).
    { destruct c as [[l vals]|].
      - destruct Ht as (l' & ps' & -> & _). reflexivity.
      - destruct Ht as (ps' & ->). reflexivity. }
    rewrite Hnd in Hd.
    destruct (select_in (map rpat (routes_of_node root)) host path true) as [[p vs]|]; [discriminate|].
    rewrite (m2ht_eq_spec_tsr root host path c Hroot Hr Hne Hns Hpne Hpo Hok Em).
    destruct c as [[l vals]|]; cbn [res_of].
    + destruct Ht as (l' & ps' & -> & Hl). cbn [lres_sres addp app mk_res].
      destruct (m2ht_root_sound _ path root host l vals Hroot Hns Em) as (rt & bt & H1 & H3 & H4 & H5).
      rewrite Hl, H1. unfold lpat. rewrite H1. f_equal. f_equal.
      unfold name_values. rewrite H3, tokenize_render by exact H4. rewrite <- H5. simpl. symmetry.
      apply StaticEquiv2.combine_fst_snd.
    + exact Ht.
Qed.

(* the hypothesis left open in HostEquiv2.roots_lookup_host_eq_spec *)
Theorem host_tsr_agree_thm root host path fuel :
  hroot_ok root -> nroute root = None -> host <> [] -> nohslash host ->
  path <> [] -> pathok path = true -> okpath path = true -> hroot_fuel path root <= fuel ->
  select_in (map rpat (routes_of_node root)) host path true = None ->
  host_tsr_agree fuel root host path.
Proof.
  intros Hroot Hr Hne Hns Hpne Hpo Hok Hf Hsel tn' t p tp E.
  pose proof (lbd_full_eq_spec root host path fuel Hroot Hr Hne Hns Hpne Hpo Hok Hf) as H.
  rewrite Hsel in H.
  destruct (select_tsr_in (map rpat (routes_of_node root)) host path true) as [x|].
  - rewrite E in H. destruct x as [pp vv]. split; [intros ->; simpl in H; discriminate|discriminate].
  - destruct H as (ps' & H). rewrite H in E. inversion E; subst. split; reflexivity.
Qed.

(* ================================================================== *)
(* Part F — roots_lookup_g = spec_lookup_g, full outcome                *)
(* ================================================================== *)
(* the path-only part of the request-level specification *)
Definition spec_path (pats : list bytes) (host path : bytes) : sres :=
  match select_in pats host path false with
  | Some x => mk_res false x
  | None => match select_tsr_in pats host path false with Some x => mk_res true x | None => SNone end
  end.

Lemma select_tsr_path_filter pats host path :
  select_tsr_in pats host path false = select_tsr_in (filter is_path_pattern pats) host path false.
Proof.
  unfold select_tsr_in. destruct path as [|a [|b p]]; auto.
  destruct (ends_with_slash (a :: b :: p)).
  - apply select_in_path_filter.
  - rewrite select_in_path_filter, filter_comm. reflexivity.
Qed.

Lemma spec_path_filter pats host path : spec_path pats host path = spec_path (filter is_path_pattern pats) host path.
Proof. unfold spec_path. rewrite <- select_in_path_filter, <- select_tsr_path_filter. reflexivity. Qed.

Lemma spec_path_nil host path : spec_path [] host path = SNone.
Proof.
  unfold spec_path, select_in, select_tsr_in. simpl. rewrite select_nil.
  destruct path as [|a [|b r]]; try reflexivity.
  destruct (ends_with_slash (a :: b :: r)); unfold select_in; simpl; rewrite select_nil; reflexivity.
Qed.

Lemma spec_lookup_cases pats host path :
  spec_lookup pats host path =
  match host with
  | [] => spec_path pats host path
  | _ => match select_in pats host path true with
         | Some x => mk_res false x
         | None => match select_tsr_in pats host path true with
                   | Some x => mk_res true x
                   | None => spec_path pats host path
                   end
         end
  end.
Proof.
  unfold spec_lookup, spec_path.
  destruct host as [|h0 host'].
  - cbn [Spec.is_nil negb andb]. rewrite andb_false_r. reflexivity.
  - cbn [Spec.is_nil negb]. rewrite andb_true_r.
    destruct (Spec.is_nil (filter (fun p => negb (is_path_pattern p)) pats)) eqn:En.
    + assert (filter (fun p => negb (is_path_pattern p)) pats = []) as Hnil
        by (destruct (filter (fun p => negb (is_path_pattern p)) pats); [reflexivity|discriminate]).
      rewrite (select_nohost pats (h0 :: host') path Hnil), (select_tsr_nohost pats (h0 :: host') path Hnil).
      reflexivity.
    + cbn [negb].
      destruct (select_in pats (h0 :: host') path true) as [x|]; [reflexivity|].
      destruct (select_tsr_in pats (h0 :: host') path true) as [x|]; reflexivity.
Qed.

(* the path-only fallback below the method root, full outcome *)
Lemma fallback_full_eq_spec fuel root host path p :
  hroot_ok root -> nroute root = None -> path <> [] -> okpath path = true -> root_fuel path root <= fuel ->
  lres_sres (path_fallback fuel root path false p []) = Some (spec_path (map rpat (routes_of_node root)) host path).
Proof.
  intros (Hnd & Hpw & Hsplit) Hr Hpne Hok Hf. unfold path_fallback. rewrite get_edge_first.
  rewrite spec_path_filter, routes_of_node_s, (path_patterns_root root Hnd Hpw Hr).
  rewrite Forall_forall in Hpw.
  destruct (first_child "/" (nchildren root)) as [c|] eqn:Ec.
  - apply first_child_in in Ec. destruct Ec as [Hin Hsl].
    rewrite <- routes_of_node_s.
    assert (Hfc : m2_fuel path c <= fuel).
    { unfold m2_fuel. unfold root_fuel in Hf. pose proof (pcost_in (List.length path) c _ Hin). lia. }
    rewrite (lbp_eq_spec_tsr c host path fuel (Hpw c Hin) Hsl Hpne Hok Hfc).
    rewrite spec_lookup_path_only by (apply pwf_routes_path; auto). reflexivity.
  - rewrite spec_path_nil. reflexivity.
Qed.

Lemma root_fuel_hroot path root : hroot_fuel path root <= root_fuel path root.
Proof. unfold root_fuel. lia. Qed.

(* methods WITH hostname routes (the method root does not take the path-only shortcut): the model of
   the repaired roots.lookup = the guarded specification, for EVERY host; full outcome *)
Theorem roots_lookup_g_eq_spec r m i root host path fuel :
  method_index r m = Some i -> nth_error r i = Some root -> nroute root = None ->
  hroot_ok root -> nchildren root <> [] -> shortcut root = false ->
  path <> [] -> pathok path = true -> okpath path = true -> root_fuel path root <= fuel ->
  lres_sres (roots_lookup_g fuel r m host path false [] []) =
  Some (spec_lookup_g (method_patterns r m) host path).
Proof.
  intros Hm Hn Hr Hroot Hne Hsc Hpne Hpo Hok Hf. unfold roots_lookup_g, spec_lookup_g.
  assert (Hns : nohslash (host_guard host)).
  { apply nohslashb_sound. unfold nohslashb. rewrite host_guard_noslash. reflexivity. }
  remember (host_guard host) as g eqn:Eg. clear Eg host.
  assert (Hpats : method_patterns r m = map rpat (routes_of_node root)) by (unfold method_patterns; rewrite Hm, Hn; reflexivity).
  rewrite Hpats, spec_lookup_cases.
  pose proof (root_fuel_hroot path root) as Hhf.
  destruct g as [|h0 g'].
  - rewrite (roots_lookup_nohost fuel r m i root path false [] [] Hm Hn Hne Hsc).
    apply fallback_full_eq_spec; auto.
  - set (g := h0 :: g') in *. assert (Hgne : g <> []) by discriminate.
    rewrite (roots_lookup_hostpass fuel r m i root g path false [] [] Hm Hn Hne Hsc Hgne).
    pose proof (lbd_full_eq_spec root g path fuel Hroot Hr Hgne Hns Hpne Hpo Hok ltac:(lia)) as H.
    destruct (select_in (map rpat (routes_of_node root)) g path true) as [x|].
    + destruct (lookup_by_domain fuel root g path false [] []) as [[n|] t p tp| |]; try discriminate; try exact H.
      destruct x as [pp vv]. simpl in H. discriminate.
    + destruct (select_tsr_in (map rpat (routes_of_node root)) g path true) as [x|].
      * destruct (lookup_by_domain fuel root g path false [] []) as [[n|] t p tp| |]; try discriminate; try exact H.
        destruct x as [pp vv]. simpl in H. discriminate.
      * destruct H as (ps' & ->). apply fallback_full_eq_spec; auto.
Qed.

(* ================================================================== *)
(* Part G — every well-formed forest, every history                     *)
(* ================================================================== *)
(* closed-form fuel: HostEquiv2.root_fuel of the method's root (covers the shortcut as well) *)
Definition e2e_fuel_h (path : bytes) (r : roots) (m : bytes) : nat :=
  match method_root r m with Some root => root_fuel path root | None => 0 end.

Lemma root_fuel_single path root c0 : nchildren root = [c0] -> m2_fuel path c0 <= root_fuel path root.
Proof. intros H. unfold root_fuel, m2_fuel. rewrite H. simpl. lia. Qed.

Theorem WF_roots_lookup_g_eq_spec t m host path fuel : WF_txn t ->
  path <> [] -> pathok path = true -> okpath path = true ->
  e2e_fuel_h path (t_roots t) m <= fuel ->
  lres_sres (roots_lookup_g fuel (t_roots t) m host path false [] []) =
  Some (spec_lookup_g (method_patterns (t_roots t) m) host path).
Proof.
  intros Hwf Hpne Hpo Hok Hfuel.
  pose proof Hwf as [(H4 & _ & _ & _) _].
  assert (firstn 4 (map nkey (t_roots t)) = common_verbs) as H4' by (rewrite firstn_map; exact H4).
  unfold e2e_fuel_h, method_root in Hfuel.
  destruct (method_index (t_roots t) m) as [i|] eqn:Ei.
  - destruct (method_index_some _ _ _ H4' Ei) as (l1 & root & l2 & E & Hi & _ & _).
    assert (Hn : nth_error (t_roots t) i = Some root) by (rewrite E, Hi; apply nth_error_app_mid).
    rewrite Hn in Hfuel.
    assert (Hin : In root (t_roots t)) by (eapply nth_error_In; eauto).
    destruct (WF_hroot_ok_thm t root Hwf Hin) as [Hroot Hr].
    assert (Hpats : method_patterns (t_roots t) m = map rpat (routes_of_node root))
      by (unfold method_patterns; rewrite Ei, Hn; reflexivity).
    destruct (nchildren root) as [|c0 rest] eqn:Ech.
    + unfold roots_lookup_g, spec_lookup_g, roots_lookup. rewrite Ei, Hn, Ech, Hpats.
      rewrite routes_of_node_rlist, (rlist_root_children root Hr), Ech. simpl. rewrite spec_lookup_nil. reflexivity.
    + destruct (shortcut root) eqn:Esc.
      * unfold shortcut in Esc. rewrite Ech in Esc. destruct rest as [|c1 rest]; [|discriminate].
        unfold roots_lookup_g, spec_lookup_g.
        apply (roots_lookup_eq_spec_tsr (t_roots t) m c0); auto.
        -- exists i, root. repeat split; auto.
        -- destruct Hroot as (_ & Hpw & _). rewrite Ech in Hpw. inversion Hpw; subst; assumption.
        -- pose proof (root_fuel_single path root c0 Ech). lia.
      * apply (roots_lookup_g_eq_spec (t_roots t) m i root); auto. rewrite Ech. discriminate.
  - unfold roots_lookup_g, spec_lookup_g, roots_lookup, method_patterns. rewrite Ei, spec_lookup_nil. reflexivity.
Qed.

Theorem C09_end_to_end_thm ops : Forall hop_ok ops ->
  forall m host path fuel,
  path <> [] -> pathok path = true -> okpath path = true ->
  e2e_fuel_h path (t_roots (final_txn ops)) m <= fuel ->
  lres_sres (roots_lookup_g fuel (t_roots (final_txn ops)) m host path false [] []) =
  Some (spec_lookup_g (reg_patterns (final_map ops) m) host path).
Proof.
  intros Hops m host path fuel Hpne Hpo Hok Hfuel. destruct (final_rel ops Hops) as [Hwf Hrel].
  unfold spec_lookup_g. rewrite <- (Rel_spec_lookup _ _ m (host_guard host) path Hwf Hrel).
  apply WF_roots_lookup_g_eq_spec; auto.
Qed.

Theorem C09_end_to_end_big_fuel_thm ops : Forall hop_ok ops ->
  forall m host path,
  path <> [] -> pathok path = true -> okpath path = true ->
  Nat.leb (e2e_fuel_h path (t_roots (final_txn ops)) m) big_fuel = true ->
  lres_sres (roots_lookup_g big_fuel (t_roots (final_txn ops)) m host path false [] []) =
  Some (spec_lookup_g (reg_patterns (final_map ops) m) host path).
Proof.
  intros Hops m host path Hpne Hpo Hok Hf. apply C09_end_to_end_thm; auto. apply Nat.leb_le. exact Hf.
Qed.

(* every method root a history can produce satisfies hroot_ok *)
Theorem C09_history_hroot_ok_thm ops : Forall hop_ok ops -> forall root,
  In root (t_roots (final_txn ops)) -> hroot_ok root /\ nroute root = None.
Proof. intros Hops root. apply WF_hroot_ok_thm. exact (proj1 (final_rel ops Hops)). Qed.
