(* TreeWF — library for the tree proofs: lists, child lookup, sorting,
   the pattern automaton, the conflict scan, new_leaf, route lists. *)
From FoxBase Require Import Bytes.
From FoxRoute Require Import Node Lookup Spec Tree WFDef.
From Coq Require Import Sorting.Sorted Permutation.
Open Scope char_scope.

(* ---------- lists ---------- *)
Lemma replace_nth_app (l1 : list node) c l2 c' : replace_nth (l1 ++ c :: l2) (List.length l1) c' = l1 ++ c' :: l2.
Proof. induction l1 as [|x l1 IH]; simpl; [reflexivity|]. rewrite IH. reflexivity. Qed.

Lemma remove_nth_app (l1 : list node) c l2 : remove_nth (l1 ++ c :: l2) (List.length l1) = l1 ++ l2.
Proof. induction l1 as [|x l1 IH]; simpl; [reflexivity|]. rewrite IH. reflexivity. Qed.

Lemma nth_error_app_mid {A} (l1 : list A) c l2 : nth_error (l1 ++ c :: l2) (List.length l1) = Some c.
Proof. induction l1 as [|x l1 IH]; simpl; [reflexivity|exact IH]. Qed.

Lemma nth_error_mid_split {A} (l : list A) i c : nth_error l i = Some c ->
  exists l1 l2, l = l1 ++ c :: l2 /\ List.length l1 = i.
Proof. intros H. apply nth_error_split in H. destruct H as [l1 [l2 [H1 H2]]]. exists l1, l2. auto. Qed.

Lemma starts_with_hd c k : starts_with c k = true <-> exists r, k = c :: r.
Proof.
  destruct k as [|x r]; simpl.
  - split; [discriminate|intros [r H]; discriminate].
  - split.
    + intros H. apply Ascii.eqb_eq in H. subst. eauto.
    + intros [r' [= -> _]]. apply Ascii.eqb_refl.
Qed.

Lemma find_child_from_split c0 : forall l i0 i,
  find_child_from i0 c0 l = Some i ->
  exists l1 c l2, l = l1 ++ c :: l2 /\ i = i0 + List.length l1 /\ starts_with c0 (nkey c) = true
                  /\ Forall (fun x => starts_with c0 (nkey x) = false) l1.
Proof.
  induction l as [|x l IH]; intros i0 i; simpl; [discriminate|].
  destruct (starts_with c0 (nkey x)) eqn:E.
  - intros [= <-]. exists [], x, l. simpl. repeat split; auto; lia.
  - intros H. apply IH in H. destruct H as [l1 [c [l2 [-> [-> [H1 H2]]]]]].
    exists (x :: l1), c, l2. simpl. repeat split; auto; lia.
Qed.

Lemma find_child_from_none c0 : forall l i0,
  find_child_from i0 c0 l = None -> Forall (fun x => starts_with c0 (nkey x) = false) l.
Proof.
  induction l as [|x l IH]; intros i0; simpl; [constructor|].
  destruct (starts_with c0 (nkey x)) eqn:E; [discriminate|]. intros H. constructor; eauto.
Qed.

(* the child selected by getEdge, with the decomposition of the children around it *)
Lemma find_child_some n c0 i : find_child n c0 = Some i ->
  exists l1 c l2, nchildren n = l1 ++ c :: l2 /\ i = List.length l1 /\ starts_with c0 (nkey c) = true
                  /\ nth_error (nchildren n) i = Some c
                  /\ Forall (fun x => starts_with c0 (nkey x) = false) l1.
Proof.
  unfold find_child. intros H. apply find_child_from_split in H.
  destruct H as [l1 [c [l2 [E [-> [H1 H2]]]]]]. exists l1, c, l2. simpl. rewrite E.
  repeat split; auto. apply nth_error_app_mid.
Qed.

Lemma fb_starts c0 x : starts_with c0 (nkey x) = true -> fb x = nat_of_ascii c0.
Proof. intros H. apply starts_with_hd in H. destruct H as [r H]. unfold fb. rewrite H. reflexivity. Qed.

Lemma starts_fb_ne c0 x y : starts_with c0 (nkey x) = true -> fb x <> fb y -> starts_with c0 (nkey y) = false.
Proof.
  intros H1 H2. destruct (starts_with c0 (nkey y)) eqn:E; [|reflexivity].
  apply fb_starts in H1, E. congruence.
Qed.

(* with sorted children, the selected child is the only one starting with that byte *)
Lemma sorted_mid_unique l1 c l2 c0 : sorted_fb (l1 ++ c :: l2) -> starts_with c0 (nkey c) = true ->
  Forall (fun x => starts_with c0 (nkey x) = false) (l1 ++ l2).
Proof.
  unfold sorted_fb. intros Hs Hc. apply Forall_app. split.
  - induction l1 as [|x l1 IH]; [constructor|]. simpl in Hs. inversion Hs as [|? ? H1 H2]; subst.
    constructor; [|apply IH; exact H1]. rewrite Forall_forall in H2.
    assert (fb x < fb c) as Hlt by (apply H2; apply in_or_app; right; left; reflexivity).
    destruct (starts_with c0 (nkey x)) eqn:E; [|reflexivity].
    apply fb_starts in E, Hc. lia.
  - induction l1 as [|x l1 IH]; simpl in Hs.
    + inversion Hs as [|? ? H1 H2]; subst. rewrite Forall_forall in *. intros y Hy.
      apply (starts_fb_ne c0 c y Hc). specialize (H2 y Hy). lia.
    + inversion Hs; subst. auto.
Qed.

Lemma sorted_fb_app_inv l1 l2 : sorted_fb (l1 ++ l2) -> sorted_fb l1 /\ sorted_fb l2.
Proof.
  unfold sorted_fb. induction l1 as [|x l1 IH]; simpl; intros H.
  - split; [constructor|exact H].
  - inversion H as [|? ? H1 H2]; subst. destruct (IH H1) as [Ha Hb]. split; [|exact Hb].
    constructor; [exact Ha|]. apply Forall_app in H2. tauto.
Qed.

(* replacing the selected child by one with the same first byte keeps the order *)
Lemma sorted_fb_replace l1 c l2 c' : sorted_fb (l1 ++ c :: l2) -> fb c' = fb c -> sorted_fb (l1 ++ c' :: l2).
Proof.
  unfold sorted_fb. intros Hs He. induction l1 as [|x l1 IH]; simpl in *.
  - inversion Hs; subst. constructor; [assumption|]. rewrite He. assumption.
  - inversion Hs as [|? ? H1 H2]; subst. constructor; [auto|].
    apply Forall_app in H2. destruct H2 as [Ha Hb]. apply Forall_app. split; [exact Ha|].
    inversion Hb; subst. constructor; [rewrite He; assumption|assumption].
Qed.

Lemma sorted_fb_remove l1 c l2 : sorted_fb (l1 ++ c :: l2) -> sorted_fb (l1 ++ l2).
Proof.
  unfold sorted_fb. intros Hs. induction l1 as [|x l1 IH]; simpl in *.
  - inversion Hs; subst. assumption.
  - inversion Hs as [|? ? H1 H2]; subst. constructor; [auto|].
    apply Forall_app in H2. destruct H2 as [Ha Hb]. apply Forall_app. split; [exact Ha|].
    inversion Hb; subst. assumption.
Qed.

(* ---------- common_prefix ---------- *)
Lemma common_prefix_split : forall a b,
  a = common_prefix a b ++ skipn (List.length (common_prefix a b)) a /\
  b = common_prefix a b ++ skipn (List.length (common_prefix a b)) b /\
  match skipn (List.length (common_prefix a b)) a, skipn (List.length (common_prefix a b)) b with
  | x :: _, y :: _ => x <> y
  | _, _ => True
  end.
Proof.
  induction a as [|x a IH]; intros [|y b]; simpl; auto.
  destruct (Ascii.eqb_spec x y) as [->|Hn]; simpl.
  - destruct (IH b) as [H1 [H2 H3]]. repeat split; [f_equal; exact H1|f_equal; exact H2|exact H3].
  - auto.
Qed.

Lemma length_eq_skipn_nil {A} (l : list A) n : n = List.length l -> skipn n l = [].
Proof. intros ->. apply skipn_all. Qed.

Lemma skipn_nil_length {A} (l : list A) n : n <= List.length l -> skipn n l = [] -> n = List.length l.
Proof.
  intros Hle H. assert (List.length (skipn n l) = 0) as H0 by (rewrite H; reflexivity).
  rewrite skipn_length in H0. lia.
Qed.

Lemma common_prefix_len_l a b : List.length (common_prefix a b) <= List.length a.
Proof.
  revert b. induction a as [|x a IH]; intros [|y b]; simpl; try lia.
  destruct (Ascii.eqb x y); simpl; [specialize (IH b)|]; lia.
Qed.
Lemma common_prefix_len_r a b : List.length (common_prefix a b) <= List.length b.
Proof.
  revert b. induction a as [|x a IH]; intros [|y b]; simpl; try lia.
  destruct (Ascii.eqb x y); simpl; [specialize (IH b)|]; lia.
Qed.

Inductive cp_case (rest k : bytes) : Prop :=
| CpExact : rest = k -> common_prefix rest k = k -> cp_case rest k
| CpKeyPrefix s : s <> [] -> rest = k ++ s -> common_prefix rest k = k -> skipn (List.length k) rest = s -> cp_case rest k
| CpRestPrefix s : s <> [] -> k = rest ++ s -> common_prefix rest k = rest -> skipn (List.length rest) k = s -> cp_case rest k
| CpDiverge u a s b s' : a <> b -> rest = u ++ a :: s -> k = u ++ b :: s' -> common_prefix rest k = u ->
    skipn (List.length u) rest = a :: s -> skipn (List.length u) k = b :: s' -> cp_case rest k.

Lemma cp_cases rest k : cp_case rest k.
Proof.
  destruct (common_prefix_split rest k) as [H1 [H2 H3]].
  remember (common_prefix rest k) as cp eqn:Ecp. remember (List.length cp) as l eqn:El.
  destruct (skipn l rest) as [|a s] eqn:E1; destruct (skipn l k) as [|b s'] eqn:E2.
  - rewrite app_nil_r in H1, H2. apply CpExact; congruence.
  - rewrite app_nil_r in H1. apply (CpRestPrefix rest k (b :: s')); try congruence.
  - rewrite app_nil_r in H2. apply (CpKeyPrefix rest k (a :: s)); try congruence.
  - apply (CpDiverge rest k cp a s b s'); subst; auto.
Qed.

Lemma common_prefix_starts c0 r k : starts_with c0 k = true -> exists cp', common_prefix (c0 :: r) k = c0 :: cp'.
Proof.
  intros H. apply starts_with_hd in H. destruct H as [k' ->]. simpl. rewrite Ascii.eqb_refl. eauto.
Qed.

(* ---------- sorting ---------- *)
Lemma perm_Forall {A} (P : A -> Prop) l l' : Permutation l l' -> Forall P l -> Forall P l'.
Proof.
  intros H1 H2. rewrite Forall_forall in *. intros x Hx. apply H2.
  eapply Permutation_in; [symmetry; exact H1|exact Hx].
Qed.

Lemma insert_sorted_perm n l : Permutation (insert_sorted n l) (n :: l).
Proof.
  induction l as [|m r IH]; simpl; [reflexivity|].
  destruct (bytes_ltb (nkey m) (nkey n)); [|reflexivity].
  rewrite IH. apply perm_swap.
Qed.

Lemma sort_nodes_perm l : Permutation (sort_nodes l) l.
Proof.
  induction l as [|x l IH]; simpl; [reflexivity|].
  rewrite insert_sorted_perm. constructor. exact IH.
Qed.

Lemma insert_sorted_sorted n l : nkey n <> [] -> Forall (fun c => nkey c <> []) l ->
  sorted_fb l -> ~ In (fb n) (map fb l) -> sorted_fb (insert_sorted n l).
Proof.
  unfold sorted_fb. intros Hn. induction l as [|m r IH]; intros Hne Hs Hni; simpl.
  - constructor; constructor.
  - inversion Hne as [|? ? Hm Hr]; subst. inversion Hs as [|? ? H1 H2]; subst.
    assert (fb m <> fb n) as Hmn by (intros E; apply Hni; left; exact E).
    destruct (bytes_ltb (nkey m) (nkey n)) eqn:E.
    + assert (fb m < fb n) as Hlt by (apply (bytes_ltb_fb m n); auto; split; auto;
        intros Hh; apply Hmn; unfold fb; destruct (nkey m), (nkey n); simpl in *; congruence).
      constructor.
      * apply IH; auto. intros Hin. apply Hni. right. exact Hin.
      * apply (perm_Forall _ (n :: r)); [symmetry; apply insert_sorted_perm|].
        constructor; assumption.
    + assert (fb n < fb m) as Hlt.
      { destruct (Nat.lt_trichotomy (fb n) (fb m)) as [H|[H|H]]; [exact H|congruence|].
        apply (bytes_ltb_fb m n) in H; auto. destruct H; congruence. }
      constructor; [exact Hs|]. constructor; [exact Hlt|].
      rewrite Forall_forall in *. intros y Hy. specialize (H2 y Hy). lia.
Qed.

Lemma sort_nodes_sorted l : Forall (fun c => nkey c <> []) l -> NoDup (map fb l) -> sorted_fb (sort_nodes l).
Proof.
  induction l as [|x l IH]; simpl; intros Hne Hnd.
  - constructor.
  - inversion Hne; subst. inversion Hnd; subst. apply insert_sorted_sorted; auto.
    + apply (perm_Forall _ l); [symmetry; apply sort_nodes_perm|assumption].
    + intros Hin. apply H3. eapply Permutation_in; [|exact Hin]. apply Permutation_map. apply sort_nodes_perm.
Qed.

Lemma sorted_fb_nodup l : sorted_fb l -> NoDup (map fb l).
Proof.
  unfold sorted_fb. induction l as [|x l IH]; simpl; intros H; [constructor|].
  inversion H as [|? ? H1 H2]; subst. constructor; [|auto].
  intros Hin. apply in_map_iff in Hin. destruct Hin as [y [He Hy]].
  rewrite Forall_forall in H2. specialize (H2 y Hy). lia.
Qed.

Lemma fb_eq_starts c0 y : nkey y <> [] -> fb y = nat_of_ascii c0 -> starts_with c0 (nkey y) = true.
Proof.
  unfold fb. destruct (nkey y) as [|b r]; [congruence|]. intros _ H. simpl.
  assert (b = c0) as ->.
  { rewrite <- (ascii_nat_embedding b), <- (ascii_nat_embedding c0). f_equal. exact H. }
  apply Ascii.eqb_refl.
Qed.

(* adding a child whose first byte is new, then sorting (newNode) *)
Lemma sorted_add_child ch child c0 :
  Forall (fun c => nkey c <> []) ch -> sorted_fb ch ->
  Forall (fun x => starts_with c0 (nkey x) = false) ch -> starts_with c0 (nkey child) = true ->
  sorted_fb (sort_nodes (ch ++ [child])).
Proof.
  intros Hne Hs Hno Hc. apply sort_nodes_sorted.
  - apply Forall_app. split; [exact Hne|]. constructor; [|constructor].
    apply starts_with_hd in Hc. destruct Hc as [r ->]. discriminate.
  - rewrite map_app. simpl. apply (Permutation_NoDup (l := fb child :: map fb ch)).
    + apply Permutation_cons_append.
    + constructor; [|apply sorted_fb_nodup; exact Hs].
      intros Hin. apply in_map_iff in Hin. destruct Hin as [y [He Hy]].
      rewrite Forall_forall in Hno, Hne. specialize (Hno y Hy). specialize (Hne y Hy).
      rewrite (fb_starts c0 child Hc) in He. apply fb_eq_starts in He; auto. congruence.
Qed.

(* ---------- the pattern automaton ---------- *)
Ltac deqb := repeat match goal with
  | |- context [Ascii.eqb ?a ?b] => destruct (Ascii.eqb_spec a b); subst; simpl in *
  | H : context [Ascii.eqb ?a ?b] |- _ => destruct (Ascii.eqb_spec a b); subst; simpl in *
  end.

Lemma vrun_app u v : vrun (u ++ v) = fold_left vstep v (vrun u).
Proof. unfold vrun. apply fold_left_app. Qed.

Lemma vrun_snoc u c : vrun (u ++ [c]) = vstep (vrun u) c.
Proof. rewrite vrun_app. reflexivity. Qed.

Lemma vbad_abs v h : fold_left vstep v (h, VBad) = (h, VBad).
Proof. induction v as [|c v IH]; simpl; auto. Qed.

Lemma vstep_nonbad s c : snd (vstep s c) <> VBad -> snd s <> VBad.
Proof. destruct s as [h st]. intros H E. simpl in E. subst. simpl in H. congruence. Qed.

Lemma vfold_nonbad v : forall s, snd (fold_left vstep v s) <> VBad -> snd s <> VBad.
Proof.
  induction v as [|c v IH]; simpl; intros s H; [exact H|]. apply IH in H. eapply vstep_nonbad; eauto.
Qed.

Lemma nonbad_app u v : snd (vrun (u ++ v)) <> VBad -> snd (vrun u) <> VBad.
Proof. rewrite vrun_app. apply vfold_nonbad. Qed.

Lemma vclosed_nonbad s : vclosed s = true -> snd s <> VBad.
Proof. unfold vclosed. destruct (snd s); congruence. Qed.

Lemma closed_nonbad u : closed u = true -> snd (vrun u) <> VBad.
Proof. apply vclosed_nonbad. Qed.

Lemma closed_app_nonbad u v : closed (u ++ v) = true -> snd (vrun u) <> VBad.
Proof. intros H. eapply nonbad_app. apply closed_nonbad. exact H. Qed.

Lemma vstep_h_mono s c : fst (vstep s c) = true -> fst s = true.
Proof. destruct s as [[|] st]; [reflexivity|]. destruct st; simpl; deqb; auto. Qed.

Lemma vfold_h_mono v : forall s, fst (fold_left vstep v s) = true -> fst s = true.
Proof. induction v as [|c v IH]; simpl; intros s H; [exact H|]. apply IH in H. eapply vstep_h_mono; eauto. Qed.

Lemma hostpart_app u v : hostpart (u ++ v) = true -> hostpart u = true.
Proof. unfold hostpart. rewrite vrun_app. apply vfold_h_mono. Qed.

Lemma hostpart_slash u : snd (vrun u) <> VBad -> (hostpart u = true <-> ~ In "/" u).
Proof.
  unfold hostpart. induction u as [|c u IH] using rev_ind; intros Hnb.
  - simpl. tauto.
  - rewrite vrun_snoc in *. specialize (IH (vstep_nonbad _ _ Hnb)).
    rewrite in_app_iff. simpl. destruct (vrun u) as [h st]. simpl in IH.
    destruct st; simpl in *; deqb; try congruence; try destruct h; simpl in *; try congruence;
      intuition congruence.
Qed.

Lemma closed_before_slash u w : snd (vrun (u ++ "/" :: w)) <> VBad -> closed u = true.
Proof.
  intros H. replace (u ++ "/" :: w) with ((u ++ ["/"]) ++ w) in H by (rewrite <- app_assoc; reflexivity).
  apply nonbad_app in H. rewrite vrun_snoc in H. unfold closed, vclosed.
  destruct (vrun u) as [h st]. destruct st; simpl in *; try reflexivity; try congruence.
  all: try (destruct h; simpl in H; congruence).
Qed.

Lemma index_byte_split : forall s c i, index_byte s c = Some i ->
  ~ In c (firstn i s) /\ List.length (firstn i s) = i /\ skipn i s = c :: skipn (S i) s.
Proof.
  induction s as [|x s IH]; intros c i; simpl; [discriminate|].
  destruct (Ascii.eqb_spec x c) as [->|Hn].
  - intros [= <-]. simpl. auto.
  - destruct (index_byte s c) as [j|] eqn:E; [|discriminate]. simpl. intros [= <-].
    destruct (IH c j E) as [H1 [H2 H3]]. simpl. repeat split; auto.
    intros [H|H]; [congruence|auto].
Qed.

Lemma index_byte_app_notin : forall u w c, ~ In c u ->
  index_byte (u ++ w) c = option_map (Nat.add (List.length u)) (index_byte w c).
Proof.
  induction u as [|x u IH]; intros w c Hni; simpl.
  - destruct (index_byte w c); reflexivity.
  - destruct (Ascii.eqb_spec x c) as [->|Hn]; [exfalso; apply Hni; left; reflexivity|].
    rewrite IH by (intros H; apply Hni; right; exact H).
    destruct (index_byte w c); reflexivity.
Qed.

Lemma index_byte_in : forall u w c, In c u -> exists i, index_byte (u ++ w) c = Some i /\ i < List.length u.
Proof.
  induction u as [|x u IH]; intros w c Hin; simpl; [destruct Hin|].
  destruct (Ascii.eqb_spec x c) as [->|Hn].
  - exists 0. split; [reflexivity|lia].
  - destruct Hin as [H|H]; [congruence|]. destruct (IH w c H) as [i [H1 H2]].
    rewrite H1. exists (S i). split; [reflexivity|lia].
Qed.

(* the Go test charsMatched <= hostSplit is "no '/' read so far" *)
Lemma hostpart_leb u w hs : snd (vrun u) <> VBad -> index_byte (u ++ w) "/" = Some hs ->
  hostpart u = Nat.leb (List.length u) hs.
Proof.
  intros Hnb Hi. destruct (in_dec ascii_dec "/" u) as [Hin|Hni].
  - destruct (index_byte_in u w "/" Hin) as [i [H1 H2]]. rewrite H1 in Hi. injection Hi as <-.
    destruct (hostpart u) eqn:E.
    + apply hostpart_slash in E; auto. contradiction.
    + symmetry. apply Nat.leb_gt. exact H2.
  - rewrite index_byte_app_notin in Hi by exact Hni.
    destruct (index_byte w "/") as [j|]; [|discriminate]. simpl in Hi. injection Hi as <-.
    assert (hostpart u = true) as -> by (apply hostpart_slash; auto).
    symmetry. apply Nat.leb_le. lia.
Qed.

(* ---------- the conflict scan of tree.go:333-355 ---------- *)
Definition sb_step (stop b1 b2 : ascii) (b : bool) (c : ascii) : bool :=
  if Ascii.eqb c stop then false else if Ascii.eqb c b1 || Ascii.eqb c b2 then true else b.

Lemma scan_back_fold stop b1 b2 cp :
  scan_back stop b1 b2 (rev cp) = fold_left (sb_step stop b1 b2) cp false.
Proof.
  induction cp as [|c cp IH] using rev_ind; [reflexivity|].
  rewrite rev_app_distr, fold_left_app. simpl. rewrite IH. reflexivity.
Qed.

Definition path_inv (s : bool * vst) (b : bool) : Prop :=
  fst s = false ->
  (b = true -> snd s = VName \/ snd s = VStar \/ snd s = VAfter) /\
  (b = false -> snd s = VDef \/ snd s = VAfter).

Lemma scan_path_inv s0 : (vclosed s0 = true \/ fst s0 = true) -> forall cp,
  snd (fold_left vstep cp s0) <> VBad ->
  path_inv (fold_left vstep cp s0) (fold_left (sb_step "/" "{" "*") cp false).
Proof.
  intros H0. induction cp as [|c cp IH] using rev_ind; intros Hnb.
  - simpl. unfold path_inv. intros Hf. split; [discriminate|]. intros _.
    destruct H0 as [H0|H0]; [|congruence]. unfold vclosed in H0. destruct (snd s0); auto; discriminate.
  - rewrite fold_left_app in Hnb. rewrite !fold_left_app. simpl in *. specialize (IH (vstep_nonbad _ _ Hnb)).
    destruct (fold_left vstep cp s0) as [h st]. destruct (fold_left (sb_step "/" "{" "*") cp false);
      unfold path_inv, sb_step in *; destruct h, st; simpl in *; deqb; try congruence;
      intuition congruence.
Qed.

Definition host_inv (s : bool * vst) (b : bool) : Prop :=
  fst s = true ->
  (b = true -> snd s = VName \/ snd s = VAfter) /\
  (b = false -> snd s = VDef \/ snd s = VAfter).

Lemma scan_host_inv s0 : vclosed s0 = true -> forall cp,
  snd (fold_left vstep cp s0) <> VBad ->
  host_inv (fold_left vstep cp s0) (fold_left (sb_step "." "{" "{") cp false).
Proof.
  intros H0. induction cp as [|c cp IH] using rev_ind; intros Hnb.
  - simpl. unfold host_inv. intros Hf. split; [discriminate|]. intros _.
    unfold vclosed in H0. destruct (snd s0); auto; discriminate.
  - rewrite fold_left_app in Hnb. rewrite !fold_left_app. simpl in *. specialize (IH (vstep_nonbad _ _ Hnb)).
    destruct (fold_left vstep cp s0) as [h st]. destruct (fold_left (sb_step "." "{" "{") cp false);
      unfold host_inv, sb_step in *; destruct h, st; simpl in *; deqb; try congruence;
      intuition congruence.
Qed.

Lemma vstep_after s c : snd (vstep s c) = VAfter -> c = "}".
Proof. destruct s as [h st]. destruct h, st; simpl; deqb; congruence. Qed.

Lemma vstep_rbrace_closed s : snd (vstep s "}") <> VBad -> vclosed (vstep s "}") = true.
Proof. destruct s as [h st]. destruct h, st; simpl; intros H; try reflexivity; congruence. Qed.

Lemma prefix_conflict_host cp :
  prefix_conflict true cp
  = match rev cp with [] => false | c :: _ => if Ascii.eqb c "}" then false else scan_back "." "{" "{" (rev cp) end.
Proof.
  unfold prefix_conflict. cbn [negb]. cbv iota. destruct (rev cp) as [|c r]; [reflexivity|].
  destruct (Ascii.eqb_spec c "}") as [->|Hn]; [reflexivity|].
  destruct c as [[|] [|] [|] [|] [|] [|] [|] [|]]; try reflexivity. congruence.
Qed.

(* what the scan tells about the state of the automaton after pre ++ cp *)
Lemma prefix_conflict_spec pre cp :
  closed pre = true -> snd (vrun (pre ++ cp)) <> VBad ->
  (prefix_conflict (hostpart (pre ++ cp)) cp = false -> closed (pre ++ cp) = true) /\
  (prefix_conflict (hostpart (pre ++ cp)) cp = true ->
     snd (vrun (pre ++ cp)) = VName \/ snd (vrun (pre ++ cp)) = VStar \/
     (snd (vrun (pre ++ cp)) = VAfter /\ hostpart (pre ++ cp) = false)).
Proof.
  intros Hc Hnb. unfold closed, hostpart in *. rewrite vrun_app in *.
  destruct (fst (fold_left vstep cp (vrun pre))) eqn:Hh.
  - (* hostname *)
    rewrite prefix_conflict_host.
    destruct cp as [|c cp' _] using rev_ind.
    { simpl. split; [intros _; exact Hc|discriminate]. }
    rewrite rev_app_distr. simpl rev. cbn [app].
    destruct (Ascii.eqb_spec c "}") as [->|Hne].
    + split; [|discriminate]. intros _. rewrite fold_left_app in *. simpl in *.
      apply vstep_rbrace_closed. exact Hnb.
    + replace (c :: rev cp') with (rev (cp' ++ [c])) by (rewrite rev_app_distr; reflexivity).
      rewrite scan_back_fold.
      pose proof (scan_host_inv (vrun pre) Hc (cp' ++ [c]) Hnb) as Hi. unfold host_inv in Hi.
      destruct (Hi Hh) as [Ht Hf]. split.
      * intros E. unfold vclosed. destruct (Hf E) as [-> | ->]; reflexivity.
      * intros E. destruct (Ht E) as [H|H]; [left; exact H|].
        rewrite fold_left_app in H. simpl in H. apply vstep_after in H. congruence.
  - (* path *)
    unfold prefix_conflict. cbn [negb]. cbv iota. rewrite scan_back_fold.
    pose proof (scan_path_inv (vrun pre) (or_introl Hc) cp Hnb) as Hi. unfold path_inv in Hi.
    destruct (Hi Hh) as [Ht Hf]. split.
    + intros E. unfold vclosed. destruct (Hf E) as [-> | ->]; reflexivity.
    + intros E. destruct (Ht E) as [H|[H|H]]; auto.
Qed.

(* two legal continuations that differ in their first byte exclude the '*' and "}" states *)
Lemma diverge_states u a s b s' : a <> b ->
  snd (vrun (u ++ a :: s)) <> VBad -> snd (vrun (u ++ b :: s')) <> VBad ->
  snd (vrun u) <> VStar /\ ~ (snd (vrun u) = VAfter /\ hostpart u = false).
Proof.
  intros Hab Ha Hb.
  replace (u ++ a :: s) with ((u ++ [a]) ++ s) in Ha by (rewrite <- app_assoc; reflexivity).
  replace (u ++ b :: s') with ((u ++ [b]) ++ s') in Hb by (rewrite <- app_assoc; reflexivity).
  apply nonbad_app in Ha, Hb. rewrite vrun_snoc in Ha, Hb. unfold hostpart.
  destruct (vrun u) as [h st]. split.
  - intros E. simpl in E. subst. simpl in *. deqb; congruence.
  - intros [E1 E2]. simpl in E1, E2. subst. simpl in *. deqb; congruence.
Qed.

(* ---------- route lists ---------- *)
Lemma height_child c ch : In c ch ->
  node_height c <= fold_right (fun c acc => Nat.max (node_height c) acc) 0 ch.
Proof.
  induction ch as [|x ch IH]; simpl; [tauto|]. intros [->|H]; [lia|]. specialize (IH H). lia.
Qed.

Lemma routes_pre_rlist : forall fuel n, node_height n <= fuel -> routes_pre fuel n = rlist n.
Proof.
  induction fuel as [|f IH]; intros [k r ch] Hh.
  - simpl in Hh. lia.
  - cbn [routes_pre rlist nroute nchildren]. f_equal.
    cbn [node_height] in Hh.
    assert (forall c, In c ch -> node_height c <= f) as Hc.
    { intros c Hin. apply height_child in Hin. lia. }
    clear Hh. induction ch as [|c ch IHch]; [reflexivity|]. simpl. f_equal.
    + apply IH. apply Hc. left. reflexivity.
    + apply IHch. intros c' Hin. apply Hc. right. exact Hin.
Qed.

Lemma routes_of_node_rlist n : routes_of_node n = rlist n.
Proof. apply routes_pre_rlist. lia. Qed.

Lemma rlist_children_mid (l1 : list node) c l2 :
  Permutation (flat_map rlist (l1 ++ c :: l2)) (rlist c ++ flat_map rlist (l1 ++ l2)).
Proof.
  rewrite !flat_map_app. simpl. rewrite app_assoc.
  rewrite (Permutation_app_comm (flat_map rlist l1) (rlist c)). rewrite <- app_assoc. reflexivity.
Qed.

Lemma flat_map_rlist_perm l l' : Permutation l l' -> Permutation (flat_map rlist l) (flat_map rlist l').
Proof. intros H. induction H; simpl; auto.
  - apply Permutation_app_head. exact IHPermutation.
  - rewrite !app_assoc. apply Permutation_app_tail. apply Permutation_app_comm.
  - etransitivity; eauto.
Qed.

(* every route below a well-formed node extends the node's own path *)
Lemma WF_rlist_pat : forall n pre rt, WF_node pre n -> In rt (rlist n) ->
  exists k', rpat rt = (pre ++ nkey n) ++ k' /\ closed (rpat rt) = true /\ hostpart (rpat rt) = false
             /\ (k' = [] -> nroute n = Some rt).
Proof.
  induction n as [k r ch IH] using node_ind2. intros pre rt Hwf Hin.
  inversion Hwf as [? ? ? ? H1 H2 H3 H4 H5 H6 H7]; subst. cbn [rlist] in Hin. cbn [nkey nroute].
  apply in_app_or in Hin. destruct Hin as [Hin|Hin].
  - destruct r as [r0|]; [|destruct Hin]. destruct Hin as [->|[]].
    destruct (H5 rt eq_refl) as [Ha Hb]. exists []. rewrite app_nil_r. rewrite Ha. auto.
  - apply in_flat_map in Hin. destruct Hin as [c [Hc Hin]].
    rewrite Forall_forall in IH, H7. destruct (IH c Hc (pre ++ k) rt (H7 c Hc) Hin) as [k' [Ha [Hb [Hd _]]]].
    exists (nkey c ++ k'). rewrite Ha, <- !app_assoc. split; [reflexivity|]. rewrite !app_assoc, <- Ha. split; [exact Hb|]. split; [exact Hd|].
    intros E. apply app_eq_nil in E. destruct E as [E _].
    specialize (H7 c Hc). inversion H7; subst. simpl in E. congruence.
Qed.

Lemma WF_children_pat ch pre rt : Forall (WF_node pre) ch -> In rt (flat_map rlist ch) ->
  exists c k', In c ch /\ In rt (rlist c) /\ nkey c <> [] /\ rpat rt = pre ++ nkey c ++ k' /\
               closed (rpat rt) = true /\ hostpart (rpat rt) = false.
Proof.
  intros Hwf Hin. apply in_flat_map in Hin. destruct Hin as [c [Hc Hin]].
  rewrite Forall_forall in Hwf. specialize (Hwf c Hc).
  destruct (WF_rlist_pat c pre rt Hwf Hin) as [k' [Ha [Hb [Hd _]]]].
  exists c, k'. rewrite <- app_assoc in Ha. split; [exact Hc|]. split; [exact Hin|]. split; [|auto]. inversion Hwf; subst. simpl. assumption.
Qed.

Lemma WF_rlist_nonempty : forall n pre, WF_node pre n -> rlist n <> [].
Proof.
  induction n as [k r ch IH] using node_ind2. intros pre Hwf.
  inversion Hwf as [? ? ? ? H1 H2 H3 H4 H5 H6 H7]; subst. cbn [rlist].
  destruct r as [r0|]; [discriminate|]. simpl.
  assert (exists c ch', ch = c :: ch') as [c [ch' ->]].
  { destruct (H6 eq_refl) as [Hl|[_ [g [-> _]]]]; [|eauto]. destruct ch; simpl in Hl; [lia|eauto]. }
  simpl. inversion IH; subst. inversion H7; subst. intros E. apply app_eq_nil in E. destruct E as [E _].
  eapply H8; eauto.
Qed.

Lemma WF_node_key_ne pre n : WF_node pre n -> nkey n <> [].
Proof. intros H. inversion H; subst. assumption. Qed.

Lemma WF_children_key_ne pre ch : Forall (WF_node pre) ch -> Forall (fun c => nkey c <> []) ch.
Proof. intros H. eapply Forall_impl; [|exact H]. intros c. apply WF_node_key_ne. Qed.

(* ---------- new_leaf ---------- *)
Lemma firstn_cons_pos {A} n (x : A) l : 0 < n -> exists l', firstn n (x :: l) = x :: l'.
Proof. destruct n; [lia|]. simpl. eauto. Qed.

Lemma new_leaf_spec ri pre c0 s0 :
  valid_rinfo ri -> rpat (ri_route ri) = pre ++ c0 :: s0 -> closed pre = true ->
  WF_node pre (fst (new_leaf ri (List.length pre) (c0 :: s0))) /\
  rlist (fst (new_leaf ri (List.length pre) (c0 :: s0))) = [ri_route ri] /\
  starts_with c0 (nkey (fst (new_leaf ri (List.length pre) (c0 :: s0)))) = true.
Proof.
  intros [Hv Hi] Hp Hc. set (suffix := c0 :: s0) in *. set (hs := ri_hostsplit ri) in *.
  unfold valid_patternb in Hv. apply andb_true_iff in Hv. destruct Hv as [Hcl Hhp].
  apply negb_true_iff in Hhp. rewrite Hp in Hcl, Hhp, Hi.
  assert (snd (vrun pre) <> VBad) as Hnb by (eapply closed_app_nonbad; eauto).
  pose proof (hostpart_leb pre suffix hs Hnb Hi) as Hleb.
  unfold new_leaf. fold hs. destruct (Nat.ltb 0 hs && Nat.ltb (List.length pre) hs) eqn:Econd.
  - apply andb_true_iff in Econd. destruct Econd as [E1 E2]. apply Nat.ltb_lt in E1, E2.
    assert (hostpart pre = true) as Hh by (rewrite Hleb; apply Nat.leb_le; lia).
    assert (~ In "/" pre) as Hni by (apply hostpart_slash; auto).
    rewrite index_byte_app_notin in Hi by exact Hni.
    destruct (index_byte suffix "/") as [j|] eqn:Ej; [|discriminate]. simpl in Hi.
    assert (hs - List.length pre = j) as -> by (injection Hi; lia).
    assert (0 < j) as Hj by (injection Hi; lia).
    destruct (index_byte_split suffix "/" j Ej) as [Hn1 [Hn2 Hn3]].
    set (k1 := firstn j suffix) in *. set (k2 := skipn j suffix) in *.
    assert (suffix = k1 ++ k2) as Hs by (symmetry; apply firstn_skipn).
    cbn [fst]. unfold new_node. simpl sort_nodes.
    assert (closed (pre ++ k1) = true) as Hck1.
    { apply (closed_before_slash _ (skipn (S j) suffix)). rewrite <- app_assoc, <- Hn3.
      fold k2. rewrite <- Hs. apply closed_nonbad. exact Hcl. }
    assert (hostpart (pre ++ k1) = true) as Hhk1.
    { apply hostpart_slash; [apply closed_nonbad; exact Hck1|]. rewrite in_app_iff. tauto. }
    split; [|split; [reflexivity|]].
    + constructor.
      * intros E. rewrite E in Hn2. simpl in Hn2. lia.
      * exact Hck1.
      * auto.
      * constructor; constructor.
      * discriminate.
      * intros _. right. split; [exact Hhk1|]. eexists. split; [reflexivity|]. cbn [nkey]. rewrite Hn3. reflexivity.
      * constructor; [|constructor]. constructor.
        -- rewrite Hn3. discriminate.
        -- rewrite <- app_assoc, <- Hs. exact Hcl.
        -- intros _ E. rewrite Hn3 in E. discriminate.
        -- constructor.
        -- intros rt [= <-]. rewrite <- app_assoc, <- Hs. split; [exact Hp|exact Hhp].
        -- discriminate.
        -- constructor.
    + cbn [nkey]. unfold k1, suffix. destruct (firstn_cons_pos j c0 s0 Hj) as [l' ->]. simpl. apply Ascii.eqb_refl.
  - cbn [fst]. split; [|split; [reflexivity|]].
    + constructor.
      * discriminate.
      * exact Hcl.
      * intros Hh Hs. exfalso.
        assert (~ In "/" pre) as Hni by (apply hostpart_slash; auto).
        rewrite index_byte_app_notin in Hi by exact Hni.
        destruct (index_byte suffix "/") as [j|] eqn:Ej; [|discriminate]. simpl in Hi.
        rewrite Hh in Hleb. symmetry in Hleb. apply Nat.leb_le in Hleb.
        assert (j = 0) as ->.
        { apply andb_false_iff in Econd. injection Hi as Hi.
          destruct Econd as [E|E]; apply Nat.ltb_ge in E; lia. }
        destruct (index_byte_split suffix "/" 0 Ej) as [_ [_ Hn3]]. simpl in Hn3.
        assert (c0 = "/") as -> by (unfold suffix in Hn3; simpl in Hn3; congruence).
        unfold suffix in Hs. simpl in Hs. discriminate.
      * constructor.
      * intros rt [= <-]. split; [exact Hp|exact Hhp].
      * discriminate.
      * constructor.
    + simpl. apply Ascii.eqb_refl.
Qed.
