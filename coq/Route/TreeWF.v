(* TreeWF — see docs/ for the plan of this file. *)
From FoxBase Require Import Bytes.
From FoxRoute Require Import Node Lookup Spec Tree.
