(* Props_C01_single — the "routable" half of C10 (agent p-e2e): every valid path-only pattern, registered
   alone, is reached by every valid substitution of its wildcards.  Only statements closed by [exact],
   each followed by Print Assumptions, with non-vacuity examples.
   Definitions: SingleRoute.v (sigma_ok, no_mid_catch, follow_ok), EndToEnd.v (nocatch),
   EndToEnd2.v (e2e_fuel, final_txn), WFDef.v (valid_patternb, valid_rinfo), StaticEquiv2.v (okpath). *)
From FoxBase Require Import Bytes.
From FoxRoute Require Import Node Lookup Spec Tree MapSpec Corr CorrHist WFDef TreeMap2
  SpecSound StaticEquiv StaticEquiv2 EndToEnd EndToEnd2 SingleRoute.
Open Scope char_scope.

(* in a valid path pattern every wildcard is followed by '/' or ends the pattern *)
Theorem C10_valid_path_follow : forall p, valid_patternb p = true -> is_path_pattern p = true ->
  follow_ok (tokenize p) = true.
Proof. exact valid_path_follow. Qed.
Print Assumptions C10_valid_path_follow.

(* a valid substitution is a match in the sense of the specification *)
Theorem C10_sigma_matches : forall ts sg, forallb tok_ok ts = true -> follow_ok ts = true ->
  sigma_ok ts sg -> Matches ts (subst ts sg) 0 sg.
Proof. exact sigma_matches. Qed.
Print Assumptions C10_sigma_matches.

(* without an infix catch-all a request determines the values *)
Theorem C10_match_unique : forall ts s v1 v2, no_mid_catch ts = true ->
  Matches ts s 0 v1 -> Matches ts s 0 v2 -> v1 = v2.
Proof. exact Matches_unique. Qed.
Print Assumptions C10_match_unique.

(* ROUTABLE: for every valid path-only pattern p (any method, any route id) and every valid substitution
   sg of its wildcards — request without '*' byte and without empty segment, or pattern without
   catch-all —: insertion in the empty router succeeds, and looking up the substituted request (any
   Host, fuel >= closed form) returns p with parameters named after p's wildcards, in order, whose
   substitution reproduces the request; they are exactly sg when no catch-all is followed by pattern text *)
Theorem C10_single_route : forall m ri sg host,
  let p := rpat (ri_route ri) in
  let req := subst (tokenize p) sg in
  valid_rinfo ri -> is_path_pattern p = true -> sigma_ok (tokenize p) sg ->
  okpath req = true \/ nocatch (tokenize p) = true ->
  exists t', insert empty_txn m ri = ROk t' /\
    forall fuel, e2e_fuel req (t_roots t') m <= fuel ->
    exists ps, direct_obs (roots_lookup fuel (t_roots t') m host req false [] []) = Some (p, ps) /\
               map fst ps = wildcard_names (tokenize p) /\
               subst (tokenize p) (map snd ps) = req /\
               (no_mid_catch (tokenize p) = true -> map snd ps = sg).
Proof. exact single_route_thm. Qed.
Print Assumptions C10_single_route.

(* the same through the history interface (one Handle on a fresh router) *)
Theorem C10_single_route_history : forall o sg host,
  let p := h_pat o in
  let req := subst (tokenize p) sg in
  h_kind o = KHandle -> valid_method_handle (h_method o) = true -> h_valid o = true -> hop_ok o ->
  is_path_pattern p = true -> sigma_ok (tokenize p) sg ->
  okpath req = true \/ nocatch (tokenize p) = true ->
  forall fuel, e2e_fuel req (t_roots (final_txn [o])) (h_method o) <= fuel ->
  exists ps, direct_obs (roots_lookup fuel (t_roots (final_txn [o])) (h_method o) host req false [] []) = Some (p, ps) /\
             map fst ps = wildcard_names (tokenize p) /\
             subst (tokenize p) (map snd ps) = req /\
             (no_mid_catch (tokenize p) = true -> map snd ps = sg).
Proof. exact single_route_history_thm. Qed.
Print Assumptions C10_single_route_history.

(* ---- non-vacuity ---- *)
Ltac sigma_tac := simpl; repeat split; try discriminate;
  try (exfalso; match goal with H : [] <> [] |- _ => apply H; reflexivity end);
  try (intros H; first [ exfalso; apply H; reflexivity
                       | simpl in H; repeat (destruct H as [H|H]; [discriminate H|]); exact H ]).

Definition sr_pat : bytes := S2B "/a/{x}/b-{y}/*{w}/c".
Definition sr_ri : rinfo := WFDef.mk_ri sr_pat 1.
Definition sr_sg : list bytes := [S2B "v1"; S2B "v2"; S2B "p/q"].
Definition sr_req : bytes := S2B "/a/v1/b-v2/p/q/c".

Example sr_hyps :
  valid_rinfo sr_ri /\ is_path_pattern sr_pat = true /\ sigma_ok (tokenize sr_pat) sr_sg
  /\ subst (tokenize sr_pat) sr_sg = sr_req /\ okpath sr_req = true /\ no_mid_catch (tokenize sr_pat) = false.
Proof.
  split; [split; reflexivity|]. split; [reflexivity|]. split; [|repeat split].
  unfold sr_pat, sr_sg. sigma_tac.
Qed.

(* the theorem's instance, and the computed answer *)
Example sr_instance :
  exists t', insert empty_txn m_get sr_ri = ROk t' /\
    exists ps, direct_obs (roots_lookup big_fuel (t_roots t') m_get (S2B "h.com") sr_req false [] []) = Some (sr_pat, ps) /\
               map fst ps = [S2B "x"; S2B "y"; S2B "w"] /\ subst (tokenize sr_pat) (map snd ps) = sr_req.
Proof.
  destruct sr_hyps as (Hv & Hp & Hsg & Hreq & Hok & _).
  destruct (C10_single_route m_get sr_ri sr_sg (S2B "h.com") Hv Hp Hsg (or_introl Hok)) as (t' & Hi & H).
  exists t'. split; [exact Hi|].
  assert (t' = match insert empty_txn m_get sr_ri with ROk t => t | _ => empty_txn end) as Et by (rewrite Hi; reflexivity).
  destruct (H big_fuel) as (ps & H1 & H2 & H3 & _).
  { apply Nat.leb_le. rewrite Et. vm_compute. reflexivity. }
  exists ps. auto.
Qed.

Example sr_compute :
  match insert empty_txn m_get sr_ri with
  | ROk t' => direct_obs (roots_lookup big_fuel (t_roots t') m_get [] sr_req false [] []) =
              Some (sr_pat, [(S2B "x", S2B "v1"); (S2B "y", S2B "v2"); (S2B "w", S2B "p/q")])
  | _ => False
  end.
Proof. vm_compute. reflexivity. Qed.

(* a suffix catch-all: the values are exactly the substituted ones (value may contain and end with '/') *)
Definition sr2_pat : bytes := S2B "/files/{user}/*{path}".
Definition sr2_sg : list bytes := [S2B "bob"; S2B "docs/a.txt/"].
Example sr2_hyps :
  valid_rinfo (WFDef.mk_ri sr2_pat 2) /\ sigma_ok (tokenize sr2_pat) sr2_sg /\ no_mid_catch (tokenize sr2_pat) = true
  /\ okpath (subst (tokenize sr2_pat) sr2_sg) = true.
Proof. split; [split; reflexivity|]. split; [|split; reflexivity]. unfold sr2_pat, sr2_sg. sigma_tac. Qed.
Example sr2_compute :
  match insert empty_txn (S2B "PURGE") (WFDef.mk_ri sr2_pat 2) with
  | ROk t' => option_map (fun x => map snd (snd x))
                (direct_obs (roots_lookup big_fuel (t_roots t') (S2B "PURGE") [] (subst (tokenize sr2_pat) sr2_sg) false [] []))
              = Some sr2_sg
  | _ => False
  end.
Proof. vm_compute. reflexivity. Qed.

(* the restriction of the last clause is needed: with a catch-all followed by pattern text the
   returned values may differ from the substituted ones (shortest value first), while their
   substitution still reproduces the request *)
Definition sr3_pat : bytes := S2B "/*{a}/x/*{b}".
Definition sr3_sg : list bytes := [S2B "p/x/q"; S2B "r"].
Example sr3_hyps :
  valid_rinfo (WFDef.mk_ri sr3_pat 3) /\ sigma_ok (tokenize sr3_pat) sr3_sg /\ no_mid_catch (tokenize sr3_pat) = false
  /\ okpath (subst (tokenize sr3_pat) sr3_sg) = true.
Proof. split; [split; reflexivity|]. split; [|split; reflexivity]. unfold sr3_pat, sr3_sg. sigma_tac. Qed.
Example sr3_differs :
  match insert empty_txn m_get (WFDef.mk_ri sr3_pat 3) with
  | ROk t' => direct_obs (roots_lookup big_fuel (t_roots t') m_get [] (subst (tokenize sr3_pat) sr3_sg) false [] []) =
              Some (sr3_pat, [(S2B "a", S2B "p"); (S2B "b", S2B "q/x/r")])
              /\ subst (tokenize sr3_pat) [S2B "p"; S2B "q/x/r"] = subst (tokenize sr3_pat) sr3_sg
  | _ => False
  end.
Proof. vm_compute. split; reflexivity. Qed.

(* a pattern without catch-all: no condition on the values beyond sigma_ok (a '*' byte is fine) *)
Definition sr4_pat : bytes := S2B "/u/{id}/edit".
Example sr4_hyps :
  valid_rinfo (WFDef.mk_ri sr4_pat 4) /\ sigma_ok (tokenize sr4_pat) [S2B "*7*"] /\ nocatch (tokenize sr4_pat) = true
  /\ okpath (subst (tokenize sr4_pat) [S2B "*7*"]) = false.
Proof. split; [split; reflexivity|]. split; [|split; reflexivity]. unfold sr4_pat. sigma_tac. Qed.
Example sr4_compute :
  match insert empty_txn m_get (WFDef.mk_ri sr4_pat 4) with
  | ROk t' => direct_obs (roots_lookup big_fuel (t_roots t') m_get [] (S2B "/u/*7*/edit") false [] []) =
              Some (sr4_pat, [(S2B "id", S2B "*7*")])
  | _ => False
  end.
Proof. vm_compute. reflexivity. Qed.
