(* Props_C01_single — reserved. *)
From FoxBase Require Import Bytes.
