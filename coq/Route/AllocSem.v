(* C16, tie A (docs/GenC16.md) - hand-written, trusted: the meaning of the primitives that
   harness/cmd/allocgen emits into GenAlloc.v.  Nothing here describes fox's control flow: which counter a
   buffer is sized from, which statements touch the counters and in which order is in the generated file.

   cnt      the three counters that tXn and iTree both carry (tree.go:17-24, 46-54): size, maxParams, depth;
            uint32 / int are read as nat / Z without wrap-around (maxParams <= 65535 by fox.go:824, depth <= the
            pattern length)
   sl       a slice header seen by the sizing code: len, cap and an abstract name for the contents
   bufs     the three buffers allocateContext hands to a context
   slices_Grow rt s n : slices.Grow(s, n).  The runtime allocates iff cap(s) < len(s)+n (the growth event, second
            component); the new capacity is the runtime's choice rt, at least len(s)+n (Go spec of slices.Grow). *)
From FoxBase Require Import Bytes.
From FoxRoute Require Import Node Tree Alloc.

Record cnt := { c_size : Z; c_maxparams : nat; c_depth : nat }.
Definition cnt_zero : cnt := {| c_size := 0; c_maxparams := 0; c_depth := 0 |}.
Definition set_size (v : Z) (c : cnt) : cnt := {| c_size := v; c_maxparams := c_maxparams c; c_depth := c_depth c |}.
Definition set_maxparams (v : nat) (c : cnt) : cnt := {| c_size := c_size c; c_maxparams := v; c_depth := c_depth c |}.
Definition set_depth (v : nat) (c : cnt) : cnt := {| c_size := c_size c; c_maxparams := c_maxparams c; c_depth := v |}.

(* the counters of a model transaction, and a transaction with other counters *)
Definition txn_cnt (t : txn) : cnt := {| c_size := t_size t; c_maxparams := t_maxparams t; c_depth := t_depth t |}.

(* resultType (tree.go:723-730); the constructor names are the Go constant names *)
Inductive rtype := exactMatch | incompleteMatchToEndOfEdge | incompleteMatchToMiddleOfEdge | keyEndMidEdge.

Record sl := { s_len : nat; s_cap : nat; s_data : nat }.
Definition make_slice (len cap : nat) : sl := {| s_len := len; s_cap := cap; s_data := 0 |}.
Record bufs := { b_params : sl; b_tsrParams : sl; b_skipNds : sl }.
Definition bufs_caps (b : bufs) : hw :=
  {| h_ps := s_cap (b_params b); h_tps := s_cap (b_tsrParams b); h_sks := s_cap (b_skipNds b) |}.

Definition slices_Grow (rt : nat) (s : sl) (n : nat) : sl * bool :=
  if Nat.ltb (s_cap s) (s_len s + n)
  then ({| s_len := s_len s; s_cap := Nat.max rt (s_len s + n); s_data := s_data s |}, true)
  else (s, false).
(* s[:hi:mx]; None = the slice expression panics *)
Definition sl_reslice3 (s : sl) (hi mx : nat) : option sl :=
  if Nat.leb hi mx && Nat.leb mx (s_cap s) then Some {| s_len := hi; s_cap := mx; s_data := s_data s |} else None.
(* copy(dst, src): min(len dst, len src) elements; the contents are src's when all of src fits *)
Definition sl_copy (dst src : sl) : sl :=
  {| s_len := s_len dst; s_cap := s_cap dst; s_data := if Nat.leb (s_len src) (s_len dst) then s_data src else 0 |}.
