(* Props_C01_lazy — property theorems of the proof agent owning this topic: only Theorem ... exact ... Qed. Print Assumptions. *)
From FoxBase Require Import Bytes.
From FoxRoute Require Import Node Lookup LazyProofs LazyProofs2.
Open Scope char_scope.

(* ---- lookupByPath: forward simulation from arbitrary related states (no invariant) ---- *)
Theorem C01_lbp_lazy_irrelevant : forall f path ph sl sn, lazy_rel sl sn ->
  match lbp f path false ph sn with
  | Found n t _ _ => exists p tp, lbp f path true ph sl = Found n t p tp
  | LOutOfFuel => lbp f path true ph sl = LOutOfFuel
  | LPanic => True
  end.
Proof. exact lbp_lazy_irrelevant. Qed.
Print Assumptions C01_lbp_lazy_irrelevant.

(* ---- ... and exact correspondence under the params/skipped-stack invariant ---- *)
Theorem C01_lbp_lazy_irrelevant_iff : forall f path ph sl sn, lazy_rel sl sn -> Inv ph sn ->
  (forall n t, (exists p tp, lbp f path true ph sl = Found n t p tp) <->
               (exists p tp, lbp f path false ph sn = Found n t p tp)) /\
  (lbp f path true ph sl = LPanic <-> lbp f path false ph sn = LPanic) /\
  (lbp f path true ph sl = LOutOfFuel <-> lbp f path false ph sn = LOutOfFuel).
Proof. exact lbp_lazy_irrelevant_iff. Qed.
Print Assumptions C01_lbp_lazy_irrelevant_iff.

(* a panic of the recording run from a state satisfying the invariant is never the `[:k] beyond
   len` artifact of PBack: the lazy run (whose guard is `len < 0`) panics as well *)
Theorem C01_lbp_panic_genuine : forall f path ph sn, Inv ph sn ->
  lbp f path false ph sn = LPanic -> forall p tp, lbp f path true ph (lz sn p tp) = LPanic.
Proof. exact lbp_panic_genuine. Qed.
Print Assumptions C01_lbp_panic_genuine.

Theorem C01_lookup_by_path_lazy_irrelevant : forall f c path ps0 tps0 ps1 tps1,
  strong_rel (lookup_by_path f c path true ps0 tps0) (lookup_by_path f c path false ps1 tps1).
Proof. exact lookup_by_path_lazy_irrelevant. Qed.
Print Assumptions C01_lookup_by_path_lazy_irrelevant.

Example C01_lbp_lazy_irrelevant_ex :
  let s := init_st ex_path_node [] [] in
  lazy_rel s s /\ Inv PWalk s /\
  exists n kv1 kv2,
    lbp ex_fuel (S2B "/a/foo/c") false PWalk s = Found (Some n) false [kv1; kv2] [(S2B "x", S2B "foo")] /\
    lbp ex_fuel (S2B "/a/foo/c") true PWalk s = Found (Some n) false [] [].
Proof. exact lbp_lazy_irrelevant_ex. Qed.

(* ---- lookupByDomain ---- *)
Theorem C01_lbd_lazy_irrelevant : forall f host path ph sl sn, lazy_rel sl sn ->
  match lbd f host path false ph sn with
  | Found n t _ _ => exists p tp, lbd f host path true ph sl = Found n t p tp
  | LOutOfFuel => lbd f host path true ph sl = LOutOfFuel
  | LPanic => True
  end.
Proof. exact lbd_lazy_irrelevant. Qed.
Print Assumptions C01_lbd_lazy_irrelevant.

Theorem C01_lbd_lazy_irrelevant_iff : forall f host path ph sl sn, lazy_rel sl sn -> DInv ph sn ->
  (forall n t, (exists p tp, lbd f host path true ph sl = Found n t p tp) <->
               (exists p tp, lbd f host path false ph sn = Found n t p tp)) /\
  (lbd f host path true ph sl = LPanic <-> lbd f host path false ph sn = LPanic) /\
  (lbd f host path true ph sl = LOutOfFuel <-> lbd f host path false ph sn = LOutOfFuel).
Proof. exact lbd_lazy_irrelevant_iff. Qed.
Print Assumptions C01_lbd_lazy_irrelevant_iff.

Theorem C01_lookup_by_domain_lazy_irrelevant : forall f target host path ps0 tps0 ps1 tps1,
  strong_rel (lookup_by_domain f target host path true ps0 tps0)
             (lookup_by_domain f target host path false ps1 tps1).
Proof. exact lookup_by_domain_lazy_irrelevant. Qed.
Print Assumptions C01_lookup_by_domain_lazy_irrelevant.

Example C01_lbd_lazy_irrelevant_ex :
  exists n,
    lookup_by_domain ex_fuel ex_host_node (S2B "a.ex.com") (S2B "/u/42/x") false [] [] =
      Found (Some n) false [(S2B "sub", S2B "a"); (S2B "id", S2B "42")] [] /\
    lookup_by_domain ex_fuel ex_host_node (S2B "a.ex.com") (S2B "/u/42/x") true [] [] = Found (Some n) false [] [].
Proof. exact lbd_lazy_irrelevant_ex. Qed.

(* ---- roots.lookup: unconditional, any initial params / tsrParams on either side ---- *)
Theorem C01_roots_lookup_lazy_irrelevant_gen : forall f r m h p ps0 tps0 ps1 tps1,
  proj (roots_lookup f r m h p true ps0 tps0) = proj (roots_lookup f r m h p false ps1 tps1).
Proof. exact roots_lookup_lazy_irrelevant_gen. Qed.
Print Assumptions C01_roots_lookup_lazy_irrelevant_gen.

Theorem C01_roots_lookup_lazy_irrelevant : forall fuel r m h p,
  proj (roots_lookup fuel r m h p true [] []) = proj (roots_lookup fuel r m h p false [] []).
Proof. exact roots_lookup_lazy_irrelevant. Qed.
Print Assumptions C01_roots_lookup_lazy_irrelevant.

Example C01_roots_lookup_lazy_irrelevant_ex :
  exists n,
    roots_lookup ex_fuel ex_host_roots m_get (S2B "a.ex.com") (S2B "/u/42/x") false [] [] =
      Found (Some n) false [(S2B "sub", S2B "a"); (S2B "id", S2B "42")] [] /\
    roots_lookup ex_fuel ex_host_roots m_get (S2B "a.ex.com") (S2B "/u/42/x") true [] [] = Found (Some n) false [] [] /\
    exists n',
    roots_lookup ex_fuel ex_host_roots m_get (S2B "a.ex.com") (S2B "/a/42/b") false [] [] =
      Found (Some n') false [(S2B "x", S2B "42")] [] /\
    roots_lookup ex_fuel ex_host_roots m_get (S2B "a.ex.com") (S2B "/a/42/b") true [] [] = Found (Some n') false [] [].
Proof. exact roots_lookup_lazy_irrelevant_ex. Qed.

(* ---- fuel monotonicity ---- *)
Theorem C01_lbp_fuel_mono : forall f k path lazy ph s,
  lbp f path lazy ph s <> LOutOfFuel -> lbp (f + k) path lazy ph s = lbp f path lazy ph s.
Proof. exact lbp_fuel_mono. Qed.
Print Assumptions C01_lbp_fuel_mono.

Theorem C01_lbd_fuel_mono : forall f k host path lazy ph s,
  lbd f host path lazy ph s <> LOutOfFuel -> lbd (f + k) host path lazy ph s = lbd f host path lazy ph s.
Proof. exact lbd_fuel_mono. Qed.
Print Assumptions C01_lbd_fuel_mono.

Theorem C01_roots_lookup_fuel_mono : forall f k r m h p lazy ps0 tps0,
  roots_lookup f r m h p lazy ps0 tps0 <> LOutOfFuel ->
  roots_lookup (f + k) r m h p lazy ps0 tps0 = roots_lookup f r m h p lazy ps0 tps0.
Proof. exact roots_lookup_fuel_mono. Qed.
Print Assumptions C01_roots_lookup_fuel_mono.

Example C01_fuel_mono_ex :
  roots_lookup 60 ex_host_roots m_get (S2B "a.ex.com") (S2B "/u/42/x") false [] [] <> LOutOfFuel /\
  roots_lookup 30 ex_host_roots m_get (S2B "a.ex.com") (S2B "/u/42/x") false [] [] = LOutOfFuel /\
  lbp 60 (S2B "/a/foo/c") false PWalk (init_st ex_path_node [] []) <> LOutOfFuel /\
  lbd 60 (S2B "a.ex.com") (S2B "/u/42/x") false DWalk (init_st ex_host_node [] []) <> LOutOfFuel.
Proof. exact fuel_mono_ex. Qed.

(* ---- the entry points select what Lookup selects (same roots value = router or transaction) ---- *)
Theorem entry_points_agree :
  forall fuel (strip_host_port : bytes -> bytes) (split_host_path : bytes -> bytes * bytes) (ts_opt : route -> bool)
         r method host path pattern tp0 tp1,
    Router_Reverse fuel strip_host_port r method host path tp0 =
      Router_Lookup fuel strip_host_port r method host (or_slash path) tp1 /\
    Txn_Reverse fuel strip_host_port r method host path tp0 = Txn_Lookup fuel strip_host_port r method host (or_slash path) tp1 /\
    ServeHTTP_direct fuel strip_host_port r method host path tp0 =
      direct_only (Router_Lookup fuel strip_host_port r method host path tp1) /\
    Iter_Reverse1 fuel strip_host_port ts_opt r method host path tp0 =
      tsr_opt_only ts_opt (Router_Lookup fuel strip_host_port r method host (or_slash path) tp1) /\
    Router_Route fuel strip_host_port split_host_path r method pattern tp0 =
      pattern_only pattern (Router_Lookup fuel strip_host_port r method
                              (fst (split_host_path pattern)) (snd (split_host_path pattern)) tp1) /\
    Txn_Route fuel strip_host_port split_host_path r method pattern tp0 =
      pattern_only pattern (Txn_Lookup fuel strip_host_port r method
                              (fst (split_host_path pattern)) (snd (split_host_path pattern)) tp1) /\
    Txn_Lookup fuel strip_host_port r method host path tp0 = Router_Lookup fuel strip_host_port r method host path tp1.
Proof. exact entry_points_agree_lemma. Qed.
Print Assumptions entry_points_agree.

Example C01_entry_points_agree_ex :
  exists n,
    Router_Lookup ex_fuel ex_strip ex_host_roots m_get (S2B "a.ex.com") (S2B "/u/42/x") [] = EP (Some (n, false)) /\
    Router_Reverse ex_fuel ex_strip ex_host_roots m_get (S2B "a.ex.com") (S2B "/u/42/x") [] = EP (Some (n, false)) /\
    ServeHTTP_direct ex_fuel ex_strip ex_host_roots m_get (S2B "a.ex.com") (S2B "/u/42/x") [] = EP (Some (n, false)) /\
    Iter_Reverse1 ex_fuel ex_strip (fun _ => false) ex_host_roots m_get (S2B "a.ex.com") (S2B "/u/42/x") [] = EP (Some (n, false)) /\
    nroute n = Some {| rpat := S2B "{sub}.ex.com/u/{id}/x"; rid := 6 |} /\
    exists n',
    Router_Route ex_fuel ex_strip ex_split ex_host_roots m_get (S2B "{sub}.ex.com/u/{id}/x") [] = EP (Some (n', false)) /\
    nroute n' = nroute n.
Proof. exact entry_points_agree_ex. Qed.

(* ---- Router.Reverse and Txn.Reverse are the same function of the roots value (both default "" to "/":
        fix f49b881; the witness below is the regression case of that fix) ---- *)
Theorem C01_Router_Txn_Reverse_eq : forall fuel shp r m h p tp0,
  Router_Reverse fuel shp r m h p tp0 = Txn_Reverse fuel shp r m h p tp0.
Proof. exact Router_Txn_Reverse_eq. Qed.
Print Assumptions C01_Router_Txn_Reverse_eq.

Theorem C01_Router_Txn_Reverse_nonempty : forall fuel shp r m h p tp0, p <> [] ->
  Router_Reverse fuel shp r m h p tp0 = Txn_Reverse fuel shp r m h p tp0.
Proof. exact Router_Txn_Reverse_nonempty. Qed.
Print Assumptions C01_Router_Txn_Reverse_nonempty.

Theorem C01_Txn_Reverse_empty_path_agrees :
  exists r m h n,
    Router_Reverse ex_fuel ex_strip r m h [] [] = EP (Some (n, false)) /\
    Txn_Reverse ex_fuel ex_strip r m h [] [] = EP (Some (n, false)).
Proof. exact Txn_Reverse_empty_path_agrees. Qed.
Print Assumptions C01_Txn_Reverse_empty_path_agrees.
