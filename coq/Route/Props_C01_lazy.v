(* Props_C01_lazy — property theorems of the proof agent owning this topic: only Theorem ... exact ... Qed. Print Assumptions. *)
From FoxBase Require Import Bytes.
