(* Facts about the specification S alone. *)
From FoxBase Require Import Bytes.
From FoxRoute Require Import Spec.
Open Scope char_scope.

Definition pats_of (cs : list cand) : list bytes := map pat cs.

Lemma adv_static_sub c cs p : In p (pats_of (adv_static c cs)) -> In p (pats_of cs).
Proof.
  unfold pats_of, adv_static. induction cs as [|k cs IH]; simpl; [tauto|].
  rewrite map_app, in_app_iff. intros [H|H]; [|right; auto].
  left. destruct (toks k) as [|[d| |] t]; simpl in H; try tauto.
  destruct (Ascii.eqb c d); simpl in H; tauto.
Qed.

Lemma adv_param_sub cs p : In p (pats_of (adv_param cs)) -> In p (pats_of cs).
Proof.
  unfold pats_of, adv_param. induction cs as [|k cs IH]; simpl; [tauto|].
  rewrite map_app, in_app_iff. intros [H|H]; [|right; auto].
  left. destruct (toks k) as [|[d|n|n] t]; simpl in H; tauto.
Qed.

Lemma adv_catch_sub cs p : In p (pats_of (adv_catch cs)) -> In p (pats_of cs).
Proof.
  unfold pats_of, adv_catch. induction cs as [|k cs IH]; simpl; [tauto|].
  rewrite map_app, in_app_iff. intros [H|H]; [|right; auto].
  left. destruct (toks k) as [|[d|n|n] t]; simpl in H; tauto.
Qed.

Lemma leaf_sub cs p : leaf cs = Some p -> In p (pats_of cs).
Proof.
  unfold leaf. destruct (filter _ cs) as [|k r] eqn:E; [discriminate|].
  intros [= <-]. assert (In k (filter (fun k => match toks k with [] => true | _ => false end) cs)) as H
    by (rewrite E; left; reflexivity).
  apply filter_In in H. destruct H as [H _]. unfold pats_of. apply in_map. exact H.
Qed.

Lemma try_splits_ind {A} (P : A -> Prop) k : forall i s (f : bytes -> bytes -> option A) x,
  (forall v rest y, f v rest = Some y -> P y) ->
  try_splits k i s f = Some x -> P x.
Proof.
  induction k as [|k IH]; intros i s f x Hf; simpl; [discriminate|].
  unfold orelse. destruct (if split_ok s i then f (firstn i s) (skipn i s) else None) as [y|] eqn:E.
  - intros [= ->]. destruct (split_ok s i); [|discriminate]. eapply Hf; eauto.
  - apply IH; exact Hf.
Qed.

(* the selected pattern is one of the candidates: routing never invents a route *)
Lemma select_registered fuel : forall cs s h vals p vs,
  select fuel cs s h vals = Some (p, vs) -> In p (pats_of cs).
Proof.
  induction fuel as [|fuel IH]; intros cs s h vals p vs; [discriminate|].
  cbn [select]. destruct s as [|c r].
  - destruct (leaf cs) eqn:E; [|discriminate]. intros [= <- _]. apply leaf_sub; exact E.
  - unfold orelse at 1.
    match goal with |- match ?e with Some _ => _ | None => _ end = _ -> _ => destruct e as [x|] eqn:E1 end.
    { intros [= ->]. destruct (Ascii.eqb c "{" || Ascii.eqb c "*"); [discriminate|].
      destruct (adv_static c cs) eqn:E; [discriminate|]. rewrite <- E in E1.
      apply IH in E1. eapply adv_static_sub; eauto. }
    unfold orelse at 1.
    match goal with |- match ?e with Some _ => _ | None => _ end = _ -> _ => destruct e as [x|] eqn:E2 end.
    { intros [= ->]. destruct (adv_param cs) eqn:E; [discriminate|]. rewrite <- E in E2.
      match type of E2 with match ?v with [] => None | _ => _ end = _ => destruct v; [discriminate|] end.
      apply IH in E2. eapply adv_param_sub; eauto. }
    destruct (negb (Nat.eqb h 0)); [discriminate|].
    destruct (adv_catch cs) eqn:E; [discriminate|]. rewrite <- E.
    intros H.
    refine (try_splits_ind (fun y => In (fst y) (pats_of cs)) _ _ _ _ (p, vs) _ H).
    intros v rest [p' vs'] Hy. cbn [fst]. apply IH in Hy. eapply adv_catch_sub; eauto.
Qed.

Lemma pats_of_mk l : pats_of (map mk_cand l) = l.
Proof. unfold pats_of. rewrite map_map. simpl. apply map_id. Qed.

Lemma select_in_registered pats host path hm p vs :
  select_in pats host path hm = Some (p, vs) -> In p pats.
Proof.
  unfold select_in. intros H.
  assert (In p (filter (fun p => if hm then negb (is_path_pattern p) else is_path_pattern p) pats)) as Hin.
  { rewrite <- pats_of_mk. destruct hm.
    - destruct host; [discriminate|]. eapply select_registered; eauto.
    - eapply select_registered; eauto. }
  apply filter_In in Hin. tauto.
Qed.

Lemma select_tsr_in_registered pats host path hm p vs :
  select_tsr_in pats host path hm = Some (p, vs) -> In p pats.
Proof.
  unfold select_tsr_in. destruct path as [|c [|c' r]]; try discriminate.
  destruct (ends_with_slash (c :: c' :: r)); intros H; apply select_in_registered in H; auto.
  apply filter_In in H; tauto.
Qed.

(* whatever the specification answers, the route is one of the registered patterns *)
Theorem spec_lookup_registered pats host path p ps :
  spec_lookup pats host path = SDirect p ps \/ spec_lookup pats host path = STsr p ps -> In p pats.
Proof.
  unfold spec_lookup.
  set (hr := negb (is_nil (filter (fun p => negb (is_path_pattern p)) pats)) && negb (is_nil host)).
  destruct hr.
  - destruct (select_in pats host path true) as [[q vs]|] eqn:E1.
    { simpl. intros [H|H]; inversion H; subst. eapply select_in_registered; eauto. }
    destruct (select_tsr_in pats host path true) as [[q vs]|] eqn:E2.
    { simpl. intros [H|H]; inversion H; subst. eapply select_tsr_in_registered; eauto. }
    destruct (select_in pats host path false) as [[q vs]|] eqn:E3.
    { simpl. intros [H|H]; inversion H; subst. eapply select_in_registered; eauto. }
    destruct (select_tsr_in pats host path false) as [[q vs]|] eqn:E4.
    { simpl. intros [H|H]; inversion H; subst. eapply select_tsr_in_registered; eauto. }
    intros [H|H]; discriminate.
  - destruct (select_in pats host path false) as [[q vs]|] eqn:E3.
    { simpl. intros [H|H]; inversion H; subst. eapply select_in_registered; eauto. }
    destruct (select_tsr_in pats host path false) as [[q vs]|] eqn:E4.
    { simpl. intros [H|H]; inversion H; subst. eapply select_tsr_in_registered; eauto. }
    intros [H|H]; discriminate.
Qed.
