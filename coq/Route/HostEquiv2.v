(* HostEquiv2 — C09 / C01 stage 5: M2h (the structural DFS over the host part, HostEquiv.v) = S
   (Spec.select in hostname mode), then M1 = S for the hostname pass (direct matches, route and
   parameter values) and the lifting to roots_lookup / spec_lookup.
   Owner: proof agent p-host.  Notes: docs/C09_host.md *)
From FoxBase Require Import Bytes.
From FoxRoute Require Import Node Lookup HostPort Spec SpecFacts Tree Corr StaticEquiv StaticEquiv2 HostEquiv.
From FoxRoute Require SpecSound.
Open Scope char_scope.

(* the request path is empty or starts with '/' (an HTTP request path always does) *)
Definition pathok (p : bytes) : bool := match p with [] => true | c :: _ => Ascii.eqb c "/" end.

(* ------------------------------------------------------------------ *)
(* one step of S in hostname mode (host_rem = S hr)                     *)
(* ------------------------------------------------------------------ *)
Lemma hselect_cands_static f d kt r ch c s' hr vals :
  select (S f) (cands (TStatic d :: kt) r ch) (c :: s') (S hr) vals =
  if Ascii.eqb d c && sbyte c then select f (cands kt r ch) s' hr vals else None.
Proof.
  cbn [select]. rewrite adv_param_cands_static, adv_static_cands_static.
  cbn [Nat.eqb negb pred]. unfold orelse. rewrite (Ascii.eqb_sym d c).
  destruct (sbyte c) eqn:Es.
  - destruct (sbyte_split c Es) as [-> ->]. cbn [orb]. rewrite andb_true_r.
    destruct (Ascii.eqb c d); [|reflexivity].
    rewrite match_nil_select. destruct (select f (cands kt r ch) s' hr vals); reflexivity.
  - rewrite (sbyte_false c Es). rewrite andb_false_r. reflexivity.
Qed.

Lemma hselect_cands_param f nm kt r ch c s' hr vals :
  select (S f) (cands (TParam nm :: kt) r ch) (c :: s') (S hr) vals =
  match seg is_dot (firstn (S hr) (c :: s')) with
  | [] => None
  | v => select f (cands kt r ch) (skipn (List.length v) (c :: s')) (S hr - List.length v) (v :: vals)
  end.
Proof.
  cbn [select]. rewrite adv_param_cands_param, adv_static_cands_param.
  cbn [Nat.eqb negb]. unfold orelse.
  assert ((if Ascii.eqb c "{" || Ascii.eqb c "*" then None else @None (bytes * list bytes)) = None) as ->
    by (destruct (Ascii.eqb c "{" || Ascii.eqb c "*"); reflexivity).
  change (fun x : ascii => Ascii.eqb x ".") with is_dot.
  destruct (cands kt r ch) as [|k0 l] eqn:E.
  - destruct (seg is_dot (firstn (S hr) (c :: s'))); [reflexivity|]. rewrite select_nil. reflexivity.
  - rewrite <- E. destruct (seg is_dot (firstn (S hr) (c :: s'))) as [|v0 v]; [reflexivity|].
    destruct (select f (cands kt r ch) _ _ _); reflexivity.
Qed.

Lemma hselect_below pre f r ch c s' hr vals :
  NoDup (heads ch) -> (forall x, In x ch -> pwf pre x) ->
  select (S f) (below r ch) (c :: s') (S hr) vals =
  orelse (if sbyte c then
            match first_child c ch with Some x => select f (tl_cands x) s' hr vals | None => None end
          else None)
    (fun _ =>
       match first_child "{" ch with
       | Some y => match seg is_dot (firstn (S hr) (c :: s')) with
                   | [] => None
                   | a :: l => select f (tl_cands y) (skipn (List.length (a :: l)) (c :: s'))
                                 (S hr - List.length (a :: l)) ((a :: l) :: vals)
                   end
       | None => None
       end).
Proof.
  intros Hnd Hch. cbn [select]. cbn [Nat.eqb negb pred].
  destruct (adv_own c r) as (Ho1 & Ho2 & Ho3).
  assert (Hparam : adv_param (below r ch) = match first_child "{" ch with Some y => tl_cands y | None => [] end).
  { unfold below. rewrite adv_param_app, Ho2, adv_param_flat. simpl. apply flat_map_first; auto.
    intros x Hx. eapply adv_param_child; eauto. }
  rewrite Hparam.
  change (fun x : ascii => Ascii.eqb x ".") with is_dot.
  assert (HB : forall X : option (bytes * list bytes),
            orelse X (fun _ =>
              orelse (match match first_child "{" ch with Some y => tl_cands y | None => [] end with
                      | [] => None
                      | c0 :: l =>
                          match seg is_dot (firstn (S hr) (c :: s')) with
                          | [] => None
                          | _ :: _ => select f (c0 :: l) (skipn (List.length (seg is_dot (firstn (S hr) (c :: s')))) (c :: s'))
                                        (S hr - List.length (seg is_dot (firstn (S hr) (c :: s'))))
                                        (seg is_dot (firstn (S hr) (c :: s')) :: vals)
                          end
                      end) (fun _ => None)) =
            orelse X (fun _ =>
              match first_child "{" ch with
              | Some y => match seg is_dot (firstn (S hr) (c :: s')) with
                          | [] => None
                          | a :: l => select f (tl_cands y) (skipn (List.length (a :: l)) (c :: s'))
                                        (S hr - List.length (a :: l)) ((a :: l) :: vals)
                          end
              | None => None
              end)).
  { intros X. unfold orelse. destruct X; [reflexivity|].
    destruct (first_child "{" ch) as [y|]; [|reflexivity].
    destruct (seg is_dot (firstn (S hr) (c :: s'))) as [|a l0].
    - destruct (tl_cands y); reflexivity.
    - destruct (tl_cands y) eqn:E; [rewrite select_nil; reflexivity|].
      destruct (select f (c0 :: l) _ _ _); reflexivity. }
  rewrite HB. clear HB.
  destruct (sbyte c) eqn:Es.
  - destruct (sbyte_split c Es) as [-> ->]. cbn [orb].
    assert (Hstatic : adv_static c (below r ch) = match first_child c ch with Some x => tl_cands x | None => [] end).
    { unfold below. rewrite adv_static_app, Ho1, adv_static_flat. simpl. apply flat_map_first; auto.
      intros x Hx. eapply adv_static_child; eauto. }
    rewrite Hstatic. destruct (first_child c ch) as [x|]; [|reflexivity].
    rewrite match_nil_select. reflexivity.
  - rewrite (sbyte_false c Es). reflexivity.
Qed.

(* ------------------------------------------------------------------ *)
(* facts about hostname nodes                                           *)
(* ------------------------------------------------------------------ *)
Lemma first_child_none c ch : (forall x, In x ch -> starts_with c (nkey x) = false) -> first_child c ch = None.
Proof.
  induction ch as [|x ch IH]; intros H; simpl; auto.
  rewrite (H x (or_introl eq_refl)). apply IH. intros y Hy. apply H. right; exact Hy.
Qed.

Lemma host_key_first pre x : pwf pre x -> hostb x = true ->
  exists t kt, tokenize (nkey x) = t :: kt /\ nkey x = render (t :: kt) /\ htok_ok t = true /\ forallb htok_ok kt = true.
Proof.
  intros Hwf Hhb. destruct (pwf_tokens _ _ Hwf) as (t & kt & Ht & Hk & _).
  destruct x as [k r ch]. destruct (hostb_inv _ _ _ Hhb) as (_ & Hh & _). cbn [nkey] in *.
  rewrite Ht in Hh. cbn [forallb] in Hh. apply andb_prop in Hh. exists t, kt. tauto.
Qed.

Lemma host_key_nostar pre x : pwf pre x -> hostb x = true -> starts_with "*" (nkey x) = false.
Proof.
  intros Hwf Hhb. destruct (host_key_first _ _ Hwf Hhb) as (t & kt & _ & Hk & Ht & _). rewrite Hk.
  destruct t as [d|nm|nm]; [| reflexivity | discriminate].
  simpl in Ht. apply andb_prop in Ht. destruct Ht as [Ht _]. destruct (sbyte_split d Ht) as [_ H2].
  change (render (TStatic d :: kt)) with (d :: render kt). exact H2.
Qed.

Lemma host_key_noslash pre x : pwf pre x -> hostb x = true -> starts_with "/" (nkey x) = false.
Proof.
  intros Hwf Hhb. destruct (host_key_first _ _ Hwf Hhb) as (t & kt & _ & Hk & Ht & _). rewrite Hk.
  destruct t as [d|nm|nm]; [| reflexivity | discriminate].
  simpl in Ht. apply andb_prop in Ht. destruct Ht as [_ Ht]. apply negb_true_iff in Ht.
  change (render (TStatic d :: kt)) with (d :: render kt). exact Ht.
Qed.

Lemma sbyte_false_cases c : sbyte c = false -> c = "{" \/ c = "*".
Proof.
  unfold sbyte. destruct (Ascii.eqb_spec c "{") as [->|H1]; [auto|].
  destruct (Ascii.eqb_spec c "*") as [->|H2]; [auto|]. discriminate.
Qed.

Lemma plain_child k r ch x : plain (Node k r ch) = true -> In x ch -> plain x = true.
Proof.
  cbn [plain]. intros H Hx. apply andb_prop in H. destruct H as [_ H]. rewrite forallb_forall in H. auto.
Qed.

Lemma plain_toks x : plain x = true -> forallb ptok_ok (tokenize (nkey x)) = true.
Proof. destruct x as [k r ch]. cbn [plain nkey]. intros H. apply andb_prop in H. tauto. Qed.

(* the "/"-child below a hostname node (or below the method root): S in path mode = M2 *)
Lemma path_child_select pre x path f vals :
  pwf pre x -> starts_with "/" (nkey x) = true -> okpath path = true \/ plain x = true ->
  forall p', path = "/" :: p' -> List.length p' + 1 < f ->
  select f (tl_cands x) p' 0 vals = res_of vals (m2 x path).
Proof.
  intros Hwf Hsl Hside p' -> Hf.
  destruct (pwf_tokens _ _ Hwf) as (t & kt & Htk & Hk & Hok).
  rewrite m2_km, Htk. unfold tl_cands. rewrite Htk. simpl tl.
  rewrite Hk in Hsl. destruct t as [d|nm|nm]; try (simpl in Hsl; discriminate).
  change (render (TStatic d :: kt)) with (d :: render kt) in Hsl. cbn [starts_with] in Hsl.
  apply Ascii.eqb_eq in Hsl. subst d.
  destruct (kt_ok_cons _ _ _ Hok) as [[_ Hok']|(nm & Hbad & _)]; [|discriminate].
  cbn [km]. cbn [Ascii.eqb Bool.eqb andb]. change (sbyte "/") with true. cbn [andb].
  apply (km_select x pre Hwf kt f p' vals Hok' Hf).
  destruct Hside as [H|H]; [left; eapply okpath_tl; eauto|right]. split; [exact H|].
  pose proof (plain_toks x H) as Hp. rewrite Htk in Hp. cbn [forallb] in Hp. apply andb_prop in Hp. tauto.
Qed.

(* ------------------------------------------------------------------ *)
(* M2h = S on the candidates below a hostname node                      *)
(* ------------------------------------------------------------------ *)
Lemma skipn_app_le {A} (h p : list A) j : j <= List.length h -> skipn j (h ++ p) = skipn j h ++ p.
Proof.
  intros H. rewrite skipn_app. replace (j - List.length h) with 0 by lia. reflexivity.
Qed.

Lemma hkm_select path : pathok path = true -> forall n pre, pwf pre n -> hostb n = true ->
  okpath path = true \/ plain n = true ->
  forall kt fuel h vals, forallb htok_ok kt = true -> nohslash h -> List.length (h ++ path) + 1 < fuel ->
  select fuel (cands kt (nroute n) (nchildren n)) (h ++ path) (List.length h) vals =
  res_of vals (kh (Khof path n) kt h).
Proof.
  intros Hpo. induction n as [k r ch IH] using node_ind'. intros pre Hwf Hhb Hside.
  pose proof (pwf_inv _ _ _ _ Hwf) as (kt0 & Hne0 & Hk0 & Hok0 & Hr & Hnd & Hch).
  destruct (hostb_inv _ _ _ Hhb) as (Hrn & Hht & Hsplit).
  rewrite Forall_forall in IH, Hch. cbn [nroute nchildren]. subst r.
  set (n := Node k None ch) in *.
  assert (Hside_child : forall x, In x ch -> okpath path = true \/ plain x = true).
  { intros x Hx. destruct Hside as [H|H]; [left; exact H|right]. eapply plain_child; eauto. }
  assert (Hnostar : first_child "*" ch = None).
  { apply first_child_none. intros x Hx. destruct (Hsplit x Hx) as [H|H].
    - apply starts_with_hd in H. destruct (starts_with "*" (nkey x)) eqn:E; auto. apply starts_with_hd in E. congruence.
    - eapply host_key_nostar; eauto. }
  induction kt as [|t kt IHkt]; intros fuel h vals Hokt Hns Hf.
  - (* the key is consumed *)
    rewrite cands_nil. cbn [kh]. destruct fuel as [|f]; [lia|].
    destruct h as [|c h'].
    + (* the host is consumed: the path, below the "/" child *)
      cbn [app List.length Khof]. unfold n at 1. cbn [nchildren].
      destruct path as [|pc p'].
      * cbn [select]. unfold below. simpl own. simpl app. rewrite leaf_none.
        -- destruct (first_child "/" ch) as [c0|] eqn:E0; [|reflexivity].
           apply first_child_in in E0. destruct E0 as [Hin0 _].
           destruct c0 as [k1 r1 ch1]. pose proof (pwf_inv _ _ _ _ (Hch _ Hin0)) as (kt1 & Hne1 & Hk1 & Hok1 & _).
           rewrite (m2_nil_path k1 r1 ch1 kt1 Hk1 Hne1 (kt_ok_tok _ _ Hok1)). reflexivity.
        -- intros k1 Hk1. apply in_flat_map in Hk1. destruct Hk1 as (x & Hx & Hk1).
           apply (cands_of_toks (pre ++ k) x k1 (Hch x Hx) Hk1).
      * simpl in Hpo. apply Ascii.eqb_eq in Hpo. subst pc.
        rewrite (select_below (pre ++ k)) by auto. change (sbyte "/") with true. cbv iota.
        rewrite Hnostar.
        assert (Hpar : match first_child "{" ch with
                       | Some y => match seg is_slash ("/" :: p') with
                                   | [] => None
                                   | a :: l => select f (tl_cands y) (skipn (List.length (a :: l)) ("/" :: p')) 0 ((a :: l) :: vals)
                                   end
                       | None => None
                       end = None).
        { destruct (first_child "{" ch); reflexivity. }
        rewrite Hpar. unfold orelse.
        destruct (first_child "/" ch) as [c0|] eqn:E0.
        -- apply first_child_in in E0. destruct E0 as [Hin0 Hsl0].
           rewrite (path_child_select (pre ++ k) c0 ("/" :: p') f vals (Hch c0 Hin0) Hsl0 (Hside_child c0 Hin0) p' eq_refl)
             by (simpl in Hf; lia).
           destruct (res_of vals (m2 c0 ("/" :: p'))); reflexivity.
        -- reflexivity.
    + (* the host continues: children, in the order static, parameter *)
      assert (Hc : c <> "/") by (apply Hns; left; reflexivity).
      change ((c :: h') ++ path) with (c :: (h' ++ path)). cbn [List.length].
      rewrite (hselect_below (pre ++ k) f None ch c (h' ++ path) (List.length h') vals Hnd Hch).
      cbn [Khof]. unfold n at 1 2. cbn [nchildren]. rewrite res_of_alt.
      assert (Hfirstn : firstn (S (List.length h')) (c :: h' ++ path) = c :: h').
      { change (c :: h' ++ path) with ((c :: h') ++ path). change (S (List.length h')) with (List.length (c :: h')).
        apply firstn_app_exact. }
      rewrite Hfirstn.
      assert (Hhost : forall cc x, cc <> "/" -> first_child cc ch = Some x -> In x ch /\ starts_with cc (nkey x) = true /\ hostb x = true).
      { intros cc x Hcc Hx. apply first_child_in in Hx. destruct Hx as [Hin Hsw]. repeat split; auto.
        destruct (Hsplit x Hin) as [H|H]; auto. apply starts_with_hd in H, Hsw. congruence. }
      assert (Hstat : forall x, first_child c ch = Some x -> sbyte c = true ->
                select f (tl_cands x) (h' ++ path) (List.length h') vals = res_of vals (m2h path x (c :: h'))).
      { intros x Hx Hcs. destruct (Hhost c x Hc Hx) as (Hinx & Hsw & Hxb).
        destruct (host_key_first _ _ (Hch x Hinx) Hxb) as (t & kt' & Htk & Hkx & Htok & Hkt').
        rewrite m2h_kh, Htk. unfold tl_cands. rewrite Htk. simpl tl.
        rewrite Hkx in Hsw. destruct (sbyte_split c Hcs) as [Hc1 Hc2].
        destruct t as [d|nm|nm]; [| |discriminate].
        - change (render (TStatic d :: kt')) with (d :: render kt') in Hsw. cbn [starts_with] in Hsw.
          apply Ascii.eqb_eq in Hsw. subst d.
          cbn [kh]. rewrite Ascii.eqb_refl, Hcs. cbn [andb].
          apply (IH x Hinx (pre ++ k) (Hch x Hinx) Hxb (Hside_child x Hinx) kt' f h' vals Hkt' (nohslash_tl _ _ Hns)).
          simpl in Hf. lia.
        - change (render (TParam nm :: kt')) with ("{" :: (nm ++ ["}"]) ++ render kt') in Hsw. cbn [starts_with] in Hsw.
          apply Ascii.eqb_eq in Hsw. subst c. discriminate. }
      assert (Hpar : match first_child "{" ch with
                     | Some y => match seg is_dot (c :: h') with
                                 | [] => None
                                 | a :: l => select f (tl_cands y) (skipn (List.length (a :: l)) (c :: h' ++ path))
                                               (S (List.length h') - List.length (a :: l)) ((a :: l) :: vals)
                                 end
                     | None => None
                     end = res_of vals (m2h_child path "{" ch (c :: h'))).
      { unfold m2h_child. destruct (first_child "{" ch) as [y|] eqn:Ey; [|reflexivity].
        destruct (Hhost "{" y ltac:(discriminate) Ey) as (Hiny & Hsw & Hyb).
        destruct (host_key_first _ _ (Hch y Hiny) Hyb) as (t & kt' & Htk & Hky & Htok & Hkt').
        rewrite m2h_kh, Htk. unfold tl_cands. rewrite Htk. simpl tl.
        rewrite Hky in Hsw. destruct t as [d|nm|nm]; [| |discriminate].
        - change (render (TStatic d :: kt')) with (d :: render kt') in Hsw. cbn [starts_with] in Hsw.
          apply Ascii.eqb_eq in Hsw. subst d. simpl in Htok. discriminate.
        - cbn [kh].
          destruct (seg is_dot (c :: h')) as [|v0 vv] eqn:Ev; [reflexivity|]. set (v := v0 :: vv) in *.
          rewrite res_of_with_vals.
          assert (Hvl : List.length v <= List.length (c :: h')) by (rewrite <- Ev; apply SpecSound.seg_length).
          change (c :: h' ++ path) with ((c :: h') ++ path). rewrite (skipn_app_le (c :: h') path _ Hvl).
          replace (S (List.length h') - List.length v) with (List.length (skipn (List.length v) (c :: h')))
            by (rewrite skipn_length; reflexivity).
          apply (IH y Hiny (pre ++ k) (Hch y Hiny) Hyb (Hside_child y Hiny) kt' f _ (v :: vals) Hkt'
                    (nohslash_skipn _ _ Hns)).
          rewrite app_length, skipn_length. rewrite app_length in Hf. unfold v. simpl in Hf |- *. lia. }
      rewrite Hpar. unfold orelse.
      destruct (sbyte c) eqn:Es.
      * assert (Hs : match first_child c ch with
                     | Some x => select f (tl_cands x) (h' ++ path) (List.length h') vals
                     | None => None
                     end = res_of vals (m2h_child path c ch (c :: h'))).
        { unfold m2h_child. destruct (first_child c ch) as [x|] eqn:Ex; [apply Hstat; auto|reflexivity]. }
        rewrite Hs. reflexivity.
      * destruct (sbyte_false_cases c Es) as [-> | ->].
        -- destruct (res_of vals (m2h_child path "{" ch ("{" :: h'))); reflexivity.
        -- assert (m2h_child path "*" ch ("*" :: h') = None) as -> by (unfold m2h_child; rewrite Hnostar; reflexivity).
           reflexivity.
  - (* a token of the key *)
    cbn [forallb] in Hokt. apply andb_prop in Hokt. destruct Hokt as [Hokt1 Hokt2].
    destruct fuel as [|f]; [lia|].
    destruct h as [|c h'].
    + (* host exhausted inside a key *)
      cbn [app List.length kh].
      destruct path as [|pc p']; [apply select_cands_short|].
      simpl in Hpo. apply Ascii.eqb_eq in Hpo. subst pc.
      destruct t as [d|nm|nm]; [| |discriminate].
      * rewrite select_cands_static. simpl in Hokt1. apply andb_prop in Hokt1. destruct Hokt1 as [_ Hd].
        apply negb_true_iff in Hd. rewrite Hd. reflexivity.
      * rewrite select_cands_param. reflexivity.
    + change ((c :: h') ++ path) with (c :: (h' ++ path)). cbn [List.length].
      destruct t as [d|nm|nm]; [| |discriminate].
      * rewrite hselect_cands_static. cbn [kh].
        destruct (Ascii.eqb d c && sbyte c); [|reflexivity].
        apply IHkt; auto. { eapply nohslash_tl; eauto. } simpl in Hf. lia.
      * rewrite hselect_cands_param. cbn [kh].
        assert (Hfirstn : firstn (S (List.length h')) (c :: h' ++ path) = c :: h').
        { change (c :: h' ++ path) with ((c :: h') ++ path). change (S (List.length h')) with (List.length (c :: h')).
          apply firstn_app_exact. }
        rewrite Hfirstn.
        destruct (seg is_dot (c :: h')) as [|v0 vv] eqn:Ev; [reflexivity|]. set (v := v0 :: vv) in *.
        rewrite res_of_with_vals.
        assert (Hvl : List.length v <= List.length (c :: h')) by (rewrite <- Ev; apply SpecSound.seg_length).
        change (c :: h' ++ path) with ((c :: h') ++ path). rewrite (skipn_app_le (c :: h') path _ Hvl).
        replace (S (List.length h') - List.length v) with (List.length (skipn (List.length v) (c :: h')))
          by (rewrite skipn_length; reflexivity).
        apply IHkt; auto. { apply nohslash_skipn; exact Hns. }
        rewrite app_length, skipn_length. rewrite app_length in Hf. unfold v. simpl in Hf |- *. lia.
Qed.

(* ------------------------------------------------------------------ *)
(* the children of the method root                                      *)
(* ------------------------------------------------------------------ *)
Lemma hbelow_select path pre ch f c h' vals :
  pathok path = true -> NoDup (heads ch) ->
  (forall x, In x ch -> pwf pre x /\ (starts_with "/" (nkey x) = true \/ hostb x = true) /\
                        (okpath path = true \/ plain x = true)) ->
  nohslash (c :: h') -> List.length ((c :: h') ++ path) + 1 < S f ->
  select (S f) (below None ch) (c :: h' ++ path) (S (List.length h')) vals =
  res_of vals (alt (m2h_child path c ch (c :: h')) (m2h_child path "{" ch (c :: h'))).
Proof.
  intros Hpo Hnd Hall Hns Hf.
  assert (Hch : forall x, In x ch -> pwf pre x) by (intros x Hx; apply (Hall x Hx)).
  assert (Hnostar : first_child "*" ch = None).
  { apply first_child_none. intros x Hx. destruct (Hall x Hx) as (Hw & [H|H] & _).
    - apply starts_with_hd in H. destruct (starts_with "*" (nkey x)) eqn:E; auto. apply starts_with_hd in E. congruence.
    - eapply host_key_nostar; eauto. }
  assert (Hc : c <> "/") by (apply Hns; left; reflexivity).
  rewrite (hselect_below pre f None ch c (h' ++ path) (List.length h') vals Hnd Hch).
  rewrite res_of_alt.
  assert (Hfirstn : firstn (S (List.length h')) (c :: h' ++ path) = c :: h').
  { change (c :: h' ++ path) with ((c :: h') ++ path). change (S (List.length h')) with (List.length (c :: h')).
    apply firstn_app_exact. }
  rewrite Hfirstn.
  assert (Hhost : forall cc x, cc <> "/" -> first_child cc ch = Some x -> In x ch /\ starts_with cc (nkey x) = true /\ hostb x = true).
  { intros cc x Hcc Hx. apply first_child_in in Hx. destruct Hx as [Hin Hsw]. repeat split; auto.
    destruct (Hall x Hin) as (_ & [H|H] & _); auto. apply starts_with_hd in H, Hsw. congruence. }
  assert (Hstat : forall x, first_child c ch = Some x -> sbyte c = true ->
            select f (tl_cands x) (h' ++ path) (List.length h') vals = res_of vals (m2h path x (c :: h'))).
  { intros x Hx Hcs. destruct (Hhost c x Hc Hx) as (Hinx & Hsw & Hxb).
    destruct (host_key_first _ _ (Hch x Hinx) Hxb) as (t & kt' & Htk & Hkx & Htok & Hkt').
    rewrite m2h_kh, Htk. unfold tl_cands. rewrite Htk. simpl tl.
    rewrite Hkx in Hsw. destruct (sbyte_split c Hcs) as [Hc1 Hc2].
    destruct t as [d|nm|nm]; [| |discriminate].
    - change (render (TStatic d :: kt')) with (d :: render kt') in Hsw. cbn [starts_with] in Hsw.
      apply Ascii.eqb_eq in Hsw. subst d.
      cbn [kh]. rewrite Ascii.eqb_refl, Hcs. cbn [andb].
      destruct (Hall x Hinx) as (_ & _ & Hsd).
      apply (hkm_select path Hpo x pre (Hch x Hinx) Hxb Hsd kt' f h' vals Hkt' (nohslash_tl _ _ Hns)).
      simpl in Hf. lia.
    - change (render (TParam nm :: kt')) with ("{" :: (nm ++ ["}"]) ++ render kt') in Hsw. cbn [starts_with] in Hsw.
      apply Ascii.eqb_eq in Hsw. subst c. discriminate. }
  assert (Hpar : match first_child "{" ch with
                 | Some y => match seg is_dot (c :: h') with
                             | [] => None
                             | a :: l => select f (tl_cands y) (skipn (List.length (a :: l)) (c :: h' ++ path))
                                           (S (List.length h') - List.length (a :: l)) ((a :: l) :: vals)
                             end
                 | None => None
                 end = res_of vals (m2h_child path "{" ch (c :: h'))).
  { unfold m2h_child. destruct (first_child "{" ch) as [y|] eqn:Ey; [|reflexivity].
    destruct (Hhost "{" y ltac:(discriminate) Ey) as (Hiny & Hsw & Hyb).
    destruct (host_key_first _ _ (Hch y Hiny) Hyb) as (t & kt' & Htk & Hky & Htok & Hkt').
    rewrite m2h_kh, Htk. unfold tl_cands. rewrite Htk. simpl tl.
    rewrite Hky in Hsw. destruct t as [d|nm|nm]; [| |discriminate].
    - change (render (TStatic d :: kt')) with (d :: render kt') in Hsw. cbn [starts_with] in Hsw.
      apply Ascii.eqb_eq in Hsw. subst d. simpl in Htok. discriminate.
    - cbn [kh].
      destruct (seg is_dot (c :: h')) as [|v0 vv] eqn:Ev; [reflexivity|]. set (v := v0 :: vv) in *.
      rewrite res_of_with_vals.
      assert (Hvl : List.length v <= List.length (c :: h')) by (rewrite <- Ev; apply SpecSound.seg_length).
      change (c :: h' ++ path) with ((c :: h') ++ path). rewrite (skipn_app_le (c :: h') path _ Hvl).
      replace (S (List.length h') - List.length v) with (List.length (skipn (List.length v) (c :: h')))
        by (rewrite skipn_length; reflexivity).
      destruct (Hall y Hiny) as (_ & _ & Hsd).
      apply (hkm_select path Hpo y pre (Hch y Hiny) Hyb Hsd kt' f _ (v :: vals) Hkt' (nohslash_skipn _ _ Hns)).
      rewrite app_length, skipn_length. rewrite app_length in Hf. unfold v. simpl in Hf |- *. lia. }
  rewrite Hpar. unfold orelse.
  destruct (sbyte c) eqn:Es.
  - assert (Hs : match first_child c ch with
                 | Some x => select f (tl_cands x) (h' ++ path) (List.length h') vals
                 | None => None
                 end = res_of vals (m2h_child path c ch (c :: h'))).
    { unfold m2h_child. destruct (first_child c ch) as [x|] eqn:Ex; [apply Hstat; auto|reflexivity]. }
    rewrite Hs. reflexivity.
  - destruct (sbyte_false_cases c Es) as [-> | ->].
    + destruct (res_of vals (m2h_child path "{" ch ("{" :: h'))); reflexivity.
    + assert (m2h_child path "*" ch ("*" :: h') = None) as -> by (unfold m2h_child; rewrite Hnostar; reflexivity).
      reflexivity.
Qed.

(* the hostname children of the root *)
Definition hostkids (ch : list node) : list node := filter (fun c => negb (starts_with "/" (nkey c))) ch.

Lemma heads_filter_nodup (Q : node -> bool) : forall ch, NoDup (heads ch) -> NoDup (heads (filter Q ch)).
Proof.
  induction ch as [|x ch IH]; intros H; simpl; [constructor|].
  inversion H as [|? ? Hni Hnd]; subst. destruct (Q x); simpl; auto.
  constructor; auto. intros Hin. apply Hni. unfold heads in *. apply in_map_iff in Hin.
  destruct Hin as (y & Hy & Hin). apply filter_In in Hin. apply in_map_iff. exists y. tauto.
Qed.

Lemma first_child_hostkids cc ch : cc <> "/" -> first_child cc (hostkids ch) = first_child cc ch.
Proof.
  intros Hcc. induction ch as [|x ch IH]; simpl; auto.
  destruct (starts_with "/" (nkey x)) eqn:E; simpl.
  - destruct (starts_with cc (nkey x)) eqn:E2; auto. apply starts_with_hd in E, E2. congruence.
  - rewrite IH. reflexivity.
Qed.

Lemma filter_flat_map {A B} (P : B -> bool) (Q : A -> bool) (g : A -> list B) l :
  (forall x, In x l -> if Q x then filter P (g x) = g x else filter P (g x) = []) ->
  filter P (flat_map g l) = flat_map g (filter Q l).
Proof.
  induction l as [|x l IH]; intros H; simpl; auto.
  rewrite filter_app, IH by (intros y Hy; apply H; right; exact Hy).
  pose proof (H x (or_introl eq_refl)) as Hx. destruct (Q x); simpl; rewrite Hx; reflexivity.
Qed.

Lemma filter_all {A} (P : A -> bool) l : (forall x, In x l -> P x = true) -> filter P l = l.
Proof.
  induction l as [|x l IH]; intros H; simpl; auto. rewrite (H x (or_introl eq_refl)), IH; auto.
  intros y Hy. apply H. right; exact Hy.
Qed.
Lemma filter_none {A} (P : A -> bool) l : (forall x, In x l -> P x = false) -> filter P l = [].
Proof.
  induction l as [|x l IH]; intros H; simpl; auto. rewrite (H x (or_introl eq_refl)), IH; auto.
  intros y Hy. apply H. right; exact Hy.
Qed.

Lemma pwf_pattern_kind x : pwf [] x -> forall rt, In rt (routes_s x) ->
  is_path_pattern (rpat rt) = starts_with "/" (nkey x).
Proof.
  intros Hwf rt Hin. destruct (pwf_routes_prefix x [] rt Hwf Hin) as [q Hq]. rewrite Hq. simpl.
  destruct (pwf_tokens _ _ Hwf) as (t & kt & _ & Hk & _).
  destruct (nkey x) as [|d kk] eqn:E.
  - symmetry in Hk. apply render_nil in Hk. discriminate.
  - simpl. destruct (Ascii.eqb_spec d "/") as [->|Hn]; [reflexivity|].
    destruct d as [[] [] [] [] [] [] [] []]; try reflexivity. exfalso; apply Hn; reflexivity.
Qed.

(* the candidates S starts from in hostname mode = the candidates below the hostname children *)
Lemma host_cands root : Forall (pwf []) (nchildren root) -> nroute root = None ->
  map mk_cand (filter (fun p => negb (is_path_pattern p)) (map rpat (routes_s root))) =
  below None (hostkids (nchildren root)).
Proof.
  intros Hpw Hr. destruct root as [k r ch]. cbn [nroute nchildren] in *. subst r. rewrite Forall_forall in Hpw.
  cbn [routes_s]. simpl opt_list. simpl app. unfold below. simpl own. simpl app.
  rewrite (map_flat_map rpat routes_s ch).
  rewrite (filter_flat_map (fun p => negb (is_path_pattern p)) (fun c => negb (starts_with "/" (nkey c)))).
  - fold (hostkids ch). rewrite map_flat_map. apply flat_map_ext_in. intros x Hx.
    apply filter_In in Hx. destruct Hx as [Hx _].
    rewrite (cands_of_routes x [] [] (Hpw x Hx) eq_refl eq_refl).
    rewrite (map_ext _ (fun c => c)) by apply prep_nil. apply map_id.
  - intros x Hx. destruct (starts_with "/" (nkey x)) eqn:E; simpl.
    + apply filter_none. intros p Hp. apply in_map_iff in Hp. destruct Hp as (rt & <- & Hrt).
      rewrite (pwf_pattern_kind x (Hpw x Hx) rt Hrt), E. reflexivity.
    + apply filter_all. intros p Hp. apply in_map_iff in Hp. destruct Hp as (rt & <- & Hrt).
      rewrite (pwf_pattern_kind x (Hpw x Hx) rt Hrt), E. reflexivity.
Qed.

Definition root_side (path : bytes) (root : node) : Prop :=
  okpath path = true \/ forall x, In x (nchildren root) -> plain x = true.

(* M2h = S: hostname mode of the specification on the routes of the method *)
Theorem spec_eq_m2h root host path :
  hroot_ok root -> nroute root = None -> host <> [] -> nohslash host -> pathok path = true ->
  root_side path root ->
  select_in (map rpat (routes_of_node root)) host path true = res_of [] (m2h_root path root host).
Proof.
  intros (Hnd & Hpw & Hsplit) Hr Hne Hns Hpo Hside. unfold select_in.
  rewrite routes_of_node_s, (host_cands root Hpw Hr).
  destruct host as [|c h']; [congruence|].
  unfold m2h_root. set (ch := nchildren root) in *.
  assert (Hc : c <> "/") by (apply Hns; left; reflexivity).
  unfold m2h_child. rewrite <- (first_child_hostkids c ch Hc), <- (first_child_hostkids "{" ch) by discriminate.
  fold (m2h_child path c (hostkids ch) (c :: h')). fold (m2h_child path "{" (hostkids ch) (c :: h')).
  rewrite Forall_forall in Hpw.
  unfold spec_fuel.
  assert (Hfu : exists f, 4 * (List.length (c :: h') + List.length path) + 8 = S f) by (eexists; simpl; reflexivity).
  destruct Hfu as [f Hfu]. rewrite Hfu.
  change ((c :: h') ++ path) with (c :: h' ++ path). change (List.length (c :: h')) with (S (List.length h')).
  apply (hbelow_select path [] (hostkids ch) f c h' []); auto.
  - apply heads_filter_nodup. exact Hnd.
  - intros x Hx. apply filter_In in Hx. destruct Hx as [Hx Hxs]. split; [apply Hpw; exact Hx|]. split.
    + apply Hsplit; exact Hx.
    + destruct Hside as [H|H]; [left; exact H|right; apply H; exact Hx].
  - rewrite app_length. simpl in Hfu |- *. lia.
Qed.

(* ------------------------------------------------------------------ *)
(* M1 = S for the hostname pass (direct matches: route and parameter values) *)
(* ------------------------------------------------------------------ *)
Definition spec_direct_host (pats : list bytes) (host path : bytes) : option (bytes * list kv) :=
  match select_in pats host path true with
  | Some (p, vals) => Some (p, name_values p vals)
  | None => None
  end.

Lemma m2h_root_sound host path root l vals :
  nohslash host -> hroot_ok root -> m2h_root path root host = Some (l, vals) ->
  exists rt ht bt hvals x kvp,
    nroute l = Some rt /\ In rt (flat_map routes_s (nchildren root)) /\
    rpat rt = render ht ++ render bt /\
    forallb htok_ok ht = true /\ forallb tok_ok bt = true /\ (exists q, render bt = "/" :: q) /\
    SpecSound.Matches ht host (List.length host) hvals /\
    List.length hvals = List.length (wildcard_names ht) /\
    starts_with "/" (nkey x) = true /\ pwf (render ht) x /\ m2 x path = Some (l, kvp) /\
    map fst kvp = wildcard_names bt /\
    vals = combine (wildcard_names ht) hvals ++ kvp.
Proof.
  intros Hns (Hnd & Hpw & Hsplit) Em. rewrite Forall_forall in Hpw.
  unfold m2h_root in Em. destruct host as [|h0 hrest]; [discriminate|]. set (host := h0 :: hrest) in *.
  assert (Hh0 : h0 <> "/") by (apply Hns; left; reflexivity).
  assert (exists x0, In x0 (nchildren root) /\ starts_with "/" (nkey x0) = false /\ m2h path x0 host = Some (l, vals))
    as (x0 & Hx0 & Hx0s & Hmx).
  { unfold alt in Em. destruct (m2h_child path h0 (nchildren root) host) as [[l1 v1]|] eqn:E1.
    - inversion Em; subst. apply m2h_child_some in E1. destruct E1 as (x0 & Hx & Hs & Hmx).
      exists x0. splits; auto. apply starts_with_hd in Hs.
      destruct (starts_with "/" (nkey x0)) eqn:E3; auto. apply starts_with_hd in E3. congruence.
    - apply m2h_child_some in Em. destruct Em as (x0 & Hx & Hs & Hmx).
      exists x0. splits; auto. apply starts_with_hd in Hs.
      destruct (starts_with "/" (nkey x0)) eqn:E3; auto. apply starts_with_hd in E3. congruence. }
  assert (Hxb : hostb x0 = true) by (destruct (Hsplit x0 Hx0) as [H|H]; [congruence|exact H]).
  destruct (m2h_sound path x0 [] host l vals (Hpw x0 Hx0) Hxb Hns Hmx)
    as (ht & hvals & x' & kvp & H1 & H2 & H3 & H4 & H5 & H6 & H7 & H8).
  simpl app in H5.
  destruct (m2_sound x' (render ht) path l kvp H5 H7) as (rt & bt & G1 & G2 & G3 & G4 & G5).
  destruct (pwf_routes_prefix x' (render ht) rt H5 G2) as [q Hq].
  exists rt, ht, bt, hvals, x', kvp. splits; auto.
  - apply in_flat_map. exists x0. split; [exact Hx0|]. apply H6. exact G2.
  - rewrite G3 in Hq. apply app_inv_head in Hq.
    destruct (nkey x') as [|d kk]; [discriminate|]. simpl in H4. apply Ascii.eqb_eq in H4. subst d.
    exists (kk ++ q). exact Hq.
Qed.

Lemma map_fst_combine {A B} : forall (a : list A) (b : list B), List.length b = List.length a -> map fst (combine a b) = a.
Proof. induction a as [|x a IH]; intros [|y b] H; simpl in *; try discriminate; auto. f_equal. apply IH. lia. Qed.
Lemma map_snd_combine {A B} : forall (a : list A) (b : list B), List.length b = List.length a -> map snd (combine a b) = b.
Proof. induction a as [|x a IH]; intros [|y b] H; simpl in *; try discriminate; auto. f_equal. apply IH. lia. Qed.
Lemma combine_app_eq {A B} : forall (a a' : list A) (b b' : list B), List.length b = List.length a ->
  combine (a ++ a') (b ++ b') = combine a b ++ combine a' b'.
Proof. induction a as [|x a IH]; intros a' [|y b] b' H; simpl in *; try discriminate; auto. f_equal. apply IH. lia. Qed.

Lemma forallb_htok_tok kt : forallb htok_ok kt = true -> forallb tok_ok kt = true.
Proof. intros H. apply forallb_ptok_tok. apply forallb_htok_ptok. exact H. Qed.

Lemma host_names rt ht bt hvals kvp :
  rpat rt = render ht ++ render bt -> forallb htok_ok ht = true -> forallb tok_ok bt = true ->
  List.length hvals = List.length (wildcard_names ht) -> map fst kvp = wildcard_names bt ->
  name_values (rpat rt) (map snd (combine (wildcard_names ht) hvals ++ kvp)) = combine (wildcard_names ht) hvals ++ kvp.
Proof.
  intros Hp Hh Hb Hl Hn. unfold name_values. rewrite Hp, <- render_app, tokenize_render
    by (rewrite forallb_app, (forallb_htok_tok _ Hh), Hb; reflexivity).
  rewrite wildcard_names_app, map_app, (map_snd_combine _ _ Hl), (combine_app_eq _ _ _ _ Hl).
  f_equal. rewrite <- Hn. apply combine_fst_snd.
Qed.

Theorem lbd_eq_spec root host path fuel :
  hroot_ok root -> nroute root = None -> host <> [] -> nohslash host -> pathok path = true ->
  root_side path root -> hroot_fuel path root <= fuel ->
  direct_obs (lookup_by_domain fuel root host path false [] []) =
  spec_direct_host (map rpat (routes_of_node root)) host path.
Proof.
  intros Hroot Hr Hne Hns Hpo Hside Hf. unfold spec_direct_host.
  rewrite (spec_eq_m2h root host path Hroot Hr Hne Hns Hpo Hside).
  pose proof (lbd_eq_m2h host path root false fuel Hns Hroot Hne Hf) as H.
  destruct (m2h_root path root host) as [[l vals]|] eqn:Em.
  - destruct H as (l' & tps' & -> & Hrt).
    destruct (m2h_root_sound host path root l vals Hns Hroot Em)
      as (rt & ht & bt & hvals & x & kvp & G1 & G2 & G3 & G4 & G5 & G6 & G7 & G8 & G9 & G10 & G11 & G12 & G13).
    simpl. unfold lpat. rewrite Hrt, G1. f_equal. f_equal. subst vals. symmetry. apply (host_names rt ht bt hvals kvp); auto.
  - destruct H as (a & b & c & d & -> & Hi). simpl.
    destruct a as [n|]; auto. destruct b; auto. specialize (Hi eq_refl). discriminate.
Qed.

(* with lazy parameter capture the same route is selected *)
Theorem lbd_eq_spec_lazy root host path fuel lazy :
  hroot_ok root -> nroute root = None -> host <> [] -> nohslash host -> pathok path = true ->
  root_side path root -> hroot_fuel path root <= fuel ->
  option_map fst (direct_obs (lookup_by_domain fuel root host path lazy [] [])) =
  option_map fst (spec_direct_host (map rpat (routes_of_node root)) host path).
Proof.
  intros Hroot Hr Hne Hns Hpo Hside Hf. unfold spec_direct_host.
  rewrite (spec_eq_m2h root host path Hroot Hr Hne Hns Hpo Hside).
  pose proof (lbd_eq_m2h host path root lazy fuel Hns Hroot Hne Hf) as H.
  destruct (m2h_root path root host) as [[l vals]|] eqn:Em.
  - destruct H as (l' & tps' & -> & Hrt).
    destruct (m2h_root_sound host path root l vals Hns Hroot Em) as (rt & ht & bt & hvals & x & kvp & G1 & _).
    simpl. unfold lpat. rewrite Hrt, G1. reflexivity.
  - destruct H as (a & b & c & d & -> & Hi). simpl.
    destruct a as [n|]; auto. destruct b; auto. specialize (Hi eq_refl). discriminate.
Qed.

(* ------------------------------------------------------------------ *)
(* the path-only fallback below the method root                          *)
(* ------------------------------------------------------------------ *)
(* StaticEquiv2.lbp_eq_m2 with an arbitrary initial tsr-parameter buffer (the fallback passes the
   buffer of the hostname pass on) *)
Theorem lbp_eq_m2_tps pre t path lazy fuel tps0 : pwf pre t -> m2_fuel path t <= fuel ->
  match m2 t path with
  | Some (l, vals) => found_as (lookup_by_path fuel t path lazy [] tps0) l (addp lazy [] vals)
  | None => nodirect2 (lookup_by_path fuel t path lazy [] tps0)
  end.
Proof.
  intros Hwf Hf. unfold lookup_by_path, m2_fuel in *.
  destruct path as [|c path].
  - destruct t as [k r ch]. pose proof (pwf_inv _ _ _ _ Hwf) as (kt & Hne & Hk & Hok & _).
    rewrite (m2_nil_path k r ch kt Hk Hne (kt_ok_tok _ _ Hok)).
    destruct fuel as [|[|[|f]]]; try lia.
    rewrite walk_ge by (simpl; lia).
    set (s := init_st (Node k r ch) [] tps0).
    destruct (after_fail (S f) [] lazy s) as (s' & -> & Hc & Ht' & _).
    + apply cmn_lt_nofound. change (cmn s) with 0. change (nkey (cur s)) with k. rewrite Hk.
      destruct kt as [|t kt]; [congruence|]. rewrite render_cons_len. pose proof (render_tok_len_pos t). lia.
    + unfold tinv; simpl; auto.
    + destruct Hc as (_ & _ & _ & _ & Hs & _). rewrite back_nil by (rewrite Hs; reflexivity).
      do 4 eexists. split; [reflexivity|exact Ht'].
  - pose proof (walk_m2 (List.length (c :: path)) t pre Hwf lazy (c :: path) fuel (init_st t [] tps0) (Nat.le_refl _) eq_refl) as H.
    simpl cm in H. simpl skipn in H.
    specialize (H ltac:(simpl; lia) eq_refl eq_refl ltac:(unfold tinv; simpl; auto) ltac:(lia)).
    destruct (m2 t (c :: path)) as [[l vals]|]; [exact H|].
    destruct H as (f' & s' & -> & Hf' & Hs & _ & Ht' & _). simpl in Hs.
    destruct f' as [|f']; [lia|]. rewrite back_nil by exact Hs.
    do 4 eexists. split; [reflexivity|exact Ht'].
Qed.

Theorem lbp_param_eq_spec_tps t host path fuel tps0 :
  pwf [] t -> starts_with "/" (nkey t) = true -> m2_fuel path t <= fuel ->
  okpath path = true \/ plain t = true ->
  direct_obs (lookup_by_path fuel t path false [] tps0) = spec_direct (map rpat (routes_of_node t)) host path.
Proof.
  intros Hwf Hsl Hf Hs. unfold spec_direct. rewrite (spec_eq_m2 t host path Hwf Hsl Hs).
  pose proof (lbp_eq_m2_tps [] t path false fuel tps0 Hwf Hf) as H.
  destruct (m2 t path) as [[l kvs]|] eqn:Em.
  - destruct H as (l' & tps' & -> & Hrt). destruct (m2_sound _ _ _ _ _ Hwf Em) as (rt & bt & H1 & H2 & H3 & H4 & H5).
    simpl. unfold lpat. rewrite Hrt, H1. f_equal. f_equal.
    unfold name_values. simpl in H3. rewrite H3, tokenize_render by exact H4. rewrite <- H5. symmetry. apply combine_fst_snd.
  - destruct H as (a & b & c & d & -> & Hi). simpl.
    destruct a as [n|]; auto. destruct b; auto. specialize (Hi eq_refl). discriminate.
Qed.

Lemma filter_slash_first ch : NoDup (heads ch) ->
  filter (fun c => starts_with "/" (nkey c)) ch = match first_child "/" ch with Some c => [c] | None => [] end.
Proof.
  induction ch as [|x ch IH]; intros Hnd; simpl; auto.
  inversion Hnd as [|? ? Hni Hnd']; subst.
  destruct (starts_with "/" (nkey x)) eqn:E.
  - f_equal. apply filter_none. intros y Hy. destruct (starts_with "/" (nkey y)) eqn:Ey; auto.
    exfalso. apply Hni. apply starts_with_hd in E, Ey. rewrite E, <- Ey.
    exact (in_map (fun c0 => hd_byte (nkey c0)) ch y Hy).
  - apply IH; auto.
Qed.

Lemma path_patterns_root root : NoDup (heads (nchildren root)) -> Forall (pwf []) (nchildren root) -> nroute root = None ->
  filter is_path_pattern (map rpat (routes_s root)) =
  match first_child "/" (nchildren root) with Some c => map rpat (routes_s c) | None => [] end.
Proof.
  intros Hnd Hpw Hr. destruct root as [k r ch]. cbn [nroute nchildren] in *. subst r. rewrite Forall_forall in Hpw.
  cbn [routes_s]. simpl opt_list. simpl app.
  rewrite (map_flat_map rpat routes_s ch).
  rewrite (filter_flat_map is_path_pattern (fun c => starts_with "/" (nkey c))).
  - rewrite (filter_slash_first ch Hnd). destruct (first_child "/" ch); simpl; [apply app_nil_r|reflexivity].
  - intros x Hx. destruct (starts_with "/" (nkey x)) eqn:E.
    + apply filter_all. intros p Hp. apply in_map_iff in Hp. destruct Hp as (rt & <- & Hrt).
      rewrite (pwf_pattern_kind x (Hpw x Hx) rt Hrt), E. reflexivity.
    + apply filter_none. intros p Hp. apply in_map_iff in Hp. destruct Hp as (rt & <- & Hrt).
      rewrite (pwf_pattern_kind x (Hpw x Hx) rt Hrt), E. reflexivity.
Qed.

Lemma select_in_path_filter pats host path :
  select_in pats host path false = select_in (filter is_path_pattern pats) host path false.
Proof.
  unfold select_in. f_equal. f_equal. induction pats as [|p pats IH]; simpl; auto.
  destruct (is_path_pattern p) eqn:E; simpl; rewrite ?E; rewrite IH; reflexivity.
Qed.

Definition root_fuel (path : bytes) (root : node) : nat :=
  hroot_fuel path root + pcost_sum (List.length path) (nchildren root) + 8.

Lemma fallback_eq_spec fuel root host path p tp :
  hroot_ok root -> nroute root = None -> root_side path root -> root_fuel path root <= fuel ->
  direct_obs (path_fallback fuel root path false p tp) = spec_direct (map rpat (routes_of_node root)) host path.
Proof.
  intros (Hnd & Hpw & Hsplit) Hr Hside Hf. unfold path_fallback, spec_direct. rewrite get_edge_first.
  rewrite select_in_path_filter, routes_of_node_s, (path_patterns_root root Hnd Hpw Hr).
  rewrite Forall_forall in Hpw.
  destruct (first_child "/" (nchildren root)) as [c|] eqn:Ec.
  - apply first_child_in in Ec. destruct Ec as [Hin Hsl].
    rewrite <- routes_of_node_s.
    assert (Hfc : m2_fuel path c <= fuel).
    { unfold m2_fuel. unfold root_fuel in Hf. pose proof (pcost_in (List.length path) c _ Hin). lia. }
    assert (Hsd : okpath path = true \/ plain c = true) by (destruct Hside as [H|H]; [left; exact H|right; apply H; exact Hin]).
    pose proof (lbp_param_eq_spec_tps c host path fuel tp (Hpw c Hin) Hsl Hfc Hsd) as H.
    unfold spec_direct in H. exact H.
  - simpl. unfold select_in. simpl. rewrite select_nil. reflexivity.
Qed.

(* ------------------------------------------------------------------ *)
(* roots_lookup = spec_lookup (direct outcome) for a method with hostname routes *)
(* ------------------------------------------------------------------ *)
Lemma select_nohost pats host path : filter (fun p => negb (is_path_pattern p)) pats = [] ->
  select_in pats host path true = None.
Proof.
  intros H. unfold select_in. rewrite H. simpl. destruct host; [reflexivity|]. apply select_nil.
Qed.

Lemma filter_filter_nil {A} (P Q : A -> bool) l : filter P l = [] -> filter P (filter Q l) = [].
Proof.
  induction l as [|x l IH]; simpl; auto. destruct (P x) eqn:E; [discriminate|]. intros H.
  destruct (Q x); simpl; rewrite ?E; auto.
Qed.

Lemma select_tsr_nohost pats host path : filter (fun p => negb (is_path_pattern p)) pats = [] ->
  select_tsr_in pats host path true = None.
Proof.
  intros H. unfold select_tsr_in. destruct path as [|a [|b path]]; auto.
  destruct (ends_with_slash (a :: b :: path)).
  - apply select_nohost; exact H.
  - apply select_nohost. apply filter_filter_nil. exact H.
Qed.

(* the missing piece for the full equality: M1 and S agree on WHETHER the hostname pass yields a
   trailing-slash recommendation (that is C08 for hostname trees; not proved here) *)
Definition host_tsr_agree (fuel : nat) (root : node) (host path : bytes) : Prop :=
  forall tn' t p tp, lookup_by_domain fuel root host path false [] [] = Found tn' t p tp ->
    (tn' = None <-> select_tsr_in (map rpat (routes_of_node root)) host path true = None).

Lemma spec_lookup_direct_cases pats host path :
  sres_direct (spec_lookup pats host path) =
  match host with
  | [] => spec_direct pats host path
  | _ => match select_in pats host path true with
         | Some (p, vals) => Some (p, name_values p vals)
         | None => match select_tsr_in pats host path true with
                   | Some _ => None
                   | None => spec_direct pats host path
                   end
         end
  end.
Proof.
  unfold spec_lookup, spec_direct.
  assert (Hpo : sres_direct (match select_in pats host path false with
                             | Some x => mk_res false x
                             | None => match select_tsr_in pats host path false with
                                       | Some x => mk_res true x | None => SNone end
                             end) =
                match select_in pats host path false with Some (p, vals) => Some (p, name_values p vals) | None => None end).
  { destruct (select_in pats host path false) as [[p vals]|]; [reflexivity|].
    destruct (select_tsr_in pats host path false) as [[p vals]|]; reflexivity. }
  destruct host as [|h0 host'].
  - cbn [Spec.is_nil negb andb]. rewrite andb_false_r. exact Hpo.
  - cbn [Spec.is_nil negb]. rewrite andb_true_r.
    destruct (Spec.is_nil (filter (fun p => negb (is_path_pattern p)) pats)) eqn:En.
    + assert (filter (fun p => negb (is_path_pattern p)) pats = []) as Hnil
        by (destruct (filter (fun p => negb (is_path_pattern p)) pats); [reflexivity|discriminate]).
      rewrite (select_nohost pats (h0 :: host') path Hnil), (select_tsr_nohost pats (h0 :: host') path Hnil).
      cbn [negb]. exact Hpo.
    + cbn [negb].
      destruct (select_in pats (h0 :: host') path true) as [[p vals]|]; [reflexivity|].
      destruct (select_tsr_in pats (h0 :: host') path true) as [[p vals]|]; [reflexivity|]. exact Hpo.
Qed.

(* THE one place where the side condition [nohslash host] enters the roots_lookup-level theorem: what
   the hostname pass does on a host without '/'.  (Once roots_lookup guards the hostname pass with
   "the host contains no '/'", the theorem below splits on that test and uses this lemma in the
   guarded branch only.) *)
Lemma host_pass_nohslash root host path fuel :
  hroot_ok root -> nroute root = None -> host <> [] -> nohslash host -> pathok path = true ->
  root_side path root -> hroot_fuel path root <= fuel ->
  direct_obs (lookup_by_domain fuel root host path false [] []) =
    spec_direct_host (map rpat (routes_of_node root)) host path /\
  exists tn' t p tp, lookup_by_domain fuel root host path false [] [] = Found tn' t p tp /\
    (select_in (map rpat (routes_of_node root)) host path true = None -> t = false -> tn' = None).
Proof.
  intros Hroot Hr Hne Hns Hpo Hside Hf.
  pose proof (lbd_eq_spec root host path fuel Hroot Hr Hne Hns Hpo Hside Hf) as Hd.
  split; [exact Hd|].
  pose proof (lbd_eq_m2h host path root false fuel Hns Hroot Hne Hf) as Hshape.
  destruct (m2h_root path root host) as [[l vs]|] eqn:Em.
  - destruct Hshape as (l' & tps' & E & Hrt). do 4 eexists. split; [exact E|]. intros Hsel _. exfalso.
    destruct (m2h_root_sound host path root l vs Hns Hroot Em) as (rt & ht & bt & hvals & x & kvp & G1 & _).
    unfold spec_direct_host in Hd. rewrite Hsel, E in Hd. simpl in Hd. rewrite Hrt, G1 in Hd. discriminate.
  - destruct Hshape as (tn' & t & pp & tp & E & Hi). exists tn', t, pp, tp. split; [exact E|]. intros _. exact Hi.
Qed.

Theorem roots_lookup_host_eq_spec r m i root host path fuel :
  method_index r m = Some i -> nth_error r i = Some root -> nroute root = None ->
  hroot_ok root -> nchildren root <> [] -> shortcut root = false ->
  nohslash host -> pathok path = true -> root_side path root -> root_fuel path root <= fuel ->
  (host <> [] -> select_in (map rpat (routes_of_node root)) host path true = None ->
   host_tsr_agree fuel root host path) ->
  direct_obs (roots_lookup fuel r m host path false [] []) =
  sres_direct (spec_lookup (method_patterns r m) host path).
Proof.
  intros Hm Hn Hr Hroot Hne Hsc Hns Hpo Hside Hf Htsr.
  assert (Hpats : method_patterns r m = map rpat (routes_of_node root)) by (unfold method_patterns; rewrite Hm, Hn; reflexivity).
  rewrite Hpats, spec_lookup_direct_cases.
  assert (Hhf : hroot_fuel path root <= fuel) by (unfold root_fuel in Hf; lia).
  destruct host as [|h0 host'].
  - rewrite (roots_lookup_nohost fuel r m i root path false [] [] Hm Hn Hne Hsc).
    apply fallback_eq_spec; auto.
  - set (host := h0 :: host') in *.
    assert (Hhne : host <> []) by discriminate.
    rewrite (roots_lookup_hostpass fuel r m i root host path false [] [] Hm Hn Hne Hsc Hhne).
    destruct (host_pass_nohslash root host path fuel Hroot Hr Hhne Hns Hpo Hside Hhf)
      as (Hd & tn' & t & pp & tp & E & Hnone).
    unfold spec_direct_host in Hd. rewrite E in Hd |- *.
    destruct (select_in (map rpat (routes_of_node root)) host path true) as [[p vals]|] eqn:Esel.
    + (* the hostname pass matches directly *)
      destruct tn' as [n|]; simpl in Hd; try discriminate.
      destruct t; [discriminate|]. exact Hd.
    + specialize (Htsr Hhne eq_refl). specialize (Hnone eq_refl).
      destruct (Htsr tn' t pp tp E) as [Ha Hb].
      destruct tn' as [n|].
      * destruct t; [|specialize (Hnone eq_refl); discriminate].
        destruct (select_tsr_in (map rpat (routes_of_node root)) host path true) as [x|]; [reflexivity|].
        specialize (Hb eq_refl). discriminate.
      * rewrite (Ha eq_refl). apply fallback_eq_spec; auto.
Qed.
