(* C07 property theorems (orchestrator's file; further theorem files are listed in checks/C07.py). *)
From FoxBase Require Import Bytes.
From FoxRoute Require Import Node Lookup Spec Tree MapSpec CorrHist HistFacts.

(* Routing is a function of the tree value alone (the matcher takes no other
   state), so two routers whose trees are equal route identically; the history
   can matter only through the tree. *)
Theorem C07_routing_depends_only_on_tree : forall r1 r2 fuel m h p lazy,
  r1 = r2 -> roots_lookup fuel r1 m h p lazy [] [] = roots_lookup fuel r2 m h p lazy [] [].
Proof. intros; subst; reflexivity. Qed.
Print Assumptions C07_routing_depends_only_on_tree.
