(* Facts about the history model (CorrHist.hstep) and the map specification. *)
From FoxBase Require Import Bytes.
From FoxRoute Require Import Node Lookup Spec Tree MapSpec CorrHist.

(* a call that does not succeed changes nothing: neither the published state nor
   the open transaction *)
Lemma hstep_failed_unchanged s o s' out rm :
  hstep s o = (s', out, rm) -> out <> OutOk -> s' = s.
Proof.
  unfold hstep. destruct (h_kind o).
  - destruct (_ || _); [intros [= <- <- <-]; auto|].
    destruct (insert _ _ _); intros [= <- <- <-]; auto; congruence.
  - destruct (_ || _); [intros [= <- <- <-]; auto|].
    destruct (update _ _ _); intros [= <- <- <-]; auto; congruence.
  - destruct (_ || _); [intros [= <- <- <-]; auto|].
    destruct (remove _ _ _); intros [= <- <- <-]; auto; congruence.
  - intros [= <- <- <-]; congruence.
  - intros [= <- <- <-]; congruence.
  - intros [= <- <- <-]; congruence.
  - intros [= <- <- <-]; congruence.
Qed.

(* the same holds of the specification map *)
Lemma sstep_failed_unchanged s o s' out rm :
  sstep s o = (s', out, rm) -> out <> MOk -> svisible s' = svisible s.
Proof.
  unfold sstep. destruct (h_kind o).
  - unfold m_handle. destruct (negb _); [intros [= <- <- <-]; destruct s as [p [c|]]; reflexivity|].
    destruct (mfind _ _); [intros [= <- <- <-]; destruct s as [p [c|]]; reflexivity|].
    destruct (conflicts_of _ _ _); intros [= <- <- <-]; [congruence|destruct s as [p [c|]]; reflexivity].
  - unfold m_update. destruct (negb _); [intros [= <- <- <-]; destruct s as [p [c|]]; reflexivity|].
    destruct (mfind _ _); intros [= <- <- <-]; [congruence|destruct s as [p [c|]]; reflexivity].
  - unfold m_delete. destruct (negb _); [intros [= <- <- <-]; destruct s as [p [c|]]; reflexivity|].
    destruct (mfind _ _); intros [= <- <- <-]; [congruence|destruct s as [p [c|]]; reflexivity].
  - intros [= <- <- <-]; congruence.
  - intros [= <- <- <-]; congruence.
  - intros [= <- <- <-]; congruence.
  - intros [= <- <- <-]; congruence.
Qed.
