(* Props_C01_spec — what the executable routing specification S (Spec.v) means.
   Only statements, each closed by [exact] + Print Assumptions; the proofs and the
   non-vacuity Examples (section E of SpecSound2.v: select_sound_ex, Matches_catch_ex,
   Matches_host_ex, Matches_meaning_ex, select_complete_ex, select_none_ex,
   select_priority_ex, exact_static_wins_ex, NoConflict_ex, select_order_independent_ex,
   order_matters_without_NoConflict, spec_lookup_ex, DirectMatch_ex, TsrMatch_ex,
   tsr_literal_ex, spec_lookup_order_independent_ex) are in SpecSound.v / SpecSound2.v.
   Reading guide: docs/C01_spec.md.  [Matches], [trace], [trace_le], [Best], [NoMatch]
   are defined at the top of SpecSound.v; [NoConflict], [DirectMatch], [TsrMatch] in
   SpecSound2.v. *)
From FoxBase Require Import Bytes.
From FoxRoute Require Import Spec SpecFacts SpecSound SpecSound2.
Open Scope char_scope.
Local Notation length := List.length.

(* ---- 1. what a match is: consequences of the declarative relation ---- *)

Theorem S_Matches_length ts s h vals :
  Matches ts s h vals -> length vals = length (wildcard_names ts).
Proof. exact (Matches_length ts s h vals). Qed.
Print Assumptions S_Matches_length.

Theorem S_subst_reproduces ts s h vals : Matches ts s h vals -> subst ts vals = s.
Proof. exact (Matches_subst ts s h vals). Qed.
Print Assumptions S_subst_reproduces.

(* path: {name} values are non-empty without '/', *{name} values are non-empty *)
Theorem S_path_values ts s vals :
  Matches ts s 0 vals -> Forall2 path_val_ok (wilds ts) vals.
Proof. exact (Matches_path_values ts s vals). Qed.
Print Assumptions S_path_values.

(* host: only {name}, each value non-empty without '.' *)
Theorem S_host_values ts s h vals :
  Matches ts s h vals -> h = length s -> no_catch ts /\ Forall host_val_ok vals.
Proof. exact (Matches_host_values ts s h vals). Qed.
Print Assumptions S_host_values.

(* a hostname match consumes the WHOLE host with a prefix of the pattern, the path with the rest *)
Theorem S_host_split ts s h vals :
  Matches ts s h vals ->
  exists ts1 ts2 vals1 vals2,
    ts = ts1 ++ ts2 /\ vals = vals1 ++ vals2 /\
    Matches ts1 (firstn h s) h vals1 /\ Matches ts2 (skipn h s) 0 vals2.
Proof. exact (Matches_host_split ts s h vals). Qed.
Print Assumptions S_host_split.

(* ---- 2. soundness of select (any fuel) ---- *)

Theorem S_select_sound fuel cs s h p vals :
  h <= length s ->
  select fuel cs s h [] = Some (p, vals) ->
  exists k, In k cs /\ pat k = p /\ Matches (toks k) s h vals.
Proof. exact (select_sound fuel cs s h p vals). Qed.
Print Assumptions S_select_sound.

Theorem S_select_sound_pats fuel pats s h p vals :
  h <= length s ->
  select fuel (map mk_cand pats) s h [] = Some (p, vals) ->
  In p pats /\ Matches (tokenize p) s h vals /\
  length vals = length (wildcard_names (tokenize p)) /\
  subst (tokenize p) vals = s.
Proof. exact (select_sound_pats fuel pats s h p vals). Qed.
Print Assumptions S_select_sound_pats.

(* ---- 3. completeness: "no route" only when none matches (fuel > |s| suffices) ---- *)

Theorem S_select_complete fuel cs s h k vals :
  In k cs -> Matches (toks k) s h vals -> length s < fuel ->
  select fuel cs s h [] <> None.
Proof. exact (select_complete fuel cs s h k vals). Qed.
Print Assumptions S_select_complete.

Theorem S_select_none_iff fuel cs s h :
  length s < fuel -> h <= length s ->
  (select fuel cs s h [] = None <-> NoMatch cs s h).
Proof. exact (select_none_iff fuel cs s h). Qed.
Print Assumptions S_select_none_iff.

(* ---- 4. priority: select returns the least match in the lexicographic order
        static < parameter < catch-all (shortest catch-all value first) ---- *)

Theorem S_select_priority fuel cs s h p vals :
  length s < fuel -> h <= length s ->
  select fuel cs s h [] = Some (p, vals) ->
  exists k, pat k = p /\ In k cs /\ Matches (toks k) s h vals /\
    forall k' vals', In k' cs -> Matches (toks k') s h vals' ->
      trace_le (trace (toks k) vals) (trace (toks k') vals').
Proof. exact (select_priority fuel cs s h p vals). Qed.
Print Assumptions S_select_priority.

Theorem S_trace_le_antisym l m : trace_le l m -> trace_le m l -> l = m.
Proof. exact (trace_le_antisym l m). Qed.
Print Assumptions S_trace_le_antisym.

(* (a) at the first position where the selected match and another match act
   differently, the selected one does the preferred thing; in particular it never
   uses a wildcard where the other uses a static byte *)
Theorem S_best_first_difference cs s h k vals k' vals' l a x b y :
  Best cs s h k vals -> In k' cs -> Matches (toks k') s h vals' ->
  trace (toks k) vals = l ++ a :: x -> trace (toks k') vals' = l ++ b :: y ->
  a = b \/ choice_lt a b.
Proof. exact (best_first_difference cs s h k vals k' vals' l a x b y). Qed.
Print Assumptions S_best_first_difference.

Theorem S_wildcard_not_preferred_to_static cs s h k vals k' vals' l a x y :
  Best cs s h k vals -> In k' cs -> Matches (toks k') s h vals' ->
  trace (toks k) vals = l ++ a :: x -> trace (toks k') vals' = l ++ CStatic :: y ->
  a = CStatic.
Proof. exact (wildcard_not_preferred_to_static cs s h k vals k' vals' l a x y). Qed.
Print Assumptions S_wildcard_not_preferred_to_static.

Theorem S_exact_static_wins fuel cs s h k' :
  length s < fuel -> In k' cs -> toks k' = map TStatic s -> Matches (toks k') s h [] ->
  exists k, In k cs /\ toks k = map TStatic s /\ select fuel cs s h [] = Some (pat k, []).
Proof. exact (exact_static_wins fuel cs s h k'). Qed.
Print Assumptions S_exact_static_wins.

(* (b) independence of registration order under the C02 no-conflict invariant *)
Theorem S_select_order_independent fuel1 fuel2 cs1 cs2 s h :
  (forall k, In k cs1 <-> In k cs2) -> NoConflict cs1 ->
  length s < fuel1 -> length s < fuel2 -> h <= length s ->
  select fuel1 cs1 s h [] = select fuel2 cs2 s h [].
Proof. exact (select_order_independent fuel1 fuel2 cs1 cs2 s h). Qed.
Print Assumptions S_select_order_independent.

Theorem S_no_conflict_b_ok cs : no_conflict_b cs = true -> NoConflict cs.
Proof. exact (no_conflict_b_ok cs). Qed.
Print Assumptions S_no_conflict_b_ok.

(* ---- 5. select_in (one mode of one method) ---- *)

Theorem S_select_in_sound pats host path hm p vals :
  select_in pats host path hm = Some (p, vals) -> DirectMatch pats host path hm p vals.
Proof. exact (select_in_sound pats host path hm p vals). Qed.
Print Assumptions S_select_in_sound.

Theorem S_select_in_complete pats host path hm p vals :
  DirectMatch pats host path hm p vals -> select_in pats host path hm <> None.
Proof. exact (select_in_complete pats host path hm p vals). Qed.
Print Assumptions S_select_in_complete.

Theorem S_select_in_none_iff pats host path hm :
  select_in pats host path hm = None <-> NoDirect pats host path hm.
Proof. exact (select_in_none_iff pats host path hm). Qed.
Print Assumptions S_select_in_none_iff.

Theorem S_select_in_priority pats host path hm p vals p' vals' :
  select_in pats host path hm = Some (p, vals) -> DirectMatch pats host path hm p' vals' ->
  trace_le (trace (tokenize p) vals) (trace (tokenize p') vals').
Proof. exact (select_in_priority pats host path hm p vals p' vals'). Qed.
Print Assumptions S_select_in_priority.

Theorem S_select_in_order_independent pats1 pats2 host path hm :
  (forall p, In p pats1 <-> In p pats2) -> NoConflict (map mk_cand pats1) ->
  select_in pats1 host path hm = select_in pats2 host path hm.
Proof. exact (select_in_order_independent pats1 pats2 host path hm). Qed.
Print Assumptions S_select_in_order_independent.

(* the property's clauses for a direct match: registered; names and values in pattern
   order; subst reproduces host ++ path (resp. path); value shapes *)
Theorem S_DirectMatch_meaning pats host path hm p vals :
  DirectMatch pats host path hm p vals ->
  In p pats /\
  map fst (name_values p vals) = wildcard_names (tokenize p) /\
  map snd (name_values p vals) = vals /\
  subst (tokenize p) vals = mode_text host path hm /\
  (hm = false -> Forall2 path_val_ok (wilds (tokenize p)) vals) /\
  (hm = true ->
     exists ts1 ts2 v1 v2, tokenize p = ts1 ++ ts2 /\ vals = v1 ++ v2 /\
       Matches ts1 host (length host) v1 /\ Matches ts2 path 0 v2 /\
       no_catch ts1 /\ Forall host_val_ok v1 /\ Forall2 path_val_ok (wilds ts2) v2).
Proof. exact (DirectMatch_meaning pats host path hm p vals). Qed.
Print Assumptions S_DirectMatch_meaning.

(* ---- 6. select_tsr_in ---- *)

Theorem S_select_tsr_in_sound pats host path hm p vals :
  select_tsr_in pats host path hm = Some (p, vals) -> TsrMatch pats host path hm p vals.
Proof. exact (select_tsr_in_sound pats host path hm p vals). Qed.
Print Assumptions S_select_tsr_in_sound.

Theorem S_select_tsr_in_complete pats host path hm p vals :
  TsrMatch pats host path hm p vals -> select_tsr_in pats host path hm <> None.
Proof. exact (select_tsr_in_complete pats host path hm p vals). Qed.
Print Assumptions S_select_tsr_in_complete.

Theorem S_select_tsr_in_none_iff pats host path hm :
  select_tsr_in pats host path hm = None <-> NoTsr pats host path hm.
Proof. exact (select_tsr_in_none_iff pats host path hm). Qed.
Print Assumptions S_select_tsr_in_none_iff.

Theorem S_select_tsr_in_order_independent pats1 pats2 host path hm :
  (forall p, In p pats1 <-> In p pats2) -> NoConflict (map mk_cand pats1) ->
  select_tsr_in pats1 host path hm = select_tsr_in pats2 host path hm.
Proof. exact (select_tsr_in_order_independent pats1 pats2 host path hm). Qed.
Print Assumptions S_select_tsr_in_order_independent.

(* the added slash is forced onto a literal '/' ending the pattern: the pattern
   without it matches the request as it is *)
Theorem S_tsr_added_slash_is_literal pats host path hm p vals :
  TsrMatch pats host path hm p vals -> ends_with_slash path = false ->
  exists ts, tokenize p = ts ++ [TStatic "/"] /\
             Matches ts (mode_text host path hm) (mode_h host hm) vals.
Proof. exact (tsr_added_slash_is_literal pats host path hm p vals). Qed.
Print Assumptions S_tsr_added_slash_is_literal.

(* ---- 7. spec_lookup: direct(host) > tsr(host) > direct(path-only) > tsr(path-only) ---- *)

Theorem S_spec_lookup_eq pats host path :
  spec_lookup pats host path =
  match select_in pats host path true with Some x => mk_res false x | None =>
  match select_tsr_in pats host path true with Some x => mk_res true x | None =>
  match select_in pats host path false with Some x => mk_res false x | None =>
  match select_tsr_in pats host path false with Some x => mk_res true x | None => SNone
  end end end end.
Proof. exact (spec_lookup_eq pats host path). Qed.
Print Assumptions S_spec_lookup_eq.

Theorem S_spec_lookup_direct pats host path p ps :
  spec_lookup pats host path = SDirect p ps ->
  exists hm vals, ps = name_values p vals /\ DirectMatch pats host path hm p vals /\
    (hm = false -> NoDirect pats host path true /\ NoTsr pats host path true).
Proof. exact (spec_lookup_direct pats host path p ps). Qed.
Print Assumptions S_spec_lookup_direct.

(* a trailing-slash answer only when nothing matches directly (in that mode and in
   every mode tried before it) *)
Theorem S_spec_lookup_tsr pats host path p ps :
  spec_lookup pats host path = STsr p ps ->
  exists hm vals, ps = name_values p vals /\ TsrMatch pats host path hm p vals /\
    NoDirect pats host path hm /\
    (hm = false -> NoDirect pats host path true /\ NoTsr pats host path true).
Proof. exact (spec_lookup_tsr pats host path p ps). Qed.
Print Assumptions S_spec_lookup_tsr.

Theorem S_spec_lookup_none_iff pats host path :
  spec_lookup pats host path = SNone <->
  forall hm, NoDirect pats host path hm /\ NoTsr pats host path hm.
Proof. exact (spec_lookup_none_iff pats host path). Qed.
Print Assumptions S_spec_lookup_none_iff.

Theorem S_spec_lookup_hostname_first pats host path p vals :
  DirectMatch pats host path true p vals ->
  exists p' vals', spec_lookup pats host path = SDirect p' (name_values p' vals') /\
                   DirectMatch pats host path true p' vals'.
Proof. exact (spec_lookup_hostname_first pats host path p vals). Qed.
Print Assumptions S_spec_lookup_hostname_first.

Theorem S_spec_lookup_fallback pats host path p vals :
  NoDirect pats host path true -> NoTsr pats host path true ->
  DirectMatch pats host path false p vals ->
  exists p' vals', spec_lookup pats host path = SDirect p' (name_values p' vals') /\
                   DirectMatch pats host path false p' vals'.
Proof. exact (spec_lookup_fallback pats host path p vals). Qed.
Print Assumptions S_spec_lookup_fallback.

Theorem S_spec_lookup_order_independent pats1 pats2 host path :
  (forall p, In p pats1 <-> In p pats2) -> NoConflict (map mk_cand pats1) ->
  spec_lookup pats1 host path = spec_lookup pats2 host path.
Proof. exact (spec_lookup_order_independent pats1 pats2 host path). Qed.
Print Assumptions S_spec_lookup_order_independent.
