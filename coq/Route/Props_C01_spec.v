(* Props_C01_spec — property theorems of the proof agent owning this topic: only Theorem ... exact ... Qed. Print Assumptions. *)
From FoxBase Require Import Bytes.
