(* BridgeEntry - tie A for C01 (docs/GenC01.md): the hand-written entry-point models of LazyProofs2.v
   (Section EntryPoints) are equal, for all inputs, to the definitions entrygen regenerates from the Go source
   (GenEntry.v), once the oracle e_lookup is instantiated with model M1 (roots_lookup after StripHostPort).
   A lemma that stops compiling names the wrapper whose Go text no longer says what the model says. *)
From FoxBase Require Import Bytes.
From FoxRoute Require Import Node Lookup Tree LazyProofs LazyProofs2 Props_C01_lazy EntrySem GenEntry.
Require Import List Bool.
Import ListNotations.
Open Scope char_scope.

Section Bridge.
  Variable fuel : nat.
  Variable strip : bytes -> bytes.            (* netutil.StripHostPort *)
  Variable split : bytes -> bytes * bytes.    (* SplitHostPath *)
  Variable pool : itree -> cctx.              (* stale pooled contexts *)
  Variable redirect ignore : route -> bool.   (* the two trailing-slash options of a route *)

  (* roots.lookup = M1: the matcher reads the host through StripHostPort and starts from the context's slices *)
  Definition m1_lookup (t : itree) (r : roots) (m hp p : bytes) (c : cctx) (lazy : bool) : lres :=
    roots_lookup fuel r m (strip hp) p lazy (cx_params c) (cx_tsrparams c).
  Definition E : env :=
    {| e_lookup := m1_lookup; e_split := split; e_pool := pool; e_redirect := redirect; e_ignore := ignore |}.
  Definition ts_opt (rt : route) : bool := redirect rt || ignore rt.

  (* the stale tsrParams the hand-written models take as an argument *)
  Definition stale (t : itree) : list kv := cx_tsrparams (pool t).
  (* one Get and one Put on the pool of t *)
  Definition got (t : itree) (pl : list pev) := EvGet (it_pool t) :: pl.
  Definition got_put (t : itree) (pl : list pev) := EvPut (it_pool t) :: EvGet (it_pool t) :: pl.

  (* what the Go caller sees of an epres *)
  Definition view_route (pl : list pev) (e : epres) : gres (option route) :=
    match e with
    | EP (Some (n, _)) => GRet (nroute n) pl | EP None => GRet None pl
    | EPPanic => GPanic | EPOutOfFuel => GOutOfFuel
    end.
  Definition view_reverse (pl : list pev) (e : epres) : gres (option route * bool) :=
    match e with
    | EP (Some (n, t)) => GRet (nroute n, t) pl | EP None => GRet (None, false) pl
    | EPPanic => GPanic | EPOutOfFuel => GOutOfFuel
    end.
  (* Lookup: (route, tsr, (c.route, c.tsr) of the returned context); a match keeps the context (no Put) *)
  Definition view_lookup (t : itree) (pl : list pev) (e : epres) : gres (option route * bool * option (option route * bool)) :=
    match e with
    | EP (Some (n, ts)) => GRet (nroute n, ts, Some (nroute n, ts)) (got t pl)
    | EP None => GRet (None, false, None) (got_put t pl)
    | EPPanic => GPanic | EPOutOfFuel => GOutOfFuel
    end.
  (* the hand-written lookup_ep drops the tsr value returned together with a nil route (docs/C01_lazy.md) *)
  Definition lookup_obs (g : gres (option route * option cctx * bool)) : gres (option route * bool * option (option route * bool)) :=
    match g with
    | GRet (rt, Some c, ts) pl => GRet (rt, ts, Some (cx_route c, cx_tsr c)) pl
    | GRet (rt, None, _) pl => GRet (rt, false, None) pl
    | GSettled => GSettled | GPanic => GPanic | GOutOfFuel => GOutOfFuel
    end.
  Definition req_path (r : req) : bytes := if str_nonempty (rq_rawpath r) then rq_rawpath r else rq_path r.

  Ltac open_gen :=
    cbv beta delta [gen_Router_Route gen_Router_Reverse gen_Router_Lookup gen_Txn_Route gen_Txn_Reverse gen_Txn_Lookup
                    gen_Router_getRoot gen_iTree_lookup gen_cTx_resetNil gen_cTx_resetWithWriter gen_cTx_Close
                    gen_Iter_Reverse_body pool_get pool_put call_lookup deref
                    set_cx_params set_cx_tsrparams set_cx_route set_cx_tsr set_cx_unobserved slice_to0
                    E m1_lookup e_lookup e_split e_pool e_redirect e_ignore
                    Router_Route Txn_Route route_ep Router_Reverse Txn_Reverse Router_Lookup Txn_Lookup lookup_ep
                    Iter_Reverse1 tree_lookup view_route view_reverse view_lookup lookup_obs got got_put stale req_path ts_opt];
    cbn [cx_params cx_tsrparams cx_route cx_tsr cx_tree firstn it_root it_pool rt_tree tx_tree tx_root fst snd].

  (* ---- resets: both clear params and the route; neither touches tsrParams (hence the argument tp0) ---- *)
  Lemma gen_resetNil_eq c :
    gen_cTx_resetNil c = set_cx_route None (set_cx_params [] c).
  Proof. reflexivity. Qed.
  Lemma gen_resetWithWriter_eq c w r :
    gen_cTx_resetWithWriter c w r = set_cx_route None (set_cx_tsr false (set_cx_params [] c)).
  Proof. reflexivity. Qed.
  Lemma gen_iTree_lookup_eq t m hp p c lazy :
    gen_iTree_lookup E t m hp p c lazy = roots_lookup fuel (it_root t) m (strip hp) p lazy (cx_params c) (cx_tsrparams c).
  Proof. reflexivity. Qed.
  Lemma gen_getRoot_eq fox : gen_Router_getRoot fox = rt_tree fox.
  Proof. reflexivity. Qed.
  Lemma gen_Close_eq c pl : gen_cTx_Close c pl = EvPut (it_pool (cx_tree c)) :: pl.
  Proof. reflexivity. Qed.

  (* ---- Router ---- *)
  Lemma gen_Router_Route_eq fox method pattern pl :
    gen_Router_Route E fox method pattern pl =
    view_route (got_put (rt_tree fox) pl)
      (Router_Route fuel strip split (it_root (rt_tree fox)) method pattern (stale (rt_tree fox))).
  Proof.
    open_gen. destruct (split pattern) as [h p].
    destruct (roots_lookup _ _ _ _ _ _ _ _) as [[n|] [|] ? ?| |]; try reflexivity.
    destruct (nroute n) eqn:HR; try reflexivity. destruct (bytes_eqb _ _); rewrite ?HR; reflexivity.
  Qed.

  Lemma gen_Router_Has_eq fox method pattern pl :
    gen_Router_Has E fox method pattern pl =
    gbind (view_route (got_put (rt_tree fox) pl)
             (Router_Route fuel strip split (it_root (rt_tree fox)) method pattern (stale (rt_tree fox))))
          (fun v pl => GRet (ptr_not_nil v) pl).
  Proof. unfold gen_Router_Has. rewrite gen_Router_Route_eq. reflexivity. Qed.

  Lemma gen_Router_Reverse_eq fox method host path pl :
    gen_Router_Reverse E fox method host path pl =
    view_reverse (got_put (rt_tree fox) pl)
      (Router_Reverse fuel strip (it_root (rt_tree fox)) method host path (stale (rt_tree fox))).
  Proof.
    open_gen. destruct path as [|a path']; cbn [go_cmp_or_str or_slash];
    destruct (roots_lookup _ _ _ _ _ _ _ _) as [[n|] [|] ? ?| |]; reflexivity.
  Qed.

  Lemma gen_Router_Lookup_eq fox w r pl :
    lookup_obs (gen_Router_Lookup E fox w r pl) =
    view_lookup (rt_tree fox) pl
      (Router_Lookup fuel strip (it_root (rt_tree fox)) (rq_method r) (rq_host r) (req_path r) (stale (rt_tree fox))).
  Proof.
    open_gen. destruct (roots_lookup _ _ _ _ _ _ _ _) as [[n|] [|] ? ?| |]; reflexivity.
  Qed.

  (* ---- Txn: every method reads the transaction's OWN roots (tx_root) and borrows the context from the
          pool of the tree the transaction was opened on (tx_tree); a settled transaction panics ---- *)
  Definition open_txn (x : rtxn) : txn_v := {| txn_root := Some x |}.
  Definition settled_txn : txn_v := {| txn_root := None |}.

  Lemma gen_Txn_Route_eq x method pattern pl :
    gen_Txn_Route E (open_txn x) method pattern pl =
    view_route (got_put (tx_tree x) pl)
      (Txn_Route fuel strip split (tx_root x) method pattern (stale (tx_tree x))).
  Proof.
    open_gen. cbn [open_txn txn_root]. destruct (split pattern) as [h p].
    destruct (roots_lookup _ _ _ _ _ _ _ _) as [[n|] [|] ? ?| |]; try reflexivity.
    destruct (nroute n) eqn:HR; try reflexivity. destruct (bytes_eqb _ _); rewrite ?HR; reflexivity.
  Qed.

  Lemma gen_Txn_Has_eq x method pattern pl :
    gen_Txn_Has E (open_txn x) method pattern pl =
    gbind (view_route (got_put (tx_tree x) pl)
             (Txn_Route fuel strip split (tx_root x) method pattern (stale (tx_tree x))))
          (fun v pl => GRet (ptr_not_nil v) pl).
  Proof. unfold gen_Txn_Has. cbn [open_txn txn_root]. fold (open_txn x). rewrite gen_Txn_Route_eq. reflexivity. Qed.

  (* Txn.Reverse of the source defaults an empty path to "/" (commit f49b881).  When this bridge was first
     proved the hand-written Txn_Reverse still described the pre-fix code and the two differed on the empty
     path (GET / registered: direct match vs trailing-slash match) — a stale model that tie B had not seen
     (the harness never called Txn.Reverse with "").  The model was corrected (LazyProofs2.v); the source
     now equals it on every path. *)
  Lemma gen_Txn_Reverse_eq x method host path pl :
    gen_Txn_Reverse E (open_txn x) method host path pl =
    view_reverse (got_put (tx_tree x) pl)
      (Txn_Reverse fuel strip (tx_root x) method host path (stale (tx_tree x))).
  Proof.
    open_gen. cbn [open_txn txn_root]. destruct path as [|a path']; cbn [go_cmp_or_str or_slash];
    destruct (roots_lookup _ _ _ _ _ _ _ _) as [[n|] [|] ? ?| |]; reflexivity.
  Qed.
  (* ... which is the hand-written Router_Reverse on the transaction's roots ... *)
  Lemma gen_Txn_Reverse_is_Router_Reverse x method host path pl :
    gen_Txn_Reverse E (open_txn x) method host path pl =
    view_reverse (got_put (tx_tree x) pl)
      (Router_Reverse fuel strip (tx_root x) method host path (stale (tx_tree x))).
  Proof. rewrite gen_Txn_Reverse_eq. reflexivity. Qed.
  Lemma gen_Txn_Reverse_nonempty x method host path pl : path <> [] ->
    gen_Txn_Reverse E (open_txn x) method host path pl =
    view_reverse (got_put (tx_tree x) pl)
      (Txn_Reverse fuel strip (tx_root x) method host path (stale (tx_tree x))).
  Proof. intros _. apply gen_Txn_Reverse_eq. Qed.

  Lemma gen_Txn_Lookup_eq x w r pl :
    lookup_obs (gen_Txn_Lookup E (open_txn x) w r pl) =
    view_lookup (tx_tree x) pl
      (Txn_Lookup fuel strip (tx_root x) (rq_method r) (rq_host r) (req_path r) (stale (tx_tree x))).
  Proof.
    open_gen. cbn [open_txn txn_root]. destruct (roots_lookup _ _ _ _ _ _ _ _) as [[n|] [|] ? ?| |]; reflexivity.
  Qed.

  Lemma gen_Txn_settled method pattern host path w r pl :
    gen_Txn_Route E settled_txn method pattern pl = GSettled /\
    gen_Txn_Has E settled_txn method pattern pl = GSettled /\
    gen_Txn_Reverse E settled_txn method host path pl = GSettled /\
    gen_Txn_Lookup E settled_txn w r pl = GSettled.
  Proof. repeat split; reflexivity. Qed.

  (* ---- Iter.Reverse, one turn of the loop: what is yielded and whether the iteration stops ---- *)
  Definition body_obs (g : gres (bool * cctx * yields)) : gres (bool * yields) :=
    match g with GRet (stop, _, ys) pl => GRet (stop, ys) pl
               | GSettled => GSettled | GPanic => GPanic | GOutOfFuel => GOutOfFuel end.
  Definition view_body (yield : bytes -> option route -> bool) (method : bytes) (ys : yields) (pl : list pev) (e : epres)
    : gres (bool * yields) :=
    match e with
    | EP (Some (n, _)) => GRet (negb (yield method (nroute n)), (method, nroute n) :: ys) pl
    | EP None => GRet (false, ys) pl
    | EPPanic => GPanic | EPOutOfFuel => GOutOfFuel
    end.

  Lemma gen_Iter_Reverse_body_eq it host path yield method c ys pl :
    body_obs (gen_Iter_Reverse_body E it host path yield method c ys pl) =
    view_body yield method ys pl
      (Iter_Reverse1 fuel strip ts_opt (iter_root it) method host path (cx_tsrparams c)).
  Proof.
    open_gen. unfold yield_rec, body_obs, view_body.
    destruct path as [|a path']; cbn [go_cmp_or_str or_slash];
    (destruct (roots_lookup _ _ _ _ _ _ _ _) as [[n|] [|] ? ?| |]; try reflexivity;
     [ destruct (nroute n) as [rt|] eqn:HR; try reflexivity;
       destruct (redirect rt); cbn [orb]; [cbn; rewrite ?HR; destruct (yield _ _); reflexivity|];
       destruct (ignore rt); [cbn; rewrite ?HR; destruct (yield _ _); reflexivity | reflexivity]
     | cbn; destruct (yield _ _); reflexivity ]).
  Qed.

  (* the pool traffic of a whole Iter.Reverse that neither panics nor runs out of fuel: one Get, one Put, same pool *)
  Lemma gen_Iter_Reverse_loop_tree it host path yield methods : forall c ys pl c' ys' pl',
    gen_Iter_Reverse_loop E it host path yield methods c ys pl = GRet (c', ys') pl' ->
    cx_tree c' = cx_tree c /\ pl' = pl.
  Proof.
    induction methods as [|m ms IH]; intros c ys pl c' ys' pl' H; cbn [gen_Iter_Reverse_loop] in H.
    - inversion H; subst; auto.
    - revert H. open_gen. unfold yield_rec.
      destruct (roots_lookup _ _ _ _ _ _ _ _) as [[n|] [|] ps tps| |]; cbn [gbind]; try discriminate;
      repeat match goal with
        | |- context [match nroute ?n with _ => _ end] => destruct (nroute n); cbn [gbind]; try discriminate
        | |- context [if redirect ?r then _ else _] => destruct (redirect r); cbn [gbind]
        | |- context [if ignore ?r then _ else _] => destruct (ignore r); cbn [gbind]
        | |- context [if yield ?a ?b then _ else _] => destruct (yield a b); cbn [gbind]
        end;
      intros H; try (inversion H; subst; cbn; auto; fail);
      apply IH in H; cbn [cx_tree] in H; exact H.
  Qed.

  Lemma gen_Iter_Reverse_pool it methods host path yield pl c' ys' pl' :
    gen_Iter_Reverse E it methods host path yield pl = GRet (c', ys') pl' ->
    pl' = got_put (iter_tree it) pl.
  Proof.
    cbv beta iota zeta delta [gen_Iter_Reverse pool_get].
    destruct (gen_Iter_Reverse_loop E it host path yield methods _ _ _) as [[c1 ys1] pl1| | |] eqn:HL; cbn [gbind]; try discriminate.
    apply gen_Iter_Reverse_loop_tree in HL. destruct HL as [HT HP]. cbn [cx_tree] in HT.
    intros H. inversion H; subst. rewrite gen_Close_eq, HT. reflexivity.
  Qed.
  (* ---- entry_points_agree (Props_C01_lazy.v) restated over the generated definitions ---- *)
  Definition gval {A} (g : gres A) : gres A :=
    match g with GRet v _ => GRet v [] | GSettled => GSettled | GPanic => GPanic | GOutOfFuel => GOutOfFuel end.
  (* what Reverse / Route return, computed from what Lookup returns *)
  Definition rev_of_lookup (g : gres (option route * bool * option (option route * bool))) : gres (option route * bool) :=
    match g with GRet (rt, ts, _) _ => GRet (rt, ts) []
               | GSettled => GSettled | GPanic => GPanic | GOutOfFuel => GOutOfFuel end.
  Definition route_of_lookup (pattern : bytes) (g : gres (option route * bool * option (option route * bool))) : gres (option route) :=
    match g with
    | GRet (_, _, None) _ => GRet None []
    | GRet (_, true, Some _) _ => GRet None []
    | GRet (None, false, Some _) _ => GPanic
    | GRet (Some rt, false, Some _) _ => if bytes_eqb (rpat rt) pattern then GRet (Some rt) [] else GRet None []
    | GSettled => GSettled | GPanic => GPanic | GOutOfFuel => GOutOfFuel
    end.

  Lemma view_rev_lookup t pl pl' e : gval (view_reverse pl e) = rev_of_lookup (view_lookup t pl' e).
  Proof. destruct e as [[[n ts]|]| |]; reflexivity. Qed.
  Lemma view_lookup_gval t t' pl pl' e : gval (view_lookup t pl e) = gval (view_lookup t' pl' e).
  Proof. destruct e as [[[n ts]|]| |]; reflexivity. Qed.
  Lemma view_route_lookup pat t pl pl' e : gval (view_route pl (pattern_only pat e)) = route_of_lookup pat (view_lookup t pl' e).
  Proof.
    destruct e as [[[n [|]]|]| |]; try reflexivity.
    all: cbn [pattern_only]; destruct (nroute n) as [rt|] eqn:HR; cbn; rewrite ?HR; try reflexivity.
    all: destruct (bytes_eqb _ pat) eqn:HB; cbn; rewrite ?HR, ?HB; reflexivity.
  Qed.

  Theorem gen_Router_Reverse_is_Lookup fox method host path w r pl pl' :
    rq_method r = method -> rq_host r = host -> req_path r = or_slash path ->
    gval (gen_Router_Reverse E fox method host path pl) = rev_of_lookup (lookup_obs (gen_Router_Lookup E fox w r pl')).
  Proof.
    intros <- <- HP. rewrite gen_Router_Reverse_eq, gen_Router_Lookup_eq, HP.
    destruct (entry_points_agree fuel strip split ts_opt (it_root (rt_tree fox)) (rq_method r) (rq_host r) path []
                (stale (rt_tree fox)) (stale (rt_tree fox))) as [H _].
    rewrite H. apply view_rev_lookup.
  Qed.

  Theorem gen_Txn_Reverse_is_Lookup x method host path w r pl pl' :
    rq_method r = method -> rq_host r = host -> req_path r = or_slash path ->
    gval (gen_Txn_Reverse E (open_txn x) method host path pl) = rev_of_lookup (lookup_obs (gen_Txn_Lookup E (open_txn x) w r pl')).
  Proof.
    intros <- <- HP. rewrite gen_Txn_Reverse_eq, gen_Txn_Lookup_eq, HP.
    destruct (entry_points_agree fuel strip split ts_opt (tx_root x) (rq_method r) (rq_host r) path []
                (stale (tx_tree x)) (stale (tx_tree x))) as [_ [H _]].
    rewrite H. apply view_rev_lookup.
  Qed.

  Theorem gen_Router_Route_is_Lookup fox method pattern w r pl pl' :
    rq_method r = method -> rq_host r = fst (split pattern) -> req_path r = snd (split pattern) ->
    gval (gen_Router_Route E fox method pattern pl) = route_of_lookup pattern (lookup_obs (gen_Router_Lookup E fox w r pl')).
  Proof.
    intros <- HH HP. rewrite gen_Router_Route_eq, gen_Router_Lookup_eq, HH, HP.
    destruct (entry_points_agree fuel strip split ts_opt (it_root (rt_tree fox)) (rq_method r) [] [] pattern
                (stale (rt_tree fox)) (stale (rt_tree fox))) as [_ [_ [_ [_ [H _]]]]].
    rewrite H. apply view_route_lookup.
  Qed.

  Theorem gen_Txn_Route_is_Lookup x method pattern w r pl pl' :
    rq_method r = method -> rq_host r = fst (split pattern) -> req_path r = snd (split pattern) ->
    gval (gen_Txn_Route E (open_txn x) method pattern pl) = route_of_lookup pattern (lookup_obs (gen_Txn_Lookup E (open_txn x) w r pl')).
  Proof.
    intros <- HH HP. rewrite gen_Txn_Route_eq, gen_Txn_Lookup_eq, HH, HP.
    destruct (entry_points_agree fuel strip split ts_opt (tx_root x) (rq_method r) [] [] pattern
                (stale (tx_tree x)) (stale (tx_tree x))) as [_ [_ [_ [_ [_ [H _]]]]]].
    rewrite H. apply view_route_lookup.
  Qed.

  (* a transaction whose own roots are the published ones answers like the router *)
  Theorem gen_Txn_Lookup_is_Router_Lookup fox x w r pl pl' :
    tx_root x = it_root (rt_tree fox) ->
    gval (lookup_obs (gen_Txn_Lookup E (open_txn x) w r pl)) = gval (lookup_obs (gen_Router_Lookup E fox w r pl')).
  Proof.
    intros HR. rewrite gen_Txn_Lookup_eq, gen_Router_Lookup_eq, HR.
    destruct (entry_points_agree fuel strip split ts_opt (it_root (rt_tree fox)) (rq_method r) (rq_host r) (req_path r) []
                (stale (tx_tree x)) (stale (rt_tree fox))) as [_ [_ [_ [_ [_ [_ H]]]]]].
    rewrite H. apply view_lookup_gval.
  Qed.
End Bridge.

(* ---- regression witness of the corrected model: on the empty path the source-derived Txn.Reverse and the
        hand-written Txn_Reverse agree (GET / registered: a direct match for both) ---- *)
Definition pool0 (t : itree) : cctx :=
  {| cx_params := []; cx_tsrparams := []; cx_route := None; cx_tsr := false; cx_tree := t |}.
Definition nf (_ : route) := false.

Lemma gen_Txn_Reverse_empty_path_agrees :
  exists r m h n,
    let x := {| tx_tree := {| it_root := r; it_pool := 0 |}; tx_root := r |} in
    gen_Txn_Reverse (E ex_fuel ex_strip ex_split pool0 nf nf) (open_txn x) m h [] [] = GRet (nroute n, false) [EvPut 0; EvGet 0] /\
    view_reverse [EvPut 0; EvGet 0] (Txn_Reverse ex_fuel ex_strip r m h [] []) = GRet (nroute n, false) [EvPut 0; EvGet 0].
Proof.
  destruct Txn_Reverse_empty_path_agrees as (r & m & h & n & H1 & H2).
  exists r, m, h, n. cbv zeta. rewrite gen_Txn_Reverse_is_Router_Reverse.
  cbn [stale pool0 cx_tsrparams tx_tree tx_root got_put it_pool]. rewrite H1, H2. split; reflexivity.
Qed.
