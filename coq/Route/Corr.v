(* Route area — correspondence functions evaluated by the generated case files. *)
From FoxBase Require Import Bytes.
From FoxRoute Require Import Node Lookup HostPort Spec Guard Tree.
Open Scope char_scope.

Definition kv_eqb (a b : kv) : bool := bytes_eqb (fst a) (fst b) && bytes_eqb (snd a) (snd b).

(* ---------- lookup cases (C01 / C08 / C09) ---------- *)
Inductive obs := ONone | OFound (pat : bytes) (tsr : bool) (params : list kv) | OPanic.

Definition obs_eqb (a b : obs) : bool :=
  match a, b with
  | ONone, ONone => true
  | OFound p t ps, OFound p' t' ps' => bytes_eqb p p' && Bool.eqb t t' && list_eqb kv_eqb ps ps'
  | _, _ => false
  end.

Record lreq := { q_method : bytes;
                 q_rawhost : bytes;                  (* the Host header as received *)
                 q_host : bytes;                     (* netutil.StripHostPort(Host) as computed by the implementation *)
                 q_path : bytes;
                 q_lookup : obs;                     (* Router.Lookup: route, tsr, Params() *)
                 q_reverse : option (bytes * bool);  (* Router.Reverse: route, tsr (lazy) *)
                 q_spec : bool;                      (* request inside the domain of the specification *)
                 q_others : bool }.                  (* Txn.Lookup / Txn.Reverse / Iter.Reverse (router and txn) /
                                                        ServeHTTP select the same route, tsr and params *)

Definition lcase := (roots * lreq)%type.

Definition res_obs (r : lres) : option obs :=
  match r with
  | Found None _ _ _ => Some ONone
  | Found (Some n) t ps tps =>
      match nroute n with
      | Some rt => Some (OFound (rpat rt) t (if t then tps else ps))
      | None => None                       (* the matcher returned a non-leaf: nil dereference in the callers *)
      end
  | _ => None
  end.

Definition model_lookup (c : lcase) (lazy : bool) : lres :=
  let '(r, q) := c in roots_lookup_g big_fuel r (q_method q) (strip_host_port (q_rawhost q)) (q_path q) lazy [] [].

Definition lmodel_agrees (c : lcase) : bool :=
  let q := snd c in
  bytes_eqb (strip_host_port (q_rawhost q)) (q_host q) &&
  match res_obs (model_lookup c false) with
  | Some o => obs_eqb o (q_lookup q)
  | None => false
  end &&
  match res_obs (model_lookup c true), q_reverse q with
  | Some ONone, None => true
  | Some (OFound p t _), Some (p', t') => bytes_eqb p p' && Bool.eqb t t'
  | _, _ => false
  end.

Definition l_oof (c : lcase) : bool :=
  match model_lookup c false with LOutOfFuel => true | _ => false end.

Definition method_patterns (r : roots) (m : bytes) : list bytes :=
  match method_index r m with
  | Some i => match nth_error r i with Some root => map rpat (routes_of_node root) | None => [] end
  | None => []
  end.

Definition spec_obs (c : lcase) : obs :=
  let '(r, q) := c in
  match spec_lookup_g (method_patterns r (q_method q)) (strip_spec (q_rawhost q)) (q_path q) with
  | SNone => ONone
  | SDirect p ps => OFound p false ps
  | STsr p ps => OFound p true ps
  end.

(* direct-match part of the specification (C01, C09): when the spec selects a
   route directly the implementation returns it with the same parameters, and
   the implementation never returns a direct match the spec does not select *)
Definition is_direct (o : obs) : bool := match o with OFound _ false _ => true | _ => false end.
Definition lspec_direct_ok (c : lcase) : bool :=
  let q := snd c in
  if negb (q_spec q) then true else
  let s := spec_obs c in
  if is_direct s || is_direct (q_lookup q) then obs_eqb s (q_lookup q) else true.

(* full specification including trailing-slash selection (C08) *)
Definition lspec_full_ok (c : lcase) : bool :=
  let q := snd c in
  if negb (q_spec q) then true else obs_eqb (spec_obs c) (q_lookup q).

(* Lookup and Reverse agree on (route, tsr) *)
Definition entrypoints_agree (c : lcase) : bool :=
  let q := snd c in
  q_others q &&
  match q_lookup q, q_reverse q with
  | ONone, None => true
  | OFound p t _, Some (p', t') => bytes_eqb p p' && Bool.eqb t t'
  | _, _ => false
  end.

Definition l_mismatches (cs : list lcase) : list nat := true_idx (map (fun c => negb (lmodel_agrees c)) cs).
Definition l_direct_violations (cs : list lcase) : list nat :=
  true_idx (map (fun c => negb (lspec_direct_ok c && entrypoints_agree c)) cs).
Definition l_full_violations (cs : list lcase) : list nat :=
  true_idx (map (fun c => negb (lspec_full_ok c && entrypoints_agree c)) cs).
Definition l_fuel_outs (cs : list lcase) : list nat := true_idx (map l_oof cs).

(* ---- listed finding c01_star_byte_prefers_catchall: the pinned behaviour (implementation =
   model) selects a catch-all whose captured value starts with a literal '*' although
   the specification prefers another route; call site: static child search in
   lookupByPath finding the '*' child through childKeys ---- *)
Definition value_starts_star (ps : list kv) : bool :=
  existsb (fun e => match snd e with c :: _ => Ascii.eqb c "*" | [] => false end) ps.
Definition l_known_star (full : bool) (c : lcase) : bool :=
  let q := snd c in
  negb (if full then lspec_full_ok c else lspec_direct_ok c) && entrypoints_agree c && lmodel_agrees c &&
  match q_lookup q with OFound _ _ ps => value_starts_star ps | _ => false end.
Definition l_known_star_direct (cs : list lcase) : list nat := true_idx (map (l_known_star false) cs).
Definition l_known_star_full (cs : list lcase) : list nat := true_idx (map (l_known_star true) cs).
