(* Props_C03 — "A published routing state never changes (snapshot immutability)".
   Model: Heap.v (object heap, copy-on-write transaction code of tree.go), Heap2.v (router-level
   histories with snapshots).  Proofs: HeapProofs.v.  Every statement quantifies over ALL histories,
   ALL eviction schedules of the writable cache (evict_ok: eviction only removes entries) and all fuels. *)
From FoxBase Require Import Bytes.
From FoxRoute Require Import Node Tree Heap Heap2 HeapProofs.

(* ---- writes_only_fresh: the ownership invariant ---- *)
(* one operation of a write transaction: [good mark] = the heap is well formed and every node of the
   writable cache, and its children array, was allocated at or after [mark].  It is preserved; no object
   allocated before the mark changes; every in-place write (updateEdge slot, in-place sort / shift of an
   array, n.key = method: the ghost log s_log) targets an address >= mark. *)
Theorem writes_only_fresh :
  forall evict fuel mark o s res s',
    evict_ok evict -> good mark s -> run_op evict fuel o s = Ok (res, s') ->
    good mark s' /\
    (forall a, (a < mark)%positive -> find_node s' a = find_node s a /\ find_arr s' a = find_arr s a) /\
    (exists l, s_log s' = (l ++ s_log s)%list /\ Forall (fun t => (mark <= t)%positive) l).
Proof. exact writes_only_fresh_op. Qed.
Print Assumptions writes_only_fresh.

(* histories: after any history es1 there is a mark m (the allocation pointer at the last snapshot
   point) with every handed-out roots array, and everything reachable from it, below m
   (closed = objects below m only point below m), and every in-place write of any continuation es2
   targets an address >= m: an object allocated after the last snapshot point. *)
Theorem writes_only_fresh_histories :
  forall evict fuel es1 es2,
    evict_ok evict ->
    let w1 := run evict fuel true init_world es1 in
    let w2 := run evict fuel true w1 es2 in
    exists m, Forall (fun r => (r < m)%positive) (w_handed w1) /\ closed m (w_st w1) /\
              exists l, s_log (w_st w2) = (l ++ s_log (w_st w1))%list /\ Forall (fun t => (m <= t)%positive) l.
Proof. exact writes_only_fresh_hist. Qed.
Print Assumptions writes_only_fresh_histories.

(* ---- snapshot_frozen: the property ---- *)
(* every roots array handed out (Txn.Iter and Txn.Snapshot inside a write transaction, Router.Iter,
   read-only Txn) during any history es1 reads back the same pure tree after any continuation es2
   (writes, commits, aborts, more snapshots), for every fuel of abs. *)
Theorem snapshot_frozen :
  forall evict fuel es1 es2 r f,
    evict_ok evict ->
    let w1 := run evict fuel true init_world es1 in
    let w2 := run evict fuel true w1 es2 in
    In r (w_handed w1) -> abs f (w_st w2) r = abs f (w_st w1) r.
Proof. exact snapshot_frozen_thm. Qed.
Print Assumptions snapshot_frozen.

(* the published tree (the state requests are served from) at any point of any history *)
Theorem published_frozen :
  forall evict fuel es1 es2 f,
    evict_ok evict ->
    let w1 := run evict fuel true init_world es1 in
    let w2 := run evict fuel true w1 es2 in
    abs f (w_st w2) (p_root (w_pub w1)) = abs f (w_st w1) (p_root (w_pub w1)).
Proof. exact published_frozen_thm. Qed.
Print Assumptions published_frozen.

(* the LRU of internal/simplelru with any capacity (4096 in tree.go) is such a schedule *)
Theorem lru_is_evict_ok : forall cap, evict_ok (lru_evict cap).
Proof. exact lru_evict_ok. Qed.
Print Assumptions lru_is_evict_ok.

(* non-vacuity: a concrete history in which the snapshot stays while the transaction moves on *)
Example snapshot_frozen_nonvacuous :
  let ev := lru_evict 10 in
  let w1 := run ev 10 true init_world refute_hist1 in
  let w2 := run ev 10 true w1 refute_hist2 in
  w_handed w1 <> [] /\ abs 10 (w_st w2) (s_root (w_st w1)) = abs 10 (w_st w1) (s_root (w_st w1)) /\
  abs 10 (w_st w2) (s_root (w_st w2)) <> abs 10 (w_st w1) (s_root (w_st w1)).
Proof. exact snapshot_frozen_example. Qed.
Print Assumptions snapshot_frozen_nonvacuous.

(* what the mechanism protects against: the same model WITHOUT `t.writable = nil` in snapshot()
   (reset_on_snapshot = false) violates snapshot_frozen on Begin; Handle GET /a; Iter(); Handle GET /b *)
Example snapshot_frozen_without_reset_refuted :
  let ev := lru_evict 10 in
  let w1 := run ev 10 false init_world refute_hist1 in
  let w2 := run ev 10 false w1 refute_hist2 in
  exists r, In r (w_handed w1) /\ abs 10 (w_st w2) r <> abs 10 (w_st w1) r.
Proof. exact snapshot_frozen_needs_reset. Qed.
Print Assumptions snapshot_frozen_without_reset_refuted.
