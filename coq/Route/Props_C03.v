(* Props_C03 — reserved. *)
From FoxBase Require Import Bytes.
