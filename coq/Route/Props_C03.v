(* Props_C03 — "A published routing state never changes (snapshot immutability)".
   Model: Heap.v (object heap, copy-on-write transaction code of tree.go), Heap2.v (router-level
   histories with snapshots).  Proofs: HeapProofs.v.  Every statement quantifies over ALL histories,
   ALL eviction schedules of the writable cache (evict_ok: eviction only removes entries) and all fuels. *)
From FoxBase Require Import Bytes.
From FoxRoute Require Import Node Tree Heap Heap2 HeapProofs.

(* ---- writes_only_fresh: the ownership invariant ---- *)
(* one operation of a write transaction: [good mark] = the heap is well formed and every node of the
   writable cache, and its children array, was allocated at or after [mark].  It is preserved; no object
   allocated before the mark changes; every in-place write (updateEdge slot, in-place sort / shift of an
   array, n.key = method: the ghost log s_log) targets an address >= mark. *)
Theorem writes_only_fresh :
  forall evict fuel mark o s res s',
    evict_ok evict -> good mark s -> run_op evict fuel o s = Ok (res, s') ->
    good mark s' /\
    (forall a, (a < mark)%positive -> find_node s' a = find_node s a /\ find_arr s' a = find_arr s a) /\
    (exists l, s_log s' = (l ++ s_log s)%list /\ Forall (fun t => (mark <= t)%positive) l).
Proof. exact writes_only_fresh_op. Qed.
Print Assumptions writes_only_fresh.

(* histories: after any history es1 there is a mark m (the allocation pointer at the last snapshot
   point) with every handed-out roots array, and everything reachable from it, below m
   (closed = objects below m only point below m), and every in-place write of any continuation es2
   targets an address >= m: an object allocated after the last snapshot point. *)
Theorem writes_only_fresh_histories :
  forall evict fuel es1 es2,
    evict_ok evict ->
    let w1 := run evict fuel true init_world es1 in
    let w2 := run evict fuel true w1 es2 in
    exists m, Forall (fun r => (r < m)%positive) (w_handed w1) /\ closed m (w_st w1) /\
              exists l, s_log (w_st w2) = (l ++ s_log (w_st w1))%list /\ Forall (fun t => (m <= t)%positive) l.
Proof. exact writes_only_fresh_hist. Qed.
Print Assumptions writes_only_fresh_histories.

(* ---- snapshot_frozen: the property ---- *)
(* every roots array handed out (Txn.Iter and Txn.Snapshot inside a write transaction, Router.Iter,
   read-only Txn) during any history es1 reads back the same pure tree after any continuation es2
   (writes, commits, aborts, more snapshots), for every fuel of abs. *)
Theorem snapshot_frozen :
  forall evict fuel es1 es2 r f,
    evict_ok evict ->
    let w1 := run evict fuel true init_world es1 in
    let w2 := run evict fuel true w1 es2 in
    In r (w_handed w1) -> abs f (w_st w2) r = abs f (w_st w1) r.
Proof. exact snapshot_frozen_thm. Qed.
Print Assumptions snapshot_frozen.

(* the published tree (the state requests are served from) at any point of any history *)
Theorem published_frozen :
  forall evict fuel es1 es2 f,
    evict_ok evict ->
    let w1 := run evict fuel true init_world es1 in
    let w2 := run evict fuel true w1 es2 in
    abs f (w_st w2) (p_root (w_pub w1)) = abs f (w_st w1) (p_root (w_pub w1)).
Proof. exact published_frozen_thm. Qed.
Print Assumptions published_frozen.

(* the LRU of internal/simplelru with any capacity (4096 in tree.go) is such a schedule *)
Theorem lru_is_evict_ok : forall cap, evict_ok (lru_evict cap).
Proof. exact lru_evict_ok. Qed.
Print Assumptions lru_is_evict_ok.

(* non-vacuity: a concrete history in which the snapshot stays while the transaction moves on *)
Example snapshot_frozen_nonvacuous :
  let ev := lru_evict 10 in
  let w1 := run ev 10 true init_world refute_hist1 in
  let w2 := run ev 10 true w1 refute_hist2 in
  w_handed w1 <> [] /\ abs 10 (w_st w2) (s_root (w_st w1)) = abs 10 (w_st w1) (s_root (w_st w1)) /\
  abs 10 (w_st w2) (s_root (w_st w2)) <> abs 10 (w_st w1) (s_root (w_st w1)).
Proof. exact snapshot_frozen_example. Qed.
Print Assumptions snapshot_frozen_nonvacuous.

(* what the mechanism protects against: the same model WITHOUT `t.writable = nil` in snapshot()
   (reset_on_snapshot = false) violates snapshot_frozen on Begin; Handle GET /a; Iter(); Handle GET /b *)
Example snapshot_frozen_without_reset_refuted :
  let ev := lru_evict 10 in
  let w1 := run ev 10 false init_world refute_hist1 in
  let w2 := run ev 10 false w1 refute_hist2 in
  exists r, In r (w_handed w1) /\ abs 10 (w_st w2) r <> abs 10 (w_st w1) r.
Proof. exact snapshot_frozen_needs_reset. Qed.
Print Assumptions snapshot_frozen_without_reset_refuted.

(* ---- cow_refines_pure: the object-level code computes what the pure model (Tree.v) computes ---- *)
(* [trep s T]: the roots array of the open transaction in heap s represents the pure transaction state T
   (rep: node objects and children arrays read back as the pure tree), TREE-SHAPED: no node or array
   object is reachable twice (NoDup of the footprint) — this is what makes the in-place writes of
   updateEdge / sort / key patch safe for the transaction's OWN view.  [roots_wf]: every method root is
   found under its key, GET/POST/PUT/DELETE are present, roots carry no route.
   One operation (Handle / Update / Delete / Truncate on the open transaction), for every eviction
   schedule: if the model returns (no Go panic, fuel sufficient) then the state after represents the
   pure operation applied to the state before, and the caller sees the same outcome
   (ok / exists / not found / conflict list / removed route). *)
Theorem cow_refines_pure :
  forall evict, evict_ok evict ->
  forall fuel o s T res s',
    good 1%positive s -> trep s T -> roots_wf (t_roots T) ->
    run_op evict fuel o s = Ok (res, s') ->
    good 1%positive s' /\ trep s' (fst (fst (pure_op T o))) /\ roots_wf (t_roots (fst (fst (pure_op T o)))) /\
    res = (snd (fst (pure_op T o)), snd (pure_op T o)).
Proof. exact run_op_refines. Qed.
Print Assumptions cow_refines_pure.

(* the function abs reads exactly what trep relates (for every fuel not below the height of the tree) *)
Theorem abs_reads_trep :
  forall s T f, trep s T -> (roots_height (t_roots T) <= f)%nat ->
    abs_txn f s (s_root s) (s_size s) (s_maxp s) (s_depth s) = Some T.
Proof. exact trep_abs. Qed.
Print Assumptions abs_reads_trep.

(* whole histories (transactions, single-operation helpers, commits, aborts, snapshots anywhere), from the
   initial router: the answers are those of the pure history (Tree.v operations on values), the published
   tree and the open transaction read back (abs) as the pure states.  [clean] = the model run met no Go
   panic and did not run out of fuel (both are distinct outcomes of the model, compared with the
   implementation on every run of the check; lists mism / oof). *)
Theorem cow_refines_pure_histories :
  forall evict fuel es,
    evict_ok evict -> clean evict fuel init_world es ->
    let w := run evict fuel true init_world es in
    let q := prun init_pworld es in
    trace evict fuel init_world es = ptrace init_pworld es /\
    w_open w = is_some_txn (q_cur q) /\
    exists f0, forall f, (f0 <= f)%nat ->
      abs_pub f w = Some (q_pub q) /\
      match q_cur q with Some T => abs_cur f w = Some T | None => True end.
Proof. exact cow_refines_pure_hist. Qed.
Print Assumptions cow_refines_pure_histories.

(* ---- the converse clause of the property: writes are unaffected by the existence of snapshots ---- *)
(* the same history with every snapshot-taking event removed (strip_snaps) gives the same answers to the
   remaining calls and the same published and transaction states *)
Theorem snapshots_do_not_affect_writes :
  forall evict fuel es,
    evict_ok evict -> clean evict fuel init_world es -> clean evict fuel init_world (strip_snaps es) ->
    let w1 := run evict fuel true init_world es in
    let w2 := run evict fuel true init_world (strip_snaps es) in
    trace evict fuel init_world (strip_snaps es) = strip_tr es (trace evict fuel init_world es) /\
    w_open w1 = w_open w2 /\
    exists T f0, forall f, (f0 <= f)%nat ->
      abs_pub f w1 = Some T /\ abs_pub f w2 = Some T /\
      (w_open w1 = true -> exists Tc, abs_cur f w1 = Some Tc /\ abs_cur f w2 = Some Tc).
Proof. exact snapshots_do_not_affect_writes_thm. Qed.
Print Assumptions snapshots_do_not_affect_writes.

(* non-vacuity of [clean]: a history with inserts (split, hostname), update, deletes (merge, hostname split
   node dropped, custom method root removed), truncate, snapshots inside the transaction, cache capacity 2 *)
Example clean_nonvacuous :
  clean (lru_evict 2) 20 init_world refine_hist /\ clean (lru_evict 2) 20 init_world (strip_snaps refine_hist).
Proof. exact clean_example. Qed.
Print Assumptions clean_nonvacuous.
