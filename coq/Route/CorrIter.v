(* Route area — read-API cases (C02): Has / Route, Methods, Prefix, Routes on the
   final tree of a random history, against the model (Iter.v on the dumped tree)
   and the specification (the registered set as a list of (method, pattern)). *)
From FoxBase Require Import Bytes.
From FoxRoute Require Import Node Lookup HostPort Spec Tree MapSpec CorrHist Iter.
Open Scope char_scope.

Inductive query :=
| QHas (m p : bytes) (ans : bool)
| QMethods (ans : list bytes)
| QPrefix (m prefix : bytes) (ans : list bytes).   (* patterns in iteration order *)

Record itercase := { ic_tree : roots; ic_set : list (bytes * bytes); ic_queries : list query }.

Fixpoint has_prefix (p s : bytes) : bool :=
  match p, s with
  | [], _ => true
  | x :: p', y :: s' => Ascii.eqb x y && has_prefix p' s'
  | _, [] => false
  end.
Definition same_bytes_set (a b : list bytes) : bool :=
  Nat.eqb (List.length a) (List.length b) && forallb (fun x => existsb (bytes_eqb x) b) a.

Definition q_model (t : roots) (q : query) : bool :=
  match q with
  | QHas m p ans => Bool.eqb (has t m p) ans
  | QMethods ans => list_eqb bytes_eqb (methods_of t) ans
  | QPrefix m pre ans => list_eqb bytes_eqb (map rpat (prefix_routes t m pre)) ans
  end.
Definition q_spec (s : list (bytes * bytes)) (q : query) : bool :=
  match q with
  | QHas m p ans => Bool.eqb (existsb (fun e => bytes_eqb (fst e) m && bytes_eqb (snd e) p) s) ans
  | QMethods ans => forallb (fun m => existsb (fun e => bytes_eqb (fst e) m) s) ans
                    && forallb (fun e => existsb (bytes_eqb (fst e)) ans) s
  | QPrefix m pre ans =>
      same_bytes_set (map snd (filter (fun e => bytes_eqb (fst e) m && has_prefix pre (snd e)) s)) ans
  end.

Inductive c2case := CHist (h : hcase) | CIter (i : itercase).

Definition c2_model (c : c2case) : bool :=
  match c with
  | CHist h => hmodel_agrees h
  | CIter i => forallb (q_model (ic_tree i)) (ic_queries i)
  end.
Definition c2_spec (c : c2case) : bool :=
  match c with
  | CHist h => hspec_ok h
  | CIter i => forallb (q_spec (ic_set i)) (ic_queries i)
  end.
Definition c2_mismatches (cs : list c2case) : list nat := true_idx (map (fun c => negb (c2_model c)) cs).
Definition c2_violations (cs : list c2case) : list nat := true_idx (map (fun c => negb (c2_spec c)) cs).
