(* Heap2 — router-level histories over the object heap of Heap.v (C03):
   events (transactions, single-operation helpers, snapshots), the pure
   mirror of the same events over Tree.v, the canonical renaming of the object
   graph (for the isomorphism check against the dumped Go object graph), and the
   case format of harness/cmd/c03. *)
From Coq Require Import FMapPositive.
From FoxBase Require Import Bytes.
From FoxRoute Require Import Node Tree Heap.

(* ---------- events ---------- *)
Inductive wop :=
| WHandle (m pat : bytes) (valid : bool) (pslen hostsplit : nat) (rid : N)
| WUpdate (m pat : bytes) (valid : bool) (pslen hostsplit : nat) (rid : N)
| WDelete (m pat : bytes) (valid : bool)
| WTruncate (ms : list bytes).

Inductive ev :=
| EBegin                 (* fox.Txn(true): tXn with cache = true *)
| ECommit | EAbort
| EOp (o : wop)          (* Txn.Handle / Update / Delete / Truncate on the open write transaction *)
| EDirect (o : wop)      (* Router.Handle / Update / Delete (txnWith(true,false); op; Commit or Abort),
                            Router.Updates(Truncate) (cache = true) *)
| ESnapIter              (* Txn.Iter() on the write transaction: tXn.snapshot() *)
| ESnapClone             (* Txn.Snapshot() on the write transaction: tXn.clone() *)
| EObsPub.               (* Router.Iter() / Router.Txn(false) [.Iter() / .Snapshot()]: the published roots *)

Inductive wout := WOk | WExist | WNotFound | WConflict (pats : list bytes) | WInvalid | WPanic | WOof | WNoTxn.

Record pubt := { p_root : addr; p_size : Z; p_maxp : nat; p_depth : nat }.

Record world := { w_st : st;              (* heap + fields of the open write tXn (stale when none is open) *)
                  w_pub : pubt;           (* the published iTree *)
                  w_open : bool;
                  w_handed : list addr }. (* roots arrays handed out to readers so far, oldest first *)

Definition valid_method_handle (m : bytes) : bool :=
  negb (is_nil m) && forallb (fun c => Nat.leb 65 (nat_of_ascii c) && Nat.leb (nat_of_ascii c) 90) m.

Definition mk_ri (pat : bytes) (rid : N) (psl hs : nat) : rinfo :=
  {| ri_route := {| rpat := pat; rid := rid |}; ri_pslen := psl; ri_hostsplit := hs |}.

Section Run.
Variable evict : N -> list addr -> list addr.
Variable fuel : nat.            (* depth bound for the route listings (countRoutes, getRouteConflict) *)
Variable reset_on_snapshot : bool.   (* true = the code as it is; false = variant WITHOUT `t.writable = nil` in snapshot() *)

Definition run_op (o : wop) : M (wout * option N) :=
  match o with
  | WHandle m pat valid psl hs rid =>
      if negb (valid_method_handle m) || negb valid then ret (WInvalid, None)
      else out <- h_insert evict m (mk_ri pat rid psl hs) ;;
           match out with
           | IOk => ret (WOk, None)
           | IExist _ => ret (WExist, None)
           | IConflict a => rts <- h_routes fuel a ;; ret (WConflict (map rpat rts), None)
           end
  | WUpdate m pat valid psl hs rid =>
      if is_nil m || negb valid then ret (WInvalid, None)
      else b <- h_update evict m (mk_ri pat rid psl hs) ;; ret (if b then WOk else WNotFound, None)
  | WDelete m pat valid =>
      if is_nil m || negb valid then ret (WInvalid, None)
      else r <- h_remove evict m pat ;;
           match r with Some rt => ret (WOk, Some (rid rt)) | None => ret (WNotFound, None) end
  | WTruncate ms => h_truncate fuel ms ;;; ret (WOk, None)
  end.

(* iTree.txn(cache) *)
Definition begin_st (s : st) (p : pubt) (cache : bool) : st :=
  mkst (s_nodes s) (s_arrs s) (s_next s) (p_root p) (p_size p) (p_maxp p) (p_depth p) cache [] (s_clock s) (s_log s).
(* tXn.commit() *)
Definition pub_of (s : st) : pubt := {| p_root := s_root s; p_size := s_size s; p_maxp := s_maxp s; p_depth := s_depth s |}.
Definition reset_wr (s : st) : st := set_wr s [] (s_clock s).

Definition direct_cache (o : wop) : bool := match o with WTruncate _ => true | _ => false end.

Definition step (w : world) (e : ev) : world * wout * option N :=
  match e with
  | EBegin =>
      if w_open w then (w, WNoTxn, None)
      else ({| w_st := begin_st (w_st w) (w_pub w) true; w_pub := w_pub w; w_open := true; w_handed := w_handed w |}, WOk, None)
  | ECommit =>
      if w_open w
      then ({| w_st := reset_wr (w_st w); w_pub := pub_of (w_st w); w_open := false; w_handed := w_handed w |}, WOk, None)
      else (w, WOk, None)
  | EAbort => ({| w_st := w_st w; w_pub := w_pub w; w_open := false; w_handed := w_handed w |}, WOk, None)
  | EOp o =>
      if w_open w then
        match run_op o (w_st w) with
        | Ok ((out, rm), s') => ({| w_st := s'; w_pub := w_pub w; w_open := true; w_handed := w_handed w |}, out, rm)
        | Panic => (w, WPanic, None)
        | Oof => (w, WOof, None)
        end
      else (w, WNoTxn, None)
  | EDirect o =>
      if w_open w then (w, WNoTxn, None)
      else
        match run_op o (begin_st (w_st w) (w_pub w) (direct_cache o)) with
        | Ok ((out, rm), s') =>
            match out with
            | WOk => ({| w_st := reset_wr s'; w_pub := pub_of s'; w_open := false; w_handed := w_handed w |}, out, rm)
            | _ => ({| w_st := s'; w_pub := w_pub w; w_open := false; w_handed := w_handed w |}, out, rm)
            end
        | Panic => (w, WPanic, None)
        | Oof => (w, WOof, None)
        end
  | ESnapIter | ESnapClone =>
      if w_open w then
        ({| w_st := if reset_on_snapshot then reset_wr (w_st w) else w_st w; w_pub := w_pub w; w_open := true;
            w_handed := w_handed w ++ [s_root (w_st w)] |}, WOk, None)
      else (w, WNoTxn, None)
  | EObsPub =>
      ({| w_st := w_st w; w_pub := w_pub w; w_open := w_open w; w_handed := w_handed w ++ [p_root (w_pub w)] |}, WOk, None)
  end.

Fixpoint run (w : world) (es : list ev) : world :=
  match es with
  | [] => w
  | e :: r => run (fst (fst (step w e))) r
  end.

End Run.

(* nothing allocated yet (address 1 is reserved: the not yet assigned roots pointer) *)
Definition empty_st : st := mkst (PM.empty _) (PM.empty _) 2%positive 1%positive 0%Z 0 0 false [] 0%N [].
(* Router.newTree (fox.go): four empty method roots *)
Definition init_st : st :=
  match (l <- new_empty_roots common_verbs ;; nr <- alloc_arr l ;; set_root nr) empty_st with
  | Ok (_, s) => s
  | _ => empty_st
  end.
Definition init_world : world :=
  {| w_st := init_st; w_pub := pub_of init_st; w_open := false; w_handed := [] |}.

(* ---------- the same events on pure trees (Tree.v) ---------- *)
Record pworld := { q_pub : txn; q_cur : option txn }.

Definition pure_op (t : txn) (o : wop) : txn * wout * option N :=
  match o with
  | WHandle m pat valid psl hs rid =>
      if negb (valid_method_handle m) || negb valid then (t, WInvalid, None)
      else match insert t m (mk_ri pat rid psl hs) with
           | ROk t' => (t', WOk, None)
           | RExist _ => (t, WExist, None)
           | RConflict ps => (t, WConflict ps, None)
           | RNotFound => (t, WPanic, None)
           end
  | WUpdate m pat valid psl hs rid =>
      if is_nil m || negb valid then (t, WInvalid, None)
      else match update t m (mk_ri pat rid psl hs) with
           | ROk t' => (t', WOk, None)
           | _ => (t, WNotFound, None)
           end
  | WDelete m pat valid =>
      if is_nil m || negb valid then (t, WInvalid, None)
      else match remove t m pat with
           | DOk t' r => (t', WOk, Some (rid r))
           | DNotFound => (t, WNotFound, None)
           end
  | WTruncate ms => (truncate t ms, WOk, None)
  end.

Definition is_wok (o : wout) : bool := match o with WOk => true | _ => false end.

Definition pstep (q : pworld) (e : ev) : pworld * wout * option N :=
  match e with
  | EBegin => match q_cur q with Some _ => (q, WNoTxn, None) | None => ({| q_pub := q_pub q; q_cur := Some (q_pub q) |}, WOk, None) end
  | ECommit => (match q_cur q with Some t => {| q_pub := t; q_cur := None |} | None => q end, WOk, None)
  | EAbort => ({| q_pub := q_pub q; q_cur := None |}, WOk, None)
  | EOp o => match q_cur q with
             | Some t => let '(t', out, rm) := pure_op t o in ({| q_pub := q_pub q; q_cur := Some t' |}, out, rm)
             | None => (q, WNoTxn, None)
             end
  | EDirect o => match q_cur q with
                 | Some _ => (q, WNoTxn, None)
                 | None => let '(t', out, rm) := pure_op (q_pub q) o in
                           ({| q_pub := if is_wok out then t' else q_pub q; q_cur := None |}, out, rm)
                 end
  | ESnapIter | ESnapClone => (q, match q_cur q with Some _ => WOk | None => WNoTxn end, None)
  | EObsPub => (q, WOk, None)
  end.

Fixpoint prun (q : pworld) (es : list ev) : pworld :=
  match es with [] => q | e :: r => prun (fst (fst (pstep q e))) r end.

Definition init_pworld : pworld := {| q_pub := empty_txn; q_cur := None |}.

(* the snapshot-taking events, and a history with them erased *)
Definition is_snap (e : ev) : bool := match e with ESnapIter | ESnapClone | EObsPub => true | _ => false end.
Definition strip_snaps (es : list ev) : list ev := filter (fun e => negb (is_snap e)) es.

(* abs of a transaction state: the pure txn record read out of the heap *)
Definition abs_txn (fuel : nat) (s : st) (root : addr) (size : Z) (maxp depth : nat) : option txn :=
  match abs fuel s root with
  | Some rs => Some {| t_roots := rs; t_size := size; t_maxparams := maxp; t_depth := depth |}
  | None => None
  end.
Definition abs_pub (fuel : nat) (w : world) : option txn :=
  abs_txn fuel (w_st w) (p_root (w_pub w)) (p_size (w_pub w)) (p_maxp (w_pub w)) (p_depth (w_pub w)).
Definition abs_cur (fuel : nat) (w : world) : option txn :=
  abs_txn fuel (w_st w) (s_root (w_st w)) (s_size (w_st w)) (s_maxp (w_st w)) (s_depth (w_st w)).

(* ---------- canonical renaming of the object graph ----------
   Depth-first from a list of roots arrays; node ids and array ids are assigned
   in first-visit order (1, 2, ...), separately; empty arrays have id 0 (Go: no
   identity).  A node record is emitted when the node is finished (post-order).
   harness/cmd/c03 performs the same traversal on the addresses of VerifDump.
   The inode chain of a node (newNodeFromRef: one continuation node per infix catch-all of the key,
   sharing the node's children array) is not a heap object of the model; what the model says about it is
   that every node owns a FRESH chain whose members point at the node's own children array.  g_ino lists,
   per chain member k = 1, 2, .., the pair (identity, array id); the expected identity is 8 * node id + k,
   the harness gives an inode object the code of the first node/position it was reached from, so an inode
   object shared between two nodes, or pointing at another array, does not compare equal. *)
Record gnode := { g_id : N; g_key : bytes; g_rt : option (bytes * N); g_arr : N; g_kids : list N;
                  g_ino : list (N * N) }.

Fixpoint inode_count (fuel : nat) (k : bytes) : nat :=
  match fuel with O => O | S f =>
    match first_infix_catch (parse_wildcard k) with
    | Some e => S (inode_count f (skipn e k))
    | None => O
    end
  end.
Definition expected_inodes (id aid : N) (k : bytes) : list (N * N) :=
  map (fun j => (N.add (N.mul 8 id) (N.of_nat j), aid)) (seq 1 (inode_count (List.length k) k)).
Record graph := { gr_roots : list (N * list N); gr_nodes : list gnode }.

Record gstate := { gs_n : PM.t N; gs_a : PM.t N; gs_nc : N; gs_ac : N; gs_out : list gnode }.

Definition arr_id (a : addr) (content : list addr) (g : gstate) : N * gstate :=
  match content with
  | [] => (0%N, g)
  | _ => match PM.find a (gs_a g) with
         | Some i => (i, g)
         | None => let i := N.succ (gs_ac g) in
                   (i, {| gs_n := gs_n g; gs_a := PM.add a i (gs_a g); gs_nc := gs_nc g; gs_ac := i; gs_out := gs_out g |})
         end
  end.

Fixpoint visit (fuel : nat) (s : st) (a : addr) (g : gstate) : option (N * gstate) :=
  match fuel with O => None | S f =>
    match PM.find a (gs_n g) with
    | Some id => Some (id, g)
    | None =>
      match find_node s a with
      | None => None
      | Some o =>
        match find_arr s (n_arr o) with
        | None => None
        | Some ch =>
          let id := N.succ (gs_nc g) in
          let g1 := {| gs_n := PM.add a id (gs_n g); gs_a := gs_a g; gs_nc := id; gs_ac := gs_ac g; gs_out := gs_out g |} in
          let '(aid, g2) := arr_id (n_arr o) ch g1 in
          match (fix go (l : list addr) (g : gstate) : option (list N * gstate) :=
                   match l with
                   | [] => Some ([], g)
                   | x :: t => match visit f s x g with
                               | Some (i, g') => match go t g' with Some (is, g'') => Some (i :: is, g'') | None => None end
                               | None => None
                               end
                   end) ch g2 with
          | Some (kids, g3) =>
              Some (id, {| gs_n := gs_n g3; gs_a := gs_a g3; gs_nc := gs_nc g3; gs_ac := gs_ac g3;
                           gs_out := {| g_id := id; g_key := n_key o;
                                        g_rt := match n_route o with Some r => Some (rpat r, rid r) | None => None end;
                                        g_arr := aid; g_kids := kids;
                                        g_ino := expected_inodes id aid (n_key o) |} :: gs_out g3 |})
          | None => None
          end
        end
      end
    end
  end.

Fixpoint visit_list (fuel : nat) (s : st) (l : list addr) (g : gstate) : option (list N * gstate) :=
  match l with
  | [] => Some ([], g)
  | x :: t => match visit fuel s x g with
              | Some (i, g') => match visit_list fuel s t g' with Some (is, g'') => Some (i :: is, g'') | None => None end
              | None => None
              end
  end.

Fixpoint visit_roots (fuel : nat) (s : st) (ras : list addr) (g : gstate) : option (list (N * list N) * gstate) :=
  match ras with
  | [] => Some ([], g)
  | ra :: t =>
    match find_arr s ra with
    | None => None
    | Some l =>
      let '(aid, g1) := arr_id ra l g in
      match visit_list fuel s l g1 with
      | Some (ids, g2) => match visit_roots fuel s t g2 with Some (more, g3) => Some ((aid, ids) :: more, g3) | None => None end
      | None => None
      end
    end
  end.

Definition canon (fuel : nat) (s : st) (ras : list addr) : option graph :=
  match visit_roots fuel s ras {| gs_n := PM.empty _; gs_a := PM.empty _; gs_nc := 0; gs_ac := 0; gs_out := [] |} with
  | Some (rs, g) => Some {| gr_roots := rs; gr_nodes := rev (gs_out g) |}
  | None => None
  end.

(* roots observed by the harness after a step: every snapshot so far, the published tree, the open transaction *)
Definition observed_roots (w : world) : list addr :=
  w_handed w ++ [p_root (w_pub w)] ++ (if w_open w then [s_root (w_st w)] else []).

(* ---------- case format (harness/cmd/c03) ---------- *)
Record c3step := {
  c_ev : ev;
  c_out : wout; c_removed : option N;          (* what the implementation answered *)
  c_meta : option (Z * nat * nat);             (* size / maxParams / depth of the state visible to the caller (None = not read) *)
  c_graph : option graph;                      (* canonical object graph of observed_roots (None = not dumped at this step) *)
  c_ghash : option N;                          (* or only a 64-bit hash of that graph (long streams over big trees) *)
  c_nh : nat;                                  (* number of snapshots held after this step *)
  c_nf : N;                                    (* number of node ids reachable from those snapshots *)
  c_frozen : list (N * N) }.                   (* per snapshot: digest of its full observation when taken, and now *)

Record c3case := { k_cap : N; k_steps : list c3step }.

(* compact constructors used by the generated case files (numerals are N there) *)
Definition mkG (id : N) (k : bytes) (rt : option (bytes * N)) (arr : N) (kids : list N) : gnode :=
  {| g_id := id; g_key := k; g_rt := rt; g_arr := arr; g_kids := kids; g_ino := [] |}.
Definition mkGI (id : N) (k : bytes) (rt : option (bytes * N)) (arr : N) (kids : list N) (ino : list (N * N)) : gnode :=
  {| g_id := id; g_key := k; g_rt := rt; g_arr := arr; g_kids := kids; g_ino := ino |}.
Definition mkGr (rs : list (N * list N)) (ns : list gnode) : graph := {| gr_roots := rs; gr_nodes := ns |}.
Definition mkH (m p : bytes) (v : bool) (psl hs id : N) : wop := WHandle m p v (N.to_nat psl) (N.to_nat hs) id.
Definition mkU (m p : bytes) (v : bool) (psl hs id : N) : wop := WUpdate m p v (N.to_nat psl) (N.to_nat hs) id.
Definition mkS (e : ev) (out : wout) (rm : option N) (meta : option (Z * N * N)) (g : option graph) (gh : option N)
               (nh nf : N) (fr : list (N * N)) : c3step :=
  {| c_ev := e; c_out := out; c_removed := rm;
     c_meta := match meta with Some (sz, mp, d) => Some (sz, N.to_nat mp, N.to_nat d) | None => None end;
     c_graph := g; c_ghash := gh; c_nh := N.to_nat nh; c_nf := nf; c_frozen := fr |}.

(* steps of the eviction streams: GET /a/b[/c] with a, b indexes into an alphabet, inside the open
   transaction; k = 0 Handle, 1 Update, 2 Delete; o = 0 ok, 1 exists, 2 not found; rm = id of the
   removed route (0 = none).  Nothing else is observed at such a step. *)
Definition fan_pat (alpha : bytes) (a b c : N) : bytes :=
  let ch (i : N) := nth (N.to_nat i) alpha "?"%char in
  "/"%char :: ch a :: "/"%char :: ch b :: (if N.eqb c 0 then [] else ["/"%char; ascii_of_N c]).
Definition mkFan (alpha : bytes) (k a b c id o rm : N) : c3step :=
  let m := m_get in
  let p := fan_pat alpha a b c in
  {| c_ev := EOp (if N.eqb k 0 then mkH m p true 0 0 id else if N.eqb k 1 then mkU m p true 0 0 id else WDelete m p true);
     c_out := if N.eqb o 0 then WOk else if N.eqb o 1 then WExist else WNotFound;
     c_removed := if N.eqb rm 0 then None else Some rm;
     c_meta := None; c_graph := None; c_ghash := None; c_nh := 0; c_nf := 0; c_frozen := [] |}.

(* 61-bit multiplicative hash (h*33 xor x) of a canonical graph (the same arithmetic in harness/cmd/c03) *)
Definition hmix (h x : N) : N := N.land (N.lxor (N.add (N.shiftl h 5) h) x) 2305843009213693951.
Definition hbytes (h : N) (b : bytes) : N := fold_left (fun h c => hmix h (N_of_ascii c)) b (hmix h (N.of_nat (List.length b))).
Definition hlist (h : N) (l : list N) : N := fold_left hmix l (hmix h (N.of_nat (List.length l))).
Definition hnode (h : N) (n : gnode) : N :=
  let h := hmix h (g_id n) in
  let h := hbytes h (g_key n) in
  let h := match g_rt n with Some (p, i) => hmix (hbytes (hmix h 1) p) i | None => hmix h 0 end in
  let h := hlist (hmix h (g_arr n)) (g_kids n) in
  fold_left (fun h p => hmix (hmix h (fst p)) (snd p)) (g_ino n) (hmix h (N.of_nat (List.length (g_ino n)))).
Definition ghash (g : graph) : N :=
  let h := fold_left (fun h r => hlist (hmix h (fst r)) (snd r)) (gr_roots g) 14695981039346656037%N in
  fold_left hnode (gr_nodes g) h.

Definition dfs_fuel : nat := 200.

Definition wout_eqb (a b : wout) : bool :=
  match a, b with
  | WOk, WOk | WExist, WExist | WNotFound, WNotFound | WInvalid, WInvalid | WPanic, WPanic | WOof, WOof | WNoTxn, WNoTxn => true
  | WConflict x, WConflict y => list_eqb bytes_eqb x y
  | _, _ => false
  end.

Definition rt_eqb (a b : bytes * N) : bool := bytes_eqb (fst a) (fst b) && N.eqb (snd a) (snd b).
Definition gnode_eqb (a b : gnode) : bool :=
  N.eqb (g_id a) (g_id b) && bytes_eqb (g_key a) (g_key b) && opt_eqb rt_eqb (g_rt a) (g_rt b) &&
  N.eqb (g_arr a) (g_arr b) && list_eqb N.eqb (g_kids a) (g_kids b) &&
  list_eqb (fun x y => N.eqb (fst x) (fst y) && N.eqb (snd x) (snd y)) (g_ino a) (g_ino b).
Definition groot_eqb (a b : N * list N) : bool := N.eqb (fst a) (fst b) && list_eqb N.eqb (snd a) (snd b).
Definition graph_eqb (a b : graph) : bool :=
  list_eqb groot_eqb (gr_roots a) (gr_roots b) && list_eqb gnode_eqb (gr_nodes a) (gr_nodes b).

Definition visible_meta (w : world) : Z * nat * nat :=
  if w_open w then (s_size (w_st w), s_maxp (w_st w), s_depth (w_st w))
  else (p_size (w_pub w), p_maxp (w_pub w), p_depth (w_pub w)).

(* 0 = agrees; otherwise which comparison failed first (1 outcome, 2 removed, 3 meta, 4 graph, 5 model panic / oof) *)
Definition step_agrees (w' : world) (out : wout) (rm : option N) (c : c3step) : bool :=
  wout_eqb out (c_out c) && opt_eqb N.eqb rm (c_removed c) &&
  match c_meta c with
  | Some (sz', mp', d') => let '(sz, mp, d) := visible_meta w' in Z.eqb sz sz' && Nat.eqb mp mp' && Nat.eqb d d'
  | None => true
  end &&
  match c_graph c, c_ghash c with
  | None, None => true
  | og, oh =>
      match canon dfs_fuel (w_st w') (observed_roots w') with
      | Some g' => match og with Some g => graph_eqb g' g | None => true end &&
                   match oh with Some h => N.eqb (ghash g') h | None => true end
      | None => false
      end
  end.

Fixpoint run_agrees (ev : N -> list addr -> list addr) (w : world) (cs : list c3step) : bool :=
  match cs with
  | [] => true
  | c :: r => let '(w', out, rm) := step ev dfs_fuel true w (c_ev c) in
              step_agrees w' out rm c && run_agrees ev w' r
  end.

Definition c3_model_agrees (c : c3case) : bool := run_agrees (lru_evict (N.to_nat (k_cap c))) init_world (k_steps c).

Fixpoint run_oof (ev : N -> list addr -> list addr) (w : world) (cs : list c3step) : bool :=
  match cs with
  | [] => false
  | c :: r => let '(w', out, _) := step ev dfs_fuel true w (c_ev c) in
              match out with WOof => true | _ => run_oof ev w' r end
  end.
Definition c3_oof (c : c3case) : bool := run_oof (lru_evict (N.to_nat (k_cap c))) init_world (k_steps c).

(* ---------- specification on the observations alone (no model) ----------
   (a) every snapshot shows now what it showed when it was taken (digest of All / Has / Route /
       Reverse / Lookup-with-params over the probe set);
   (b) the objects reachable from the snapshots held after step k are, at step k+1, the same
       objects with the same contents (ids <= c_nf of step k: first-visit order visits the
       snapshots first, so an unchanged sub-graph keeps its ids). *)
Definition digests_ok (c : c3step) : bool := forallb (fun p => N.eqb (fst p) (snd p)) (c_frozen c).

Definition frozen_part (nh : nat) (nf : N) (g : graph) : list (N * list N) * list gnode :=
  (firstn nh (gr_roots g), filter (fun n => N.leb (g_id n) nf) (gr_nodes g)).

Definition frozen_pair_ok (a b : c3step) : bool :=
  match c_graph a, c_graph b with
  | Some ga, Some gb =>
      let '(ra, na) := frozen_part (c_nh a) (c_nf a) ga in
      let '(rb, nb) := frozen_part (c_nh a) (c_nf a) gb in
      list_eqb groot_eqb ra rb && list_eqb gnode_eqb na nb
  | _, _ => true
  end.

Fixpoint frozen_struct_ok (cs : list c3step) : bool :=
  match cs with
  | a :: (b :: _) as r => frozen_pair_ok a b && frozen_struct_ok r
  | _ => true
  end.

Definition c3_spec_ok (c : c3case) : bool := forallb digests_ok (k_steps c) && frozen_struct_ok (k_steps c).

(* one model run per case: 0 = agrees, 1 = implementation <> model, 2 = model out of fuel *)
Fixpoint run_code (ev : N -> list addr -> list addr) (w : world) (cs : list c3step) : N :=
  match cs with
  | [] => 0
  | c :: r => let '(w', out, rm) := step ev dfs_fuel true w (c_ev c) in
              match out with
              | WOof => 2
              | _ => if step_agrees w' out rm c then run_code ev w' r else 1
              end
  end.
Definition c3_code (c : c3case) : N := run_code (lru_evict (N.to_nat (k_cap c))) init_world (k_steps c).
Definition c3_codes (cs : list c3case) : list N := map c3_code cs.
Definition codes_eq (k : N) (codes : list N) : list nat := true_idx (map (N.eqb k) codes).

Definition c3_mismatches (cs : list c3case) : list nat := true_idx (map (fun c => negb (c3_model_agrees c)) cs).
Definition c3_violations (cs : list c3case) : list nat := true_idx (map (fun c => negb (c3_spec_ok c)) cs).
Definition c3_oofs (cs : list c3case) : list nat := true_idx (map c3_oof cs).
