(* C16 — the buffer-capacity view of M1.

   A pooled context (tree.go allocateContext) owns three slices whose backing
   arrays persist while the context sits in the pool:
       params    cap maxParams      tsrParams  cap maxParams      skipNds  cap depth
   Every write into them is an append / copyWithResize; the Go runtime allocates
   exactly when the length to be reached exceeds the current capacity (a growth
   event), after which the capacity is at least that length and stays.

   M1 (Lookup.v) carries the three slices as lists (ps, tps, sks).  lbpI / lbdI /
   roots_lookupI below are lbp / lbd / roots_lookup with one extra accumulator:
   the high-water marks of the three lengths, taken at the entry of every step
   and on every returned result, over the main context and all sub-contexts
   (sub-contexts come from the same pool, so any pooled context can play any
   role; the marks are the maximum over the roles).  tsrParams is stale between
   requests and is only ever written together with tsr := true, so its length
   counts only while tsr is set in a non-lazy run.
   A run on contexts with capacities c has no growth event iff marks <= c.

   No proofs in this file (Alloc2.v): the case files evaluate these functions. *)
From FoxBase Require Import Bytes.
From FoxRoute Require Import Node Lookup Tree Guard.
Open Scope char_scope.

Record hw := { h_ps : nat; h_tps : nat; h_sks : nat }.
Definition hw0 : hw := {| h_ps := 0; h_tps := 0; h_sks := 0 |}.

Definition hw_le (a b : hw) : Prop := h_ps a <= h_ps b /\ h_tps a <= h_tps b /\ h_sks a <= h_sks b.
Definition hw_leb (a b : hw) : bool :=
  Nat.leb (h_ps a) (h_ps b) && Nat.leb (h_tps a) (h_tps b) && Nat.leb (h_sks a) (h_sks b).
Definition hw_max (a b : hw) : hw :=
  {| h_ps := Nat.max (h_ps a) (h_ps b); h_tps := Nat.max (h_tps a) (h_tps b); h_sks := Nat.max (h_sks a) (h_sks b) |}.

(* marks at the entry of a step *)
Definition bump (lazy : bool) (h : hw) (s : st) : hw :=
  {| h_ps := Nat.max (h_ps h) (List.length (ps s));
     h_tps := if tsr s && negb lazy then Nat.max (h_tps h) (List.length (tps s)) else h_tps h;
     h_sks := Nat.max (h_sks h) (List.length (sks s)) |}.
(* marks for a params list returned without passing through a state *)
Definition hp (h : hw) (p : list kv) : hw :=
  {| h_ps := Nat.max (h_ps h) (List.length p); h_tps := h_tps h; h_sks := h_sks h |}.

Fixpoint lbpI (fuel : nat) (path : bytes) (lazy : bool) (ph : phase) (s : st) (h : hw) {struct fuel} : lres * hw :=
  match fuel with O => (LOutOfFuel, h) | S f =>
  let h := bump lazy h s in
  let n := List.length path in
  let key := nkey (cur s) in
  match ph with
  | PWalk =>
      if Nat.ltb (cm s) n
      then lbpI f path lazy (PInner 0)
             {| cur := cur s; par := par s; cm := cm s; cmn := 0; pcnt := pcnt s; pkc := pkc s; sks := sks s;
                ps := ps s; tsr := tsr s; tn := tn s; tps := tps s |} h
      else lbpI f path lazy PAfter s h
  | PInner i =>
      if negb (Nat.ltb (cm s) n) then lbpI f path lazy PSelect s h
      else if negb (Nat.ltb i (List.length key)) then lbpI f path lazy PSelect s h
      else
      match nth_error key i, nth_error path (cm s) with
      | Some k, Some p =>
        if negb (Ascii.eqb k p) || Ascii.eqb p "{" || Ascii.eqb p "*" then
          if Ascii.eqb k "{" then
            match index_byte (skipn (cm s) path) "/" with
            | Some O => lbpI f path lazy PAfter s h
            | idx =>
              let cm' := match idx with Some d => cm s + d | None => n end in
              match nth_error (nparams (cur s)) (pkc s) with
              | None => (LPanic, h)
              | Some prm =>
                let rest := List.length key - cmn s in
                let adv := match pend prm with
                           | Some e => if Nat.leb (cmn s) e then e - cmn s else rest
                           | None => rest end in
                lbpI f path lazy (PInner (i + adv))
                  {| cur := cur s; par := par s; cm := cm'; cmn := cmn s + adv;
                     pcnt := if lazy then pcnt s else S (pcnt s); pkc := S (pkc s); sks := sks s;
                     ps := if lazy then ps s else ps s ++ [(pkey prm, slice path (cm s) cm')];
                     tsr := tsr s; tn := tn s; tps := tps s |} h
              end
            end
          else if Ascii.eqb k "*" then
            match nth_error (nparams (cur s)) (pkc s) with
            | None => (LPanic, h)
            | Some prm =>
              let rest := List.length key - cmn s in
              let go (ino : node) (d : nat) :=
                lbpI f path lazy (PCatch ino (cm s))
                  {| cur := cur s; par := par s; cm := cm s; cmn := cmn s + d; pcnt := pcnt s; pkc := pkc s;
                     sks := sks s; ps := ps s; tsr := tsr s; tn := tn s; tps := tps s |} h in
              match (match pend prm with Some e => if Nat.leb (cmn s) e then Some (e - cmn s) else None | None => None end) with
              | Some d => match inode (cur s) with Some ino => go ino d | None => (LPanic, h) end
              | None =>
                match nchildren (cur s) with
                | c0 :: _ => go c0 rest
                | [] => let p' := if lazy then ps s else ps s ++ [(pkey prm, skipn (cm s) path)] in
                        (Found (Some (cur s)) false p' (tps s), hp h p')
                end
              end
            end
          else lbpI f path lazy PAfter s h
        else
          lbpI f path lazy (PInner (S i))
            {| cur := cur s; par := par s; cm := S (cm s); cmn := S (cmn s); pcnt := pcnt s; pkc := pkc s;
               sks := sks s; ps := ps s; tsr := tsr s; tn := tn s; tps := tps s |} h
      | _, _ => (LPanic, h)
      end
  | PCatch ino start =>
      match nth_error (nparams (cur s)) (pkc s) with
      | None => (LPanic, h)
      | Some prm =>
        match index_byte (skipn (cm s) path) "/" with
        | Some (S d) =>
          let cm' := cm s + S d in
          let next (s1 : st) (h1 : hw) :=
            lbpI f path lazy (PCatch ino start)
              {| cur := cur s1; par := par s1; cm := S cm'; cmn := cmn s1; pcnt := pcnt s1; pkc := pkc s1;
                 sks := sks s1; ps := ps s1; tsr := tsr s1; tn := tn s1; tps := tps s1 |} h1 in
          match lbpI f (skipn cm' path) false PWalk (init_st ino [] []) h with
          | (Found None _ _ _, h1) => next s h1
          | (Found (Some sn) true _ stps, h1) =>
              next (if tsr s then s
                    else set_tsr lazy s sn (ps s ++ [(pkey prm, slice path start cm')] ++ stps)) h1
          | (Found (Some sn) false sps _, h1) =>
              let p' := if lazy then ps s else ps s ++ [(pkey prm, slice path start cm')] ++ sps in
              (Found (Some sn) false p' (tps s), hp h1 p')
          | (LPanic, h1) => (LPanic, h1)
          | (LOutOfFuel, h1) => (LOutOfFuel, h1)
          end
        | _ =>
          let ps' := if lazy then ps s else ps s ++ [(pkey prm, skipn start path)] in
          match pend prm with
          | None => (Found (Some (cur s)) false ps' (tps s), hp h ps')
          | Some _ =>
            match nth_error path start with
            | None => (LPanic, h)
            | Some c0 =>
            if Ascii.eqb c0 "/" then lbpI f path lazy PAfter s h
            else
            lbpI f path lazy PAfter
              {| cur := cur s; par := par s; cm := n; cmn := cmn s; pcnt := pcnt s; pkc := pkc s; sks := sks s;
                 ps := ps'; tsr := tsr s; tn := tn s; tps := tps s |} h
            end
          end
        end
      end
  | PSelect =>
      if Nat.ltb (cm s) n then
        match nth_error path (cm s) with
        | None => (LPanic, h)
        | Some p =>
          match find_child (cur s) p with
          | None =>
            let s := if negb (tsr s) && is_leaf (cur s) && Nat.eqb (cmn s) (List.length key)
                        && Nat.eqb (n - cm s) 1 && Ascii.eqb p "/"
                     then set_tsr lazy s (cur s) (ps s) else s in
            match param_child_index (cur s) with
            | Some pi =>
              let s1 := match wildcard_child_index (cur s) with Some wi => push s wi | None => s end in
              match nth_error (nchildren (cur s)) pi with
              | Some c => lbpI f path lazy PWalk (descend s1 c) h
              | None => (LPanic, h) end
            | None =>
              match wildcard_child_index (cur s) with
              | Some wi =>
                match nth_error (nchildren (cur s)) wi with
                | Some c => lbpI f path lazy PWalk (descend s c) h
                | None => (LPanic, h) end
              | None => lbpI f path lazy PAfter s h
              end
            end
          | Some idx =>
            let s1 := match wildcard_child_index (cur s) with Some wi => push s wi | None => s end in
            let s2 := match param_child_index (cur s) with Some pi => push s1 pi | None => s1 end in
            match nth_error (nchildren (cur s)) idx with
            | Some c => lbpI f path lazy PWalk (descend s2 c) h
            | None => (LPanic, h) end
          end
        end
      else lbpI f path lazy PWalk s h
  | PAfter =>
      let s := {| cur := cur s; par := par s; cm := cm s; cmn := cmn s; pcnt := 0; pkc := 0; sks := sks s;
                  ps := ps s; tsr := tsr s; tn := tn s; tps := tps s |} in
      if negb (is_leaf (cur s)) then
        let s1 :=
          if negb (tsr s) && has_suffix_slash path && par_is_leaf s && Nat.eqb (cm s) n
             && Nat.eqb (cmn s) 1 && starts_with "/" key
          then match par s with Some p => set_tsr lazy s p (ps s) | None => s end
          else if negb (tsr s) && Nat.eqb (cm s) n && Nat.eqb (cmn s) (List.length key) && negb (has_suffix_slash path)
          then match find_child (cur s) "/" with
               | Some idx =>
                 match nth_error (nchildren (cur s)) idx with
                 | Some c => if is_leaf c && Nat.eqb (List.length (nkey c)) 1 then set_tsr lazy s c (ps s) else s
                 | None => s
                 end
               | None => s
               end
          else s in
        lbpI f path lazy PBack s1 h
      else if Nat.eqb (cm s) n && Nat.eqb (cmn s) (List.length key) then
        (Found (Some (cur s)) false (ps s) (tps s), h)
      else if Nat.eqb (cm s) n && Nat.ltb (cmn s) (List.length key) then
        let s1 :=
          if tsr s then s
          else if has_suffix_slash path then
            if par_is_leaf s && bytes_eqb (firstn (cmn s) key) ["/"]
            then match par s with Some p => set_tsr lazy s p (ps s) | None => s end
            else s
          else
            if bytes_eqb (skipn (cmn s) key) ["/"] then set_tsr lazy s (cur s) (ps s) else s in
        lbpI f path lazy PBack s1 h
      else if Nat.ltb (cm s) n && Nat.eqb (cmn s) (List.length key) then
        let s1 :=
          if negb (tsr s) && bytes_eqb (skipn (cm s) path) ["/"] then set_tsr lazy s (cur s) (ps s) else s in
        lbpI f path lazy PBack s1 h
      else lbpI f path lazy PBack s h
  | PBack =>
      match sks s with
      | sk :: rest =>
        match nth_error (nchildren (sk_n sk)) (sk_child sk) with
        | None => (LPanic, h)
        | Some c =>
          if Nat.ltb (List.length (ps s)) (sk_pcnt sk) then (LPanic, h)
          else
          lbpI f path lazy PWalk
            {| cur := c; par := Some (sk_n sk); cm := sk_path sk; cmn := cmn s; pcnt := sk_pcnt sk; pkc := pkc s;
               sks := rest; ps := firstn (sk_pcnt sk) (ps s); tsr := tsr s; tn := tn s; tps := tps s |} h
        end
      | [] => (Found (tn s) (tsr s) (ps s) (tps s), h)
      end
  end end.

Definition lookup_by_pathI (fuel : nat) (target : node) (path : bytes) (lazy : bool) (ps0 tps0 : list kv) (h : hw) : lres * hw :=
  lbpI fuel path lazy PWalk (init_st target ps0 tps0) h.

Fixpoint lbdI (fuel : nat) (host path : bytes) (lazy : bool) (ph : dphase) (s : st) (h : hw) {struct fuel} : lres * hw :=
  match fuel with O => (LOutOfFuel, h) | S f =>
  let h := bump lazy h s in
  let n := List.length host in
  let key := nkey (cur s) in
  match ph with
  | DWalk =>
      if Nat.ltb (cm s) n
      then lbdI f host path lazy (DInner 0)
             {| cur := cur s; par := par s; cm := cm s; cmn := 0; pcnt := pcnt s; pkc := pkc s; sks := sks s;
                ps := ps s; tsr := tsr s; tn := tn s; tps := tps s |} h
      else lbdI f host path lazy DAfter s h
  | DInner i =>
      if negb (Nat.ltb (cm s) n) then lbdI f host path lazy DSelect s h
      else if negb (Nat.ltb i (List.length key)) then lbdI f host path lazy DSelect s h
      else
      match nth_error key i, nth_error host (cm s) with
      | Some k, Some p =>
        if negb (Ascii.eqb k p) || Ascii.eqb p "{" then
          if Ascii.eqb k "{" then
            match index_byte (skipn (cm s) host) "." with
            | Some O => lbdI f host path lazy DAfter s h
            | idx =>
              let cm' := match idx with Some d => cm s + d | None => n end in
              match nth_error (nparams (cur s)) (pkc s) with
              | None => (LPanic, h)
              | Some prm =>
                let rest := List.length key - cmn s in
                let adv := match pend prm with
                           | Some e => if Nat.leb (cmn s) e then e - cmn s else rest
                           | None => rest end in
                lbdI f host path lazy (DInner (i + adv))
                  {| cur := cur s; par := par s; cm := cm'; cmn := cmn s + adv;
                     pcnt := if lazy then pcnt s else S (pcnt s); pkc := S (pkc s); sks := sks s;
                     ps := if lazy then ps s else ps s ++ [(pkey prm, slice host (cm s) cm')];
                     tsr := tsr s; tn := tn s; tps := tps s |} h
              end
            end
          else lbdI f host path lazy DAfter s h
        else
          lbdI f host path lazy (DInner (S i))
            {| cur := cur s; par := par s; cm := S (cm s); cmn := S (cmn s); pcnt := pcnt s; pkc := pkc s;
               sks := sks s; ps := ps s; tsr := tsr s; tn := tn s; tps := tps s |} h
      | _, _ => (LPanic, h)
      end
  | DSelect =>
      if Nat.ltb (cm s) n then
        match nth_error host (cm s) with
        | None => (LPanic, h)
        | Some p =>
          match find_child (cur s) p with
          | None =>
            match param_child_index (cur s) with
            | Some pi =>
              match nth_error (nchildren (cur s)) pi with
              | Some c => lbdI f host path lazy DWalk (dgo s c) h
              | None => (LPanic, h) end
            | None => lbdI f host path lazy DAfter s h
            end
          | Some idx =>
            let s1 := match param_child_index (cur s) with Some pi => dpush s (cur s) pi | None => s end in
            match nth_error (nchildren (cur s)) idx with
            | Some c => lbdI f host path lazy DWalk (dgo s1 c) h
            | None => (LPanic, h) end
          end
        end
      else lbdI f host path lazy DWalk s h
  | DAfter =>
      let s := {| cur := cur s; par := par s; cm := cm s; cmn := cmn s; pcnt := 0; pkc := 0; sks := sks s;
                  ps := ps s; tsr := tsr s; tn := tn s; tps := tps s |} in
      if Nat.eqb (cm s) n && Nat.eqb (cmn s) (List.length key) then
        match find_child (cur s) "/" with
        | None => lbdI f host path lazy DBack s h
        | Some idx =>
          match nth_error (nchildren (cur s)) idx with
          | None => (LPanic, h)
          | Some c =>
            match lookup_by_pathI f c path lazy [] [] h with
            | (Found None _ _ _, h1) => lbdI f host path lazy DBack s h1
            | (Found (Some sn) true _ stps, h1) =>
                lbdI f host path lazy DBack (if tsr s then s else set_tsr lazy s sn (ps s ++ stps)) h1
            | (Found (Some sn) false sps _, h1) =>
                let p' := if lazy then ps s else ps s ++ sps in
                (Found (Some sn) false p' (tps s), hp h1 p')
            | (LPanic, h1) => (LPanic, h1)
            | (LOutOfFuel, h1) => (LOutOfFuel, h1)
            end
          end
        end
      else lbdI f host path lazy DBack s h
  | DBack =>
      match sks s with
      | sk :: rest =>
        match nth_error (nchildren (sk_n sk)) (sk_child sk) with
        | None => (LPanic, h)
        | Some c =>
          if Nat.ltb (List.length (ps s)) (sk_pcnt sk) then (LPanic, h)
          else
          lbdI f host path lazy DWalk
            {| cur := c; par := None; cm := sk_path sk; cmn := cmn s; pcnt := sk_pcnt sk; pkc := pkc s;
               sks := rest; ps := firstn (sk_pcnt sk) (ps s); tsr := tsr s; tn := tn s; tps := tps s |} h
        end
      | [] => (Found (tn s) (tsr s) (ps s) (tps s), h)
      end
  end end.

Definition lookup_by_domainI (fuel : nat) (target : node) (host path : bytes) (lazy : bool) (ps0 tps0 : list kv) (h : hw) : lres * hw :=
  match host with
  | [] => (LPanic, h)
  | h0 :: _ =>
    let s0 := init_st target ps0 tps0 in
    match find_child target h0 with
    | None =>
      match param_child_index target with
      | Some pi => match nth_error (nchildren target) pi with
                   | Some c => lbdI fuel host path lazy DWalk (dgo s0 c) h
                   | None => (LPanic, h) end
      | None => (Found None false ps0 tps0, h)
      end
    | Some idx =>
      let s1 := match param_child_index target with Some pi => dpush s0 target pi | None => s0 end in
      match nth_error (nchildren target) idx with
      | Some c => lbdI fuel host path lazy DWalk (dgo s1 c) h
      | None => (LPanic, h) end
    end
  end.

Definition roots_lookupI (fuel : nat) (r : roots) (method host path : bytes) (lazy : bool) (ps0 tps0 : list kv) (h : hw) : lres * hw :=
  match method_index r method with
  | None => (Found None false ps0 tps0, h)
  | Some index =>
    match nth_error r index with
    | None => (LPanic, h)
    | Some root =>
      match nchildren root with
      | [] => (Found None false ps0 tps0, h)
      | c0 :: rest =>
        if match rest with [] => starts_with "/" (nkey c0) | _ => false end
        then lookup_by_pathI fuel c0 path lazy ps0 tps0 h
        else
          let fallback (tps1 : list kv) (h1 : hw) :=
            match find_child root "/" with
            | None => (Found None false [] tps1, h1)
            | Some idx =>
              match nth_error (nchildren root) idx with
              | Some c => lookup_by_pathI fuel c path lazy [] tps1 h1
              | None => (LPanic, h1) end
            end in
          match host with
          | [] => match find_child root "/" with
                  | None => (Found None false ps0 tps0, h)
                  | Some _ => fallback tps0 h end
          | _ =>
            match lookup_by_domainI fuel root host path lazy ps0 tps0 h with
            | (Found (Some n) t p tp, h1) => (Found (Some n) t p tp, h1)
            | (Found None _ p tp, h1) =>
                match find_child root "/" with
                | None => (Found None false p tp, h1)
                | Some _ => fallback tp h1 end
            | (LPanic, h1) => (LPanic, h1)
            | (LOutOfFuel, h1) => (LOutOfFuel, h1)
            end
          end
      end
    end
  end.

(* ---------- capacities ---------- *)
(* capacities of every pooled context of a tree (allocateContext) *)
Definition caps_of (maxparams depth : nat) : hw := {| h_ps := maxparams; h_tps := maxparams; h_sks := depth |}.
Definition txn_caps (t : txn) : hw := caps_of (t_maxparams t) (t_depth t).

(* the marks of serving one request with ServeHTTP (c.reset: params[:0]; tsrParams stale = tps0) *)
(* host = netutil.StripHostPort(r.Host); roots.lookup skips the hostname pass when it contains a '/'
   (node.go:96-104, Guard.host_guard), exactly as for an empty host *)
Definition serve_marks (r : roots) (method host path : bytes) (tps0 : list kv) : hw :=
  snd (roots_lookupI big_fuel r method (host_guard host) path false [] tps0 hw0).

(* per buffer: does a run with marks h on capacities c contain a growth event *)
Definition grow_ps (c h : hw) : bool := Nat.ltb (h_ps c) (h_ps h).
Definition grow_tps (c h : hw) : bool := Nat.ltb (h_tps c) (h_tps h).
Definition grow_sks (c h : hw) : bool := Nat.ltb (h_sks c) (h_sks h).
Definition grows (c h : hw) : bool := grow_ps c h || grow_tps c h || grow_sks c h.

(* ---------- static bounds computed from the tree ---------- *)
Definition maxl (f : node -> nat) (l : list node) : nat := fold_right (fun c acc => Nat.max (f c) acc) 0 l.

(* wdepth: most wildcards on a path from this node down *)
Fixpoint wdepth (n : node) : nat :=
  match n with Node k _ ch => List.length (parse_wildcard k) + fold_right (fun c acc => Nat.max (wdepth c) acc) 0 ch end.
Definition maxc (n : node) : nat := maxl wdepth (nchildren n).
Definition wroots (r : roots) : nat := maxl maxc r.

(* sneed: most skipped-node entries that can be stacked on a descent from this node:
   a node pushes one entry per alternative (wildcard child, param child) it has *)
Definition alts (n : node) : nat :=
  (match wildcard_child_index n with Some _ => 1 | None => 0 end) +
  (match param_child_index n with Some _ => 1 | None => 0 end).
Fixpoint sneed (n : node) : nat :=
  match n with Node k r ch =>
    alts (Node k r ch) + fold_right (fun c acc => Nat.max (sneed c) acc) 0 ch end.
Definition sroots (r : roots) : nat := maxl sneed r.

(* ---------- cases (harness c16) ---------- *)
(* One case = one (tree, request) measured on the real router:
   a_cold  : which buffers of some pooled context changed capacity while the request was served
             for the first time on a freshly built router (params, tsrParams, skipNds);
   a_warm  : did any capacity change during the measured (post warm-up) runs;
   a_allocs: heap allocations per ServeHTTP call after warm-up (minimum over repetitions);
   a_match : the request was served by a route handler (direct match or ignored trailing slash);
   a_tsr   : it was an ignored-trailing-slash match. *)
Record acase := { a_roots : roots; a_maxparams : nat; a_depth : nat;
                  a_method : bytes; a_rawhost : bytes (* the Host header *);
                  a_host : bytes (* netutil.StripHostPort(Host), as computed by the implementation *);
                  a_path : bytes;
                  a_match : bool; a_tsr : bool; a_pattern : bytes;
                  a_cold : bool * bool * bool; a_warm : bool; a_allocs : N }.

Definition a_caps (c : acase) : hw := caps_of (a_maxparams c) (a_depth c).
Definition a_run (c : acase) : lres * hw :=
  roots_lookupI big_fuel (a_roots c) (a_method c) (host_guard (a_host c)) (a_path c) false [] [] hw0.

Definition model_outcome (r : lres) : option (bool * bool * bytes) :=   (* found-with-handler?, tsr, pattern *)
  match r with
  | Found None _ _ _ => Some (false, false, [])
  | Found (Some n) t _ _ => match nroute n with Some rt => Some (true, t, rpat rt) | None => None end
  | _ => None
  end.

(* implementation = model: same outcome, and the buffers that grew on the cold run are exactly
   the ones the marks say must grow from the allocateContext capacities *)
Definition a_agrees (c : acase) : bool :=
  let '(r, h) := a_run c in
  match model_outcome r with
  | None => false
  | Some (found, t, pat) =>
      (if a_match c then found && Bool.eqb t (a_tsr c) && bytes_eqb pat (a_pattern c) else true) &&
      let '(gp, gt, gs) := a_cold c in
      Bool.eqb gp (grow_ps (a_caps c) h) && Bool.eqb gt (grow_tps (a_caps c) h) && Bool.eqb gs (grow_sks (a_caps c) h)
  end.

(* the property: a matching request, after warm-up, allocates nothing and grows nothing *)
Definition a_spec_ok (c : acase) : bool :=
  if a_match c then N.eqb (a_allocs c) 0 && negb (a_warm c) else true.

(* the static bounds hold on the dumped tree and the marks respect them *)
Definition a_bounds_ok (c : acase) : bool :=
  let h := snd (a_run c) in
  Nat.leb (wroots (a_roots c)) (a_maxparams c) &&
  Nat.leb (h_ps h) (wroots (a_roots c)) && Nat.leb (h_tps h) (wroots (a_roots c)) &&
  Nat.leb (h_sks h) (sroots (a_roots c)).

Definition a_oof (c : acase) : bool := match fst (a_run c) with LOutOfFuel => true | _ => false end.

Definition a_mismatches (cs : list acase) : list nat := true_idx (map (fun c => negb (a_agrees c && a_bounds_ok c)) cs).
Definition a_violations (cs : list acase) : list nat := true_idx (map (fun c => negb (a_spec_ok c)) cs).
Definition a_fuel_outs (cs : list acase) : list nat := true_idx (map a_oof cs).
(* cases where the cold run had to grow the skipped-node stack: depth under-sizes it (docs/C16.md) *)
Definition a_cold_growth (cs : list acase) : list nat :=
  true_idx (map (fun c => grows (a_caps c) (snd (a_run c))) cs).
