(* C16 — Routing a matching request allocates nothing: the statements.
   PARTIAL by nature: these theorems are about the buffer logic of the matcher (how long
   params / tsrParams / skipNds get, compared with the capacities of the pooled context);
   heap allocation itself (escape analysis, sync.Pool retention, the allocator) is measured
   on the real router by harness/cmd/c16, not modelled.  See docs/C16.md. *)
From FoxBase Require Import Bytes.
From FoxRoute Require Import Node Lookup Tree Alloc Alloc2 AllocHist AllocHist2.

(* the full property, visible but NOT provable in a Gallina model (never used as a hypothesis):
   "heap allocations of ServeHTTP on a matching request in steady state = 0".  Its model-level
   content is [no_growth_in_steady_state_statement]; the rest is measured. *)
Definition no_growth_in_steady_state_statement : Prop :=
  forall r m host path stale1 stale2 caps caps',
    hw_le (hw_max caps (serve_marks r m host path stale1)) caps' ->
    grows caps' (serve_marks r m host path stale2) = false.

(* the instrumented lookup returns exactly M1's result *)
Theorem lookupI_simulates : forall f r m host path lazy ps0 tps0 h,
  fst (roots_lookupI f r m host path lazy ps0 tps0 h) = roots_lookup f r m host path lazy ps0 tps0.
Proof. exact Alloc2.lookupI_simulates. Qed.
Print Assumptions lookupI_simulates.

(* in every context taking part in a lookup, at every moment: len(params), len(tsrParams) <= the most
   wildcards on a root-to-leaf path; len(skipNds) <= sroots (one entry per alternative per level) *)
Theorem marks_bounded : forall f r m host path lazy tps0,
  hw_le (snd (roots_lookupI f r m host path lazy [] tps0 hw0))
        {| h_ps := wroots r; h_tps := wroots r; h_sks := sroots r |}.
Proof. exact Alloc2.marks_bounded. Qed.
Print Assumptions marks_bounded.

Theorem params_bounded : forall f (t : txn) m host path lazy tps0,
  wroots (t_roots t) <= t_maxparams t ->
  let h := snd (roots_lookupI f (t_roots t) m host path lazy [] tps0 hw0) in
  grow_ps (txn_caps t) h = false /\ grow_tps (txn_caps t) h = false.
Proof. exact Alloc2.params_bounded. Qed.
Print Assumptions params_bounded.

Example params_bound_attained :
  wroots (t_roots wide_txn) <= t_maxparams wide_txn /\
  h_ps (serve_marks (t_roots wide_txn) (S2B "GET") [] (S2B "/x/y/z/w") []) = 3 /\
  fst (roots_lookupI big_fuel wide_roots (S2B "GET") [] (S2B "/x/y/z/w") false [] [] hw0) =
    Found (Some (Node (S2B "/{a}/{b}/*{c}") (rt "/{a}/{b}/*{c}") [])) false
          [(S2B "a", S2B "x"); (S2B "b", S2B "y"); (S2B "c", S2B "z/w")] [].
Proof. exact Alloc2.params_bound_attained. Qed.
Print Assumptions params_bound_attained.

Theorem skipped_bounded : forall f (t : txn) m host path lazy tps0,
  h_sks (snd (roots_lookupI f (t_roots t) m host path lazy [] tps0 hw0)) <= sroots (t_roots t).
Proof. exact Alloc2.skipped_bounded. Qed.
Print Assumptions skipped_bounded.

Example skipped_bound_attained :
  h_sks (serve_marks ladder_roots (S2B "GET") [] (S2B "/a/b/c") []) = 4 /\ sroots ladder_roots = 4 /\ t_depth ladder_txn = 3.
Proof. exact Alloc2.skipped_bound_attained. Qed.
Print Assumptions skipped_bound_attained.

(* "skipNds never exceeds its allocateContext capacity (depth)" is false: a cold context grows it *)
Theorem skipped_bounded_by_depth_refuted :
  exists (t : txn) m host path,
    wroots (t_roots t) <= t_maxparams t /\
    grow_sks (txn_caps t) (serve_marks (t_roots t) m host path []) = true.
Proof. exact Alloc2.skipped_bounded_by_depth_refuted. Qed.
Print Assumptions skipped_bounded_by_depth_refuted.

Theorem cold_context_growth_only_skipnds : forall (t : txn) m host path stale,
  wroots (t_roots t) <= t_maxparams t ->
  grows (txn_caps t) (serve_marks (t_roots t) m host path stale) =
  grow_sks (txn_caps t) (serve_marks (t_roots t) m host path stale).
Proof. exact Alloc2.cold_context_growth_only_skipnds. Qed.
Print Assumptions cold_context_growth_only_skipnds.

(* the marks do not depend on what an earlier request left in tsrParams *)
Theorem marks_ignore_stale_tsrparams : forall f r m host path lazy ps0 x y h,
  snd (roots_lookupI f r m host path lazy ps0 x h) = snd (roots_lookupI f r m host path lazy ps0 y h).
Proof. exact Alloc2.marks_ignore_stale_tsrparams. Qed.
Print Assumptions marks_ignore_stale_tsrparams.

(* steady state, full, for all trees and requests *)
Theorem warm_context_no_growth : no_growth_in_steady_state_statement.
Proof. exact Alloc2.warm_context_no_growth. Qed.
Print Assumptions warm_context_no_growth.

Example warm_after_cold_growth :
  let cold := txn_caps ladder_txn in
  let h := serve_marks ladder_roots (S2B "GET") [] (S2B "/a/b/c") [] in
  grows cold h = true /\
  grows (hw_max cold h) (serve_marks ladder_roots (S2B "GET") [] (S2B "/a/b/c") [(S2B "stale", S2B "entry")]) = false.
Proof. exact Alloc2.warm_after_cold_growth. Qed.
Print Assumptions warm_after_cold_growth.

Example tsr_marks_exercised :
  h_tps (serve_marks tsr_roots (S2B "GET") [] (S2B "/v/x") []) = 1 /\
  model_outcome (fst (roots_lookupI big_fuel tsr_roots (S2B "GET") [] (S2B "/v/x") false [] [] hw0)) =
    Some (true, true, S2B "/{a}/x/").
Proof. exact Alloc2.tsr_marks_exercised. Qed.
Print Assumptions tsr_marks_exercised.

(* the tree invariant params_bounded assumes is kept by Tree.insert (tXn.insert), given that
   psLen counts the wildcards of the pattern (the case files evaluate it on every dumped tree) *)
Theorem insert_keeps_wroots : forall t m ri t',
  insert t m ri = ROk t' ->
  W (rpat (ri_route ri)) <= ri_pslen ri ->
  wroots (t_roots t) <= t_maxparams t ->
  wroots (t_roots t') <= t_maxparams t'.
Proof. exact Alloc2.insert_keeps_wroots. Qed.
Print Assumptions insert_keeps_wroots.

Example insert_keeps_wroots_example :
  exists t', insert empty_txn (S2B "GET") {| ri_route := {| rpat := S2B "/a/{x}/*{y}"; rid := 0%N |}; ri_pslen := 2; ri_hostsplit := 0 |} = ROk t'
             /\ wroots (t_roots t') = 2 /\ t_maxparams t' = 2.
Proof. exact Alloc2.insert_keeps_wroots_example. Qed.
Print Assumptions insert_keeps_wroots_example.

(* round 7 (seeded change C16-N): the context a handler is handed.  The theorems above size the serving
   context from the routed tree (txn_caps t); the case files now also observe the context itself
   (AllocHist.x_handed_ok: owned by the published tree, capacities at least txn_caps).  Any such context
   fits params / tsrParams ... *)
Theorem handed_context_params_fit : forall f (t : txn) m host path lazy tps0 caps,
  wroots (t_roots t) <= t_maxparams t ->
  hw_le (txn_caps t) caps ->
  let h := snd (roots_lookupI f (t_roots t) m host path lazy [] tps0 hw0) in
  grow_ps caps h = false /\ grow_tps caps h = false.
Proof. exact AllocHist2.handed_context_params_fit. Qed.
Print Assumptions handed_context_params_fit.
(* ... and the hypothesis is needed: a context sized by the tree published before a registration
   (in flight across the write) has to grow on the tree published after it, the new tree's own do not *)
Theorem foreign_context_can_grow :
  exists (t_old t_new : txn) ri m host path,
    insert t_old m ri = ROk t_new /\
    wroots (t_roots t_old) <= t_maxparams t_old /\
    wroots (t_roots t_new) <= t_maxparams t_new /\
    grow_ps (txn_caps t_old) (serve_marks (t_roots t_new) m host path []) = true /\
    grow_ps (txn_caps t_new) (serve_marks (t_roots t_new) m host path []) = false.
Proof. exact AllocHist2.foreign_context_can_grow. Qed.
Print Assumptions foreign_context_can_grow.
Example handed_ok_example :
  x_agrees (hist_case (Some (true, caps_of 3 1))) = true /\
  x_handed_ok (hist_case (Some (false, caps_of 3 1))) = false /\
  x_handed_ok (hist_case (Some (true, caps_of 1 1))) = false /\
  x_handed_ok (hist_case None) = false.
Proof. exact AllocHist2.handed_ok_example. Qed.
Print Assumptions handed_ok_example.
