(* Props_C16 — reserved. *)
From FoxBase Require Import Bytes.
