(* Props_C01_e2e — C01 end to end (agent p-e2e).  Only statements closed by [exact], each followed by
   Print Assumptions, with non-vacuity examples.  Definitions: EndToEnd2.v (method_root, e2e_fuel,
   plain_method, reg_patterns, path_only, final_txn, final_map), WFDef.v (WF_txn), StaticEquiv2.v (pwf,
   okpath, plain, m2_fuel), TreeMap2.v (hop_ok, Rel), Spec.v (spec_lookup), SpecSound2.v (NoConflict). *)
From FoxBase Require Import Bytes.
From FoxRoute Require Import Node Lookup Spec Tree MapSpec Corr CorrHist WFDef TreeWF2 TreeMap TreeMap2
  SpecSound2 StaticEquiv StaticEquiv2 EndToEnd EndToEnd2.
Open Scope char_scope.

(* ---- 1. the bridge: the invariant preserved by insert/update/remove/truncate implies the
   invariant under which M1 = S was proved (no exception: also hostname subtrees) ---- *)
Theorem C01_WF_node_pwf : forall n pre, WF_node pre n -> closed pre = true -> pwf pre n.
Proof. exact WF_node_pwf. Qed.
Print Assumptions C01_WF_node_pwf.

Theorem C01_WF_pwf : forall t root c, WF_txn t -> In root (t_roots t) -> In c (nchildren root) -> pwf [] c.
Proof. exact WF_txn_pwf. Qed.
Print Assumptions C01_WF_pwf.

(* a method root all of whose routes are path-only has no child or exactly one child, a "/..."
   subtree satisfying pwf: roots.lookup always takes the path-only shortcut (node.go:92-95) *)
Theorem C01_WF_path_only_shape : forall t m root, WF_txn t -> method_root (t_roots t) m = Some root ->
  path_only (method_patterns (t_roots t) m) ->
  nchildren root = [] \/ exists c, path_only_root (t_roots t) m c /\ pwf [] c.
Proof. exact WF_path_only_shape. Qed.
Print Assumptions C01_WF_path_only_shape.

(* the routes of one method in a well-formed forest never conflict (so S does not depend on their order) *)
Theorem C01_WF_NoConflict : forall t m, WF_txn t -> NoConflict (map mk_cand (method_patterns (t_roots t) m)).
Proof. exact WF_method_NoConflict. Qed.
Print Assumptions C01_WF_NoConflict.

(* a legal pattern is the rendering of its tokens (tokenize is injective on legal patterns) *)
Theorem C01_valid_render : forall p, closed p = true -> render (tokenize p) = p /\ forallb tok_ok (tokenize p) = true.
Proof. exact valid_render. Qed.
Print Assumptions C01_valid_render.

(* a subtree all of whose routes are free of catch-alls is [plain] *)
Theorem C01_WF_node_plain : forall n pre, WF_node pre n -> closed pre = true ->
  (forall rt, In rt (rlist n) -> nocatch (tokenize (rpat rt)) = true) -> plain n = true.
Proof. exact WF_node_plain. Qed.
Print Assumptions C01_WF_node_plain.

Theorem C01_WF_plain_method : forall t m, WF_txn t ->
  (forall p, In p (method_patterns (t_roots t) m) -> nocatch (tokenize p) = true) ->
  plain_method (t_roots t) m = true.
Proof. exact WF_plain_method. Qed.
Print Assumptions C01_WF_plain_method.

(* ---- 2. M1 = S for every well-formed forest, path-only methods ---- *)
Theorem C01_WF_M1_eq_Spec : forall t m host path fuel, WF_txn t ->
  path_only (method_patterns (t_roots t) m) ->
  okpath path = true \/ plain_method (t_roots t) m = true ->
  e2e_fuel path (t_roots t) m <= fuel ->
  direct_obs (roots_lookup fuel (t_roots t) m host path false [] []) =
  sres_direct (spec_lookup (method_patterns (t_roots t) m) host path).
Proof. exact WF_M1_eq_Spec. Qed.
Print Assumptions C01_WF_M1_eq_Spec.

(* forest = map at the level of S *)
Theorem C01_Rel_spec_lookup : forall t s m host path, WF_txn t -> Rel t s ->
  spec_lookup (method_patterns (t_roots t) m) host path = spec_lookup (reg_patterns s m) host path.
Proof. exact Rel_spec_lookup. Qed.
Print Assumptions C01_Rel_spec_lookup.

(* ---- 3. END TO END: every history (direct calls, committed and aborted transactions), every method
   without hostname route in the sequential map, every host, every request path without '*' byte and
   without empty segment (or any path when the method has no catch-all), fuel >= the closed form:
   the model's direct match (route pattern, ordered parameters) is the specification's on the map's set *)
Theorem C01_end_to_end : forall ops, Forall hop_ok ops ->
  forall m host path fuel,
  path_only (reg_patterns (final_map ops) m) ->
  okpath path = true \/ plain_method (t_roots (final_txn ops)) m = true ->
  e2e_fuel path (t_roots (final_txn ops)) m <= fuel ->
  direct_obs (roots_lookup fuel (t_roots (final_txn ops)) m host path false [] []) =
  sres_direct (spec_lookup (reg_patterns (final_map ops) m) host path).
Proof. exact C01_end_to_end_thm. Qed.
Print Assumptions C01_end_to_end.

Theorem C01_end_to_end_big_fuel : forall ops, Forall hop_ok ops ->
  forall m host path,
  path_only (reg_patterns (final_map ops) m) ->
  okpath path = true \/ plain_method (t_roots (final_txn ops)) m = true ->
  Nat.leb (e2e_fuel path (t_roots (final_txn ops)) m) big_fuel = true ->
  direct_obs (roots_lookup big_fuel (t_roots (final_txn ops)) m host path false [] []) =
  sres_direct (spec_lookup (reg_patterns (final_map ops) m) host path).
Proof. exact C01_end_to_end_big_fuel_thm. Qed.
Print Assumptions C01_end_to_end_big_fuel.

(* no catch-all registered for the method: every request path, no side condition *)
Theorem C01_end_to_end_nocatch : forall ops, Forall hop_ok ops ->
  forall m host path fuel,
  path_only (reg_patterns (final_map ops) m) ->
  (forall p, In p (reg_patterns (final_map ops) m) -> nocatch (tokenize p) = true) ->
  e2e_fuel path (t_roots (final_txn ops)) m <= fuel ->
  direct_obs (roots_lookup fuel (t_roots (final_txn ops)) m host path false [] []) =
  sres_direct (spec_lookup (reg_patterns (final_map ops) m) host path).
Proof. exact C01_end_to_end_nocatch_thm. Qed.
Print Assumptions C01_end_to_end_nocatch.

Theorem C01_history_shape : forall ops, Forall hop_ok ops -> forall m root,
  method_root (t_roots (final_txn ops)) m = Some root ->
  path_only (reg_patterns (final_map ops) m) ->
  nchildren root = [] \/ exists c, path_only_root (t_roots (final_txn ops)) m c /\ pwf [] c.
Proof. exact C01_history_shape_thm. Qed.
Print Assumptions C01_history_shape.

Theorem C01_history_pwf : forall ops, Forall hop_ok ops -> forall root c,
  In root (t_roots (final_txn ops)) -> In c (nchildren root) -> pwf [] c.
Proof. exact C01_history_pwf_thm. Qed.
Print Assumptions C01_history_pwf.

(* ---- non-vacuity ---- *)
(* a history: conflict, invalid pattern, aborted transaction, committed transaction with a delete, a
   hostname route under POST only, a custom method; it ENDS inside an open transaction *)
Definition e2e_history : list hop :=
  [ mkop KHandle "GET" "/a/b" 1 []; mkop KHandle "GET" "/a/{x}" 2 []; mkop KHandle "GET" "/a/{y}" 3 [];   (* conflict *)
    mkop KHandle "POST" "a.com/x" 4 []; mkop KHandle "GET" "/a/*{w}/z" 5 [];
    mkop KBegin "" "" 0 []; mkop KHandle "GET" "/gone" 6 []; mkop KDelete "GET" "/a/b" 0 []; mkop KAbort "" "" 0 [];
    mkop KHandle "GET" "/bad/{x" 7 [];                                                                    (* invalid *)
    mkop KBegin "" "" 0 []; mkop KHandle "GET" "/a/{x}/c" 8 []; mkop KHandle "GET" "/tmp" 9 [];
    mkop KDelete "GET" "/tmp" 0 []; mkop KCommit "" "" 0 [];
    mkop KHandle "PURGE" "/c/*{k}" 10 []; mkop KUpdate "GET" "/a/b" 11 [];
    mkop KHandle "PUT" "/p/{id}" 13 []; mkop KHandle "PUT" "/p/x" 14 [];
    mkop KBegin "" "" 0 []; mkop KHandle "GET" "/f=*{p}" 12 [] ].

Example e2e_history_ok : Forall hop_ok e2e_history.
Proof.
  unfold e2e_history. repeat (constructor; [intros Hv; vm_compute in Hv; try discriminate; split; reflexivity|]).
  constructor.
Qed.

Example e2e_registered :
  reg_patterns (final_map e2e_history) (S2B "GET") =
    [S2B "/a/b"; S2B "/a/{x}"; S2B "/a/*{w}/z"; S2B "/a/{x}/c"; S2B "/f=*{p}"]
  /\ reg_patterns (final_map e2e_history) (S2B "POST") = [S2B "a.com/x"].
Proof. vm_compute. split; reflexivity. Qed.

Example e2e_hyps :
  path_only (reg_patterns (final_map e2e_history) (S2B "GET")).
Proof.
  rewrite (proj1 e2e_registered). intros p Hp. simpl in Hp.
  repeat (destruct Hp as [<-|Hp]; [reflexivity|]). destruct Hp.
Qed.

Definition e2e_lookup (host p : string) :=
  direct_obs (roots_lookup big_fuel (t_roots (final_txn e2e_history)) (S2B "GET") (S2B host) (S2B p) false [] []).
Definition e2e_spec (host p : string) :=
  sres_direct (spec_lookup (reg_patterns (final_map e2e_history) (S2B "GET")) (S2B host) (S2B p)).
Definition e2e_side (p : string) : bool :=
  okpath (S2B p) && Nat.leb (e2e_fuel (S2B p) (t_roots (final_txn e2e_history)) (S2B "GET")) big_fuel.

(* the hypotheses hold and both sides are the same non-trivial answer (backtracking from the static
   child to the parameter, infix catch-all, suffix catch-all mid-segment, Host ignored) *)
Example e2e_matches :
  e2e_side "/a/q/r/z" = true /\ e2e_side "/a/b/c" = true /\ e2e_side "/f=/u/v" = true /\ e2e_side "/a/b" = true
  /\ e2e_lookup "a.com" "/a/q/r/z" = Some (S2B "/a/*{w}/z", [(S2B "w", S2B "q/r")]) /\ e2e_spec "a.com" "/a/q/r/z" = e2e_lookup "a.com" "/a/q/r/z"
  /\ e2e_lookup "" "/a/b/c" = Some (S2B "/a/{x}/c", [(S2B "x", S2B "b")]) /\ e2e_spec "" "/a/b/c" = e2e_lookup "" "/a/b/c"
  /\ e2e_lookup "h" "/f=/u/v" = Some (S2B "/f=*{p}", [(S2B "p", S2B "/u/v")]) /\ e2e_spec "h" "/f=/u/v" = e2e_lookup "h" "/f=/u/v"
  /\ e2e_lookup "" "/a/b" = Some (S2B "/a/b", []) /\ e2e_spec "" "/a/b" = e2e_lookup "" "/a/b"
  /\ e2e_lookup "" "/gone" = None /\ e2e_spec "" "/gone" = None.
Proof. vm_compute. repeat split. Qed.

(* the instance of the theorem itself *)
Example e2e_instance :
  e2e_lookup "a.com" "/a/q/r/z" = e2e_spec "a.com" "/a/q/r/z".
Proof.
  apply (C01_end_to_end_big_fuel e2e_history e2e_history_ok).
  - exact e2e_hyps.
  - left. vm_compute. reflexivity.
  - vm_compute. reflexivity.
Qed.

(* the bridge is not vacuous: the forest after the history is well formed, has a hostname subtree
   and path subtrees, and they all satisfy pwf; the GET root has the single "/" child *)
Example e2e_shape :
  wf_txnb (final_txn e2e_history) = true
  /\ map (fun root => List.length (nchildren root)) (t_roots (final_txn e2e_history)) = [1; 1; 1; 0; 1]
  /\ forallb (fun root => forallb (pwfb []) (nchildren root)) (t_roots (final_txn e2e_history)) = true
  /\ plain_method (t_roots (final_txn e2e_history)) (S2B "GET") = false
  /\ plain_method (t_roots (final_txn e2e_history)) (S2B "POST") = true.
Proof. vm_compute. repeat split. Qed.

(* the side condition path_only is needed for THIS statement (hostname routes: C09): POST has a
   hostname route, path_only fails *)
Example e2e_post_not_path_only : ~ path_only (reg_patterns (final_map e2e_history) (S2B "POST")).
Proof. intros H. specialize (H (S2B "a.com/x")). rewrite (proj2 e2e_registered) in H. simpl in H. discriminate H. left. reflexivity. Qed.

(* a method without catch-all (PUT): requests with '*' bytes and empty segments are covered *)
Example e2e_put_registered : reg_patterns (final_map e2e_history) (S2B "PUT") = [S2B "/p/{id}"; S2B "/p/x"].
Proof. vm_compute. reflexivity. Qed.
Example e2e_put_instance :
  direct_obs (roots_lookup big_fuel (t_roots (final_txn e2e_history)) (S2B "PUT") [] (S2B "/p/a*b") false [] [])
  = sres_direct (spec_lookup (reg_patterns (final_map e2e_history) (S2B "PUT")) [] (S2B "/p/a*b")).
Proof.
  apply (C01_end_to_end_nocatch e2e_history e2e_history_ok).
  - rewrite e2e_put_registered. intros p [<-|[<-|[]]]; reflexivity.
  - rewrite e2e_put_registered. intros p [<-|[<-|[]]]; reflexivity.
  - apply Nat.leb_le. vm_compute. reflexivity.
Qed.
Example e2e_put_values :
  okpath (S2B "/p/a*b") = false /\ okpath (S2B "/p//x") = false
  /\ direct_obs (roots_lookup big_fuel (t_roots (final_txn e2e_history)) (S2B "PUT") [] (S2B "/p/a*b") false [] [])
     = Some (S2B "/p/{id}", [(S2B "id", S2B "a*b")])
  /\ direct_obs (roots_lookup big_fuel (t_roots (final_txn e2e_history)) (S2B "PUT") [] (S2B "/p//x") false [] []) = None
  /\ sres_direct (spec_lookup (reg_patterns (final_map e2e_history) (S2B "PUT")) [] (S2B "/p//x")) = None.
Proof. vm_compute. repeat split. Qed.
