(* C09 — the guarded entry (roots.lookup after fix 6adf36d): statements without the
   "no '/' in the host" side condition. *)
From FoxBase Require Import Bytes.
From FoxRoute Require Import Node Lookup HostPort Spec Guard Tree Corr StaticEquiv StaticEquiv2 HostEquiv HostEquiv2 Props_C09_host.
Open Scope char_scope.

(* a Host containing '/' is treated exactly like an absent Host, by the model of the code
   and by the specification alike: only path-only routes can match *)
Theorem C09_host_with_slash_is_no_host : forall fuel r m host path lazy,
  contains host "/" = true ->
  roots_lookup_g fuel r m host path lazy [] [] = roots_lookup fuel r m [] path lazy [] [] /\
  forall pats, spec_lookup_g pats host path = spec_lookup pats [] path.
Proof.
  intros fuel r m host path lazy H. unfold roots_lookup_g, spec_lookup_g, host_guard. rewrite H. split; reflexivity.
Qed.
Print Assumptions C09_host_with_slash_is_no_host.

(* hostname methods: model of the repaired code = specification, for EVERY host *)
Theorem C09_guarded_eq_Spec_host_partial : forall r m i root host path fuel,
  method_index r m = Some i -> nth_error r i = Some root -> nroute root = None ->
  hroot_ok root -> nchildren root <> [] -> shortcut root = false ->
  pathok path = true -> root_side path root -> root_fuel path root <= fuel ->
  (host_guard host <> [] -> select_in (map rpat (routes_of_node root)) (host_guard host) path true = None ->
   host_tsr_agree fuel root (host_guard host) path) ->
  direct_obs (roots_lookup_g fuel r m host path false [] []) =
  sres_direct (spec_lookup_g (method_patterns r m) host path).
Proof.
  intros. unfold roots_lookup_g, spec_lookup_g. eapply M1_eq_Spec_host_partial; eauto.
  apply nohslashb_sound. unfold nohslashb. rewrite host_guard_noslash. reflexivity.
Qed.
Print Assumptions C09_guarded_eq_Spec_host_partial.
