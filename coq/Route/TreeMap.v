(* TreeMap — the transaction-level operations (Tree.insert / update / remove /
   truncate) on well-formed method forests: preservation of WF_txn and the exact
   effect on routes_of_txn.  The link with the map specification is TreeMap2.v. *)
From FoxBase Require Import Bytes.
From FoxRoute Require Import Node Lookup Spec Tree MapSpec CorrHist WFDef TreeWF TreeWF2.
From Coq Require Import Sorting.Sorted Permutation.
Open Scope char_scope.

(* ---------- roots ---------- *)
Definition childless_ok (r : node) : Prop := nchildren r = [] -> In (nkey r) common_verbs.

Definition WF_roots' (rs : list node) : Prop :=
  firstn 4 (map nkey rs) = common_verbs /\ NoDup (map nkey rs) /\ Forall WF_root rs /\ Forall childless_ok rs.

Lemma firstn_skipn_in {A} n (l : list A) x : In x l -> In x (firstn n l) \/ In x (skipn n l).
Proof. intros H. rewrite <- (firstn_skipn n l) in H. apply in_app_or in H. exact H. Qed.

Lemma NoDup_app_disjoint {A} (a b : list A) x : NoDup (a ++ b) -> In x a -> In x b -> False.
Proof.
  induction a as [|y a IH]; simpl; intros Hnd Ha Hb; [destruct Ha|].
  inversion Hnd; subst. destruct Ha as [->|Ha].
  - apply H1. apply in_or_app. right. exact Hb.
  - apply IH; auto.
Qed.

Lemma WF_roots_alt rs : WF_roots rs <-> WF_roots' rs.
Proof.
  unfold WF_roots, WF_roots'. rewrite firstn_map. split.
  - intros [H1 [H2 [H3 H4]]]. repeat split; auto.
    apply Forall_forall. intros r Hr Hc. destruct (firstn_skipn_in 4 rs r Hr) as [Hin|Hin].
    + rewrite <- H1. apply in_map. exact Hin.
    + rewrite Forall_forall in H2. exfalso. apply (H2 r Hin Hc).
  - intros [H1 [H2 [H3 H4]]]. repeat split; auto.
    apply Forall_forall. intros r Hr Hc. rewrite Forall_forall in H4.
    assert (In r rs) as Hin by (rewrite <- (firstn_skipn 4 rs); apply in_or_app; right; exact Hr).
    specialize (H4 r Hin Hc). rewrite <- H1 in H4.
    (* the key of r occurs both in the first four and after them *)
    rewrite <- (firstn_skipn 4 rs), map_app in H2.
    eapply NoDup_app_disjoint; [exact H2|exact H4|]. apply in_map. exact Hr.
Qed.

Lemma find_key_from_some m : forall l i0 i, find_key_from i0 m l = Some i ->
  exists l1 x l2, l = l1 ++ x :: l2 /\ i = i0 + List.length l1 /\ nkey x = m.
Proof.
  induction l as [|x l IH]; intros i0 i; simpl; [discriminate|].
  destruct (bytes_eqb_spec (nkey x) m) as [E|E].
  - intros [= <-]. exists [], x, l. simpl. repeat split; auto; lia.
  - intros H. apply IH in H. destruct H as [l1 [y [l2 [-> [-> Hk]]]]].
    exists (x :: l1), y, l2. simpl. repeat split; auto; lia.
Qed.

Lemma find_key_from_none m : forall l i0, find_key_from i0 m l = None -> ~ In m (map nkey l).
Proof.
  induction l as [|x l IH]; intros i0; simpl; [tauto|].
  destruct (bytes_eqb_spec (nkey x) m) as [E|E]; [discriminate|].
  intros H [H1|H1]; [congruence|]. eapply IH; eauto.
Qed.

Lemma roots_four rs : firstn 4 (map nkey rs) = common_verbs ->
  exists r0 r1 r2 r3 cs, rs = r0 :: r1 :: r2 :: r3 :: cs /\
    nkey r0 = m_get /\ nkey r1 = m_post /\ nkey r2 = m_put /\ nkey r3 = Node.m_delete.
Proof.
  destruct rs as [|r0 [|r1 [|r2 [|r3 cs]]]]; try discriminate.
  simpl. intros [= H0 H1 H2 H3]. exists r0, r1, r2, r3, cs. auto.
Qed.

Lemma method_index_some rs m i : firstn 4 (map nkey rs) = common_verbs -> method_index rs m = Some i ->
  exists l1 root l2, rs = l1 ++ root :: l2 /\ i = List.length l1 /\ nkey root = m /\
                     (is_removable m = false -> nth i common_verbs [] = m).
Proof.
  intros H4 Hm. destruct (roots_four rs H4) as [r0 [r1 [r2 [r3 [cs [-> [K0 [K1 [K2 K3]]]]]]]]].
  unfold method_index in Hm.
  destruct (bytes_eqb_spec m m_get) as [->|N0].
  { injection Hm as <-. exists [], r0, (r1 :: r2 :: r3 :: cs). auto. }
  destruct (bytes_eqb_spec m m_post) as [->|N1].
  { injection Hm as <-. exists [r0], r1, (r2 :: r3 :: cs). auto. }
  destruct (bytes_eqb_spec m m_put) as [->|N2].
  { injection Hm as <-. exists [r0; r1], r2, (r3 :: cs). auto. }
  destruct (bytes_eqb_spec m Node.m_delete) as [->|N3].
  { injection Hm as <-. exists [r0; r1; r2], r3, cs. auto. }
  simpl in Hm. apply find_key_from_some in Hm. destruct Hm as [l1 [x [l2 [-> [-> Hk]]]]].
  exists (r0 :: r1 :: r2 :: r3 :: l1), x, l2. simpl. repeat split; auto.
  unfold is_removable, common_verbs. simpl.
  destruct (bytes_eqb_spec m m_get); [contradiction|]. destruct (bytes_eqb_spec m m_post); [contradiction|].
  destruct (bytes_eqb_spec m m_put); [contradiction|]. destruct (bytes_eqb_spec m Node.m_delete); [contradiction|].
  discriminate.
Qed.

Lemma method_index_none rs m : firstn 4 (map nkey rs) = common_verbs -> method_index rs m = None ->
  ~ In m (map nkey rs) /\ is_removable m = true.
Proof.
  intros H4 Hm. destruct (roots_four rs H4) as [r0 [r1 [r2 [r3 [cs [-> [K0 [K1 [K2 K3]]]]]]]]].
  unfold method_index in Hm.
  destruct (bytes_eqb_spec m m_get) as [->|N0]; [discriminate|].
  destruct (bytes_eqb_spec m m_post) as [->|N1]; [discriminate|].
  destruct (bytes_eqb_spec m m_put) as [->|N2]; [discriminate|].
  destruct (bytes_eqb_spec m Node.m_delete) as [->|N3]; [discriminate|].
  simpl in Hm. apply find_key_from_none in Hm. split.
  - simpl. rewrite K0, K1, K2, K3. intros [H|[H|[H|[H|H]]]]; try congruence; contradiction.
  - unfold is_removable, common_verbs. simpl.
    destruct (bytes_eqb_spec m m_get); [contradiction|]. destruct (bytes_eqb_spec m m_post); [contradiction|].
    destruct (bytes_eqb_spec m m_put); [contradiction|]. destruct (bytes_eqb_spec m Node.m_delete); [contradiction|].
    reflexivity.
Qed.

Lemma is_removable_false m : is_removable m = false -> In m common_verbs.
Proof.
  unfold is_removable. intros H. apply negb_false_iff in H. apply existsb_bytes_In in H. exact H.
Qed.
Lemma is_removable_true m : is_removable m = true -> ~ In m common_verbs.
Proof.
  unfold is_removable. intros H Hin. apply negb_true_iff in H. apply existsb_bytes_In in Hin. congruence.
Qed.

(* replacing a root by one with the same key *)
Lemma WF_roots_replace l1 root l2 root' :
  WF_roots' (l1 ++ root :: l2) -> WF_root root' -> nkey root' = nkey root -> childless_ok root' ->
  WF_roots' (l1 ++ root' :: l2).
Proof.
  intros [H1 [H2 [H3 H4]]] Hw Hk Hc.
  assert (map nkey (l1 ++ root' :: l2) = map nkey (l1 ++ root :: l2)) as Ek
    by (rewrite !map_app; simpl; rewrite Hk; reflexivity).
  unfold WF_roots'. rewrite Ek. split; [exact H1|]. split; [exact H2|].
  apply Forall_app in H3, H4. destruct H3 as [H3a H3b], H4 as [H4a H4b].
  inversion H3b; subst. inversion H4b; subst.
  split; apply Forall_app; split; auto.
Qed.

Lemma firstn4_app_verbs (K1 K2 : list bytes) m :
  firstn 4 (K1 ++ m :: K2) = common_verbs -> ~ In m common_verbs -> firstn 4 (K1 ++ K2) = common_verbs.
Proof.
  intros H Hni. unfold common_verbs in *.
  destruct K1 as [|a [|b [|c [|d K1]]]]; cbn [firstn app] in *.
  - exfalso. apply Hni. injection H as <-. simpl. tauto.
  - exfalso. apply Hni. injection H as _ <-. simpl. tauto.
  - exfalso. apply Hni. injection H as _ _ <-. simpl. tauto.
  - exfalso. apply Hni. injection H as _ _ _ <-. simpl. tauto.
  - exact H.
Qed.

Lemma WF_roots_remove l1 root l2 :
  WF_roots' (l1 ++ root :: l2) -> ~ In (nkey root) common_verbs -> WF_roots' (l1 ++ l2).
Proof.
  intros [H1 [H2 [H3 H4]]] Hni. unfold WF_roots'. rewrite map_app in *. simpl in *.
  split; [eapply firstn4_app_verbs; eauto|]. split; [eapply NoDup_remove_1; eauto|].
  apply Forall_app in H3, H4. destruct H3 as [H3a H3b], H4 as [H4a H4b].
  inversion H3b; subst. inversion H4b; subst.
  split; apply Forall_app; split; auto.
Qed.

Lemma firstn4_app_tail (K : list bytes) m : firstn 4 K = common_verbs -> firstn 4 (K ++ [m]) = common_verbs.
Proof. destruct K as [|a [|b [|c [|d K]]]]; simpl; try discriminate. auto. Qed.

Lemma WF_roots_append rs root :
  WF_roots' rs -> WF_root root -> ~ In (nkey root) (map nkey rs) -> childless_ok root -> WF_roots' (rs ++ [root]).
Proof.
  intros [H1 [H2 [H3 H4]]] Hw Hni Hc. unfold WF_roots'. rewrite map_app. simpl.
  split; [apply firstn4_app_tail; exact H1|]. split.
  - apply (Permutation_NoDup (l := nkey root :: map nkey rs)); [apply Permutation_cons_append|].
    constructor; assumption.
  - split; apply Forall_app; split; auto.
Qed.

(* ---------- routes of a forest ---------- *)
Definition mpats (t : txn) (m : bytes) : list bytes :=
  map (fun e => snd (fst e)) (filter (fun e : bytes * bytes * N => bytes_eqb (fst (fst e)) m) (routes_of_txn t)).

Definition method_is (m : bytes) (e : bytes * bytes * N) : bool := bytes_eqb (fst (fst e)) m.

Lemma filter_routes_same root : filter (method_is (nkey root)) (routes_of_root root) = routes_of_root root.
Proof.
  unfold routes_of_root. induction (rlist root) as [|r l IH]; simpl; [reflexivity|].
  unfold method_is at 1. simpl. rewrite bytes_eqb_refl. f_equal. exact IH.
Qed.

Lemma filter_routes_other root m : nkey root <> m -> filter (method_is m) (routes_of_root root) = [].
Proof.
  intros Hne. unfold routes_of_root. induction (rlist root) as [|r l IH]; simpl; [reflexivity|].
  unfold method_is at 1. simpl. destruct (bytes_eqb_spec (nkey root) m); [contradiction|]. exact IH.
Qed.

Lemma filter_roots_other rs m : ~ In m (map nkey rs) -> filter (method_is m) (flat_map routes_of_root rs) = [].
Proof.
  induction rs as [|r rs IH]; simpl; intros Hni; [reflexivity|].
  rewrite filter_app, filter_routes_other, IH; auto.
Qed.

Lemma filter_roots_mid l1 root l2 : NoDup (map nkey (l1 ++ root :: l2)) ->
  filter (method_is (nkey root)) (flat_map routes_of_root (l1 ++ root :: l2)) = routes_of_root root.
Proof.
  intros Hnd. rewrite map_app in Hnd. simpl in Hnd.
  pose proof (NoDup_remove_2 _ _ _ Hnd) as Hni. rewrite in_app_iff in Hni.
  rewrite flat_map_app. simpl. rewrite !filter_app, filter_routes_same.
  rewrite !filter_roots_other by tauto. rewrite app_nil_r. reflexivity.
Qed.

Lemma mpats_root t l1 root l2 : t_roots t = l1 ++ root :: l2 -> NoDup (map nkey (t_roots t)) ->
  mpats t (nkey root) = map rpat (rlist root).
Proof.
  intros E Hnd. unfold mpats, routes_of_txn. rewrite E in *. fold (method_is (nkey root)).
  rewrite filter_roots_mid by exact Hnd. unfold routes_of_root. rewrite map_map. reflexivity.
Qed.

Lemma mpats_absent t m : ~ In m (map nkey (t_roots t)) -> mpats t m = [].
Proof.
  intros H. unfold mpats, routes_of_txn. fold (method_is m). rewrite filter_roots_other by exact H. reflexivity.
Qed.

Lemma rlist_root_children root : nroute root = None -> rlist root = flat_map rlist (nchildren root).
Proof. destruct root as [k r ch]. simpl. intros ->. reflexivity. Qed.

Lemma routes_mid l1 root l2 :
  Permutation (flat_map routes_of_root (l1 ++ root :: l2)) (routes_of_root root ++ flat_map routes_of_root (l1 ++ l2)).
Proof.
  rewrite !flat_map_app. simpl. rewrite app_assoc.
  rewrite (Permutation_app_comm (flat_map routes_of_root l1)). rewrite <- app_assoc. reflexivity.
Qed.

Lemma routes_of_root_perm root root' x : nkey root' = nkey root -> Permutation (rlist root') (x :: rlist root) ->
  Permutation (routes_of_root root') ((nkey root, rpat x, rid x) :: routes_of_root root).
Proof.
  intros Hk Hp. unfold routes_of_root. rewrite Hk.
  change ((nkey root, rpat x, rid x) :: map (fun r => (nkey root, rpat r, rid r)) (rlist root))
    with (map (fun r => (nkey root, rpat r, rid r)) (x :: rlist root)).
  apply Permutation_map. exact Hp.
Qed.

Lemma closed_nil : closed [] = true.
Proof. reflexivity. Qed.

Lemma valid_nonempty ri : valid_rinfo ri -> rpat (ri_route ri) <> [].
Proof. intros [H _] E. rewrite E in H. discriminate. Qed.

Lemma empty_root_WF m : WF_root (empty_root m).
Proof. split; [reflexivity|]. split; constructor. Qed.

(* ---------- insert ---------- *)
Lemma replace_nth_mid (l1 : list node) root l2 root' : replace_nth (l1 ++ root :: l2) (List.length l1) root' = l1 ++ root' :: l2.
Proof. apply replace_nth_app. Qed.

Lemma routes_replace_perm l1 root l2 root' x : nkey root' = nkey root -> Permutation (rlist root') (x :: rlist root) ->
  Permutation (flat_map routes_of_root (l1 ++ root' :: l2))
              ((nkey root, rpat x, rid x) :: flat_map routes_of_root (l1 ++ root :: l2)).
Proof.
  intros Hk Hp. rewrite !routes_mid. rewrite (routes_of_root_perm root root' x Hk Hp). reflexivity.
Qed.

Theorem insert_tree_spec t m ri : WF_txn t -> valid_rinfo ri ->
  let p := rpat (ri_route ri) in
  match insert t m ri with
  | ROk t' => WF_txn t' /\
              Permutation (routes_of_txn t') ((m, p, rid (ri_route ri)) :: routes_of_txn t) /\
              Forall (apart p) (mpats t m)
  | RExist e => e = p /\ In p (mpats t m)
  | RConflict ps => ps <> [] /\ exists others, Permutation (mpats t m) (ps ++ others) /\
                                               Forall (clash p) ps /\ Forall (apart p) others
  | RNotFound => False
  end.
Proof.
  intros [Hroots Hsize] Hv p. apply WF_roots_alt in Hroots. destruct Hroots as [H1 [H2 [H3 H4]]].
  unfold insert.
  (* both branches: the roots are l1 ++ root :: l2 with root the tree of method m *)
  assert (exists rs l1 root l2,
            (match method_index (t_roots t) m with
             | Some i => (t_roots t, i)
             | None => (t_roots t ++ [empty_root m], List.length (t_roots t))
             end) = (rs, List.length l1) /\ rs = l1 ++ root :: l2 /\ nkey root = m /\ WF_root root /\
            flat_map routes_of_root rs = routes_of_txn t /\ mpats t m = pats (nchildren root) /\
            (forall root', nkey root' = m -> nchildren root' <> [] -> WF_root root' -> WF_roots' (l1 ++ root' :: l2)))
    as [rs [l1 [root [l2 [-> [Ers [Hk [Hw [Hsame [Hmp Hrepl]]]]]]]]]].
  { destruct (method_index (t_roots t) m) as [i|] eqn:Em.
    - destruct (method_index_some _ _ _ H1 Em) as [l1 [root [l2 [E [-> [Hk _]]]]]].
      assert (WF_root root) as Hw.
      { rewrite E in H3. apply Forall_app in H3. destruct H3 as [_ H3]. inversion H3; assumption. }
      exists (t_roots t), l1, root, l2. split; [reflexivity|]. split; [exact E|]. split; [exact Hk|].
      split; [exact Hw|]. split; [reflexivity|]. split.
      + rewrite <- Hk. rewrite (mpats_root t l1 root l2 E H2). unfold pats.
        rewrite rlist_root_children by apply Hw. reflexivity.
      + intros root' Hk' Hc' Hw'. apply (WF_roots_replace l1 root l2 root'); auto.
        * rewrite <- E. repeat split; auto.
        * congruence.
        * intros Hc. contradiction.
    - destruct (method_index_none _ _ H1 Em) as [Hni Hrem].
      exists (t_roots t ++ [empty_root m]), (t_roots t), (empty_root m), [].
      split; [reflexivity|]. split; [reflexivity|]. split; [reflexivity|]. split; [apply empty_root_WF|].
      split; [|split].
      + unfold routes_of_txn. rewrite flat_map_app. simpl. rewrite app_nil_r. reflexivity.
      + rewrite mpats_absent by exact Hni. reflexivity.
      + intros root' Hk' Hc' Hw'. apply WF_roots_append; auto.
        * repeat split; auto.
        * rewrite Hk'. exact Hni.
        * intros Hc. contradiction. }
  subst rs. rewrite nth_error_app_mid.
  destruct Hw as [Hr [Hs Hf]].
  pose proof (ins_spec ri Hv (S (List.length p)) root [] 0 0 p (conj Hs Hf) closed_nil eq_refl
                (valid_nonempty ri Hv) eq_refl (Nat.lt_succ_diag_r _)) as Hins.
  fold p. destruct (ins (S (List.length p)) ri root 0 0 p) as [root' d|[e|ps]].
  - destruct Hins as [Hk' [Hr' [[Hs' Hf'] [Hperm [Hap Hg]]]]]. rewrite replace_nth_mid.
    assert (Permutation (rlist root') (ri_route ri :: rlist root)) as Hperm'.
    { rewrite !rlist_root_children by congruence. exact Hperm. }
    assert (Permutation (flat_map routes_of_root (l1 ++ root' :: l2))
                        ((m, p, rid (ri_route ri)) :: routes_of_txn t)) as Hp'.
    { rewrite <- Hsame, <- Hk. apply routes_replace_perm; auto. }
    split; [|split].
    + split.
      * apply WF_roots_alt. cbn [t_roots]. apply Hrepl; [congruence| |].
        -- intros E. rewrite E in Hperm. simpl in Hperm. apply Permutation_nil in Hperm. discriminate.
        -- split; [congruence|]. split; assumption.
      * cbn [t_size t_roots]. unfold routes_of_txn at 1. cbn [t_roots].
        rewrite (Permutation_length Hp'). simpl. rewrite Hsize. lia.
    + exact Hp'.
    + rewrite Hmp. apply Forall_forall. exact Hap.
  - destruct Hins as [-> Hin]. split; [reflexivity|]. rewrite Hmp. exact Hin.
  - destruct Hins as [Hne [others [Hperm [Hcl Hap]]]]. split; [exact Hne|]. exists others. rewrite Hmp. auto.
Qed.

(* ---------- update ---------- *)
Theorem update_tree_spec t m ri : WF_txn t -> rpat (ri_route ri) <> [] ->
  let p := rpat (ri_route ri) in
  match update t m ri with
  | ROk t' => WF_txn t' /\ exists old l, Permutation (routes_of_txn t) ((m, p, old) :: l) /\
                                        Permutation (routes_of_txn t') ((m, p, rid (ri_route ri)) :: l)
  | RNotFound => ~ In p (mpats t m)
  | _ => False
  end.
Proof.
  intros [Hroots Hsize] Hne p. apply WF_roots_alt in Hroots. destruct Hroots as [H1 [H2 [H3 H4]]].
  unfold update. destruct (method_index (t_roots t) m) as [i|] eqn:Em.
  2:{ destruct (method_index_none _ _ H1 Em) as [Hni _]. rewrite mpats_absent by exact Hni. simpl. tauto. }
  destruct (method_index_some _ _ _ H1 Em) as [l1 [root [l2 [E [-> [Hk _]]]]]].
  assert (nth_error (t_roots t) (List.length l1) = Some root) as Hnth by (rewrite E; apply nth_error_app_mid).
  assert (forall x, replace_nth (t_roots t) (List.length l1) x = l1 ++ x :: l2) as Hrep
    by (intros x; rewrite E; apply replace_nth_mid).
  assert (remove_nth (t_roots t) (List.length l1) = l1 ++ l2) as Hrem by (rewrite E; apply remove_nth_app).
  rewrite Hnth.
  assert (WF_root root) as Hw.
  { rewrite E in H3. apply Forall_app in H3. destruct H3 as [_ H3]. inversion H3; assumption. }
  destruct Hw as [Hr [Hs Hf]].
  pose proof (upd_spec (ri_route ri) (S (List.length p)) root [] p (conj Hs Hf) eq_refl Hne (Nat.lt_succ_diag_r _)) as Hu.
  fold p. destruct (upd (S (List.length p)) (ri_route ri) root p) as [root'|].
  - destruct Hu as [Hk' [Hr' [[Hs' Hf'] [[Hl Hfb] [old [l [Hold [Hpa Hpb]]]]]]]].
    rewrite Hrep.
    set (f := fun r : route => (m, rpat r, rid r)).
    assert (routes_of_root root = map f (rlist root)) as Er by (unfold routes_of_root; rewrite Hk; reflexivity).
    assert (routes_of_root root' = map f (rlist root')) as Er' by (unfold routes_of_root; rewrite Hk', Hk; reflexivity).
    assert (Permutation (routes_of_txn t) ((m, p, rid old) :: map f l ++ flat_map routes_of_root (l1 ++ l2))) as Hp1.
    { unfold routes_of_txn. rewrite E, routes_mid, Er, (rlist_root_children root Hr), Hpa. simpl.
      unfold f at 1. rewrite Hold. reflexivity. }
    assert (Permutation (flat_map routes_of_root (l1 ++ root' :: l2))
                        ((m, p, rid (ri_route ri)) :: map f l ++ flat_map routes_of_root (l1 ++ l2))) as Hp2.
    { rewrite routes_mid, Er', (rlist_root_children root') by congruence. rewrite Hpb. reflexivity. }
    split.
    + split.
      * apply WF_roots_alt. cbn [t_roots]. apply (WF_roots_replace l1 root l2 root').
        -- rewrite <- E. repeat split; auto.
        -- split; [congruence|]. split; assumption.
        -- exact Hk'.
        -- intros Hc. rewrite Hk'. rewrite E in H4. apply Forall_app in H4. destruct H4 as [_ H4].
           inversion H4 as [|? ? Hco _]; subst. apply Hco. rewrite Hc in Hl. simpl in Hl.
           destruct (nchildren root); [reflexivity|discriminate].
      * cbn [t_size t_roots]. unfold routes_of_txn at 1. cbn [t_roots].
        rewrite (Permutation_length Hp2), Hsize, (Permutation_length Hp1). reflexivity.
    + exists (rid old), (map f l ++ flat_map routes_of_root (l1 ++ l2)). split; [exact Hp1|exact Hp2].
  - rewrite <- Hk at 1. rewrite (mpats_root t l1 root l2 E H2). rewrite (rlist_root_children root Hr). exact Hu.
Qed.

(* ---------- remove ---------- *)
Theorem remove_tree_spec t m p : WF_txn t -> p <> [] ->
  match remove t m p with
  | DOk t' r => WF_txn t' /\ rpat r = p /\ Permutation (routes_of_txn t) ((m, p, rid r) :: routes_of_txn t')
  | DNotFound => ~ In p (mpats t m)
  end.
Proof.
  intros [Hroots Hsize] Hne. apply WF_roots_alt in Hroots. destruct Hroots as [H1 [H2 [H3 H4]]].
  unfold remove. destruct (method_index (t_roots t) m) as [i|] eqn:Em.
  2:{ destruct (method_index_none _ _ H1 Em) as [Hni _]. rewrite mpats_absent by exact Hni. simpl. tauto. }
  destruct (method_index_some _ _ _ H1 Em) as [l1 [root [l2 [E [-> [Hk _]]]]]].
  assert (nth_error (t_roots t) (List.length l1) = Some root) as Hnth by (rewrite E; apply nth_error_app_mid).
  assert (forall x, replace_nth (t_roots t) (List.length l1) x = l1 ++ x :: l2) as Hrep
    by (intros x; rewrite E; apply replace_nth_mid).
  assert (remove_nth (t_roots t) (List.length l1) = l1 ++ l2) as Hrem by (rewrite E; apply remove_nth_app).
  rewrite Hnth.
  assert (WF_root root) as Hw.
  { rewrite E in H3. apply Forall_app in H3. destruct H3 as [_ H3]. inversion H3; assumption. }
  assert (childless_ok root) as Hco.
  { rewrite E in H4. apply Forall_app in H4. destruct H4 as [_ H4]. inversion H4; assumption. }
  assert (WF_roots' (l1 ++ root :: l2)) as Hwr by (rewrite <- E; repeat split; auto).
  pose proof (rem_spec (S (List.length p)) root true [] p Hw Hne (Nat.lt_succ_diag_r _)) as Hr. cbn [cpre app] in Hr.
  assert (forall root' r, nkey root' = nkey root -> Permutation (rlist root) (r :: rlist root') -> rpat r = p ->
            Permutation (routes_of_txn t) ((m, p, rid r) :: flat_map routes_of_root (l1 ++ root' :: l2))) as Hperm1.
  { intros root' r Hk' Hp Hrp. unfold routes_of_txn. rewrite E, !routes_mid.
    unfold routes_of_root at 1. rewrite Hp. simpl. rewrite Hk, Hrp. apply perm_skip.
    apply Permutation_app_tail. unfold routes_of_root. rewrite Hk', Hk. reflexivity. }
  assert (forall rs' (r : route), Permutation (routes_of_txn t) ((m, p, rid r) :: flat_map routes_of_root rs') ->
            t_size t - 1 = Z.of_nat (List.length (flat_map routes_of_root rs')))%Z as Hsz.
  { intros rs' r Hp. rewrite Hsize, (Permutation_length Hp). cbn [List.length]. rewrite Nat2Z.inj_succ. lia. }
  destruct (rem (S (List.length p)) root true p) as [|root' r|r|parent r].
  - rewrite <- Hk at 1. rewrite (mpats_root t l1 root l2 E H2). rewrite (rlist_root_children root) by apply Hw. exact Hr.
  - destruct Hr as [Hw' [Hk' [Hrp [Hp Hc']]]]. simpl in Hw'. rewrite Hrep.
    specialize (Hperm1 root' r Hk' Hp Hrp).
    split; [|split; [exact Hrp|exact Hperm1]]. split.
    + apply WF_roots_alt. cbn [t_roots]. apply (WF_roots_replace l1 root l2 root'); auto.
      intros Hc. exfalso. apply (Hc' eq_refl Hc).
    + cbn [t_size t_roots]. unfold routes_of_txn at 1. cbn [t_roots]. eapply Hsz; eauto.
  - destruct Hr as [Hr _]. discriminate.
  - destruct Hr as [_ [Hw' [Hk' [Hrp Hp]]]].
    destruct (Tree.is_nil (nchildren parent) && is_removable m) eqn:Ec.
    + apply andb_true_iff in Ec. destruct Ec as [Ec1 Ec2].
      assert (nchildren parent = []) as Hcp by (destruct (nchildren parent); [reflexivity|discriminate]).
      rewrite Hrem.
      assert (Permutation (routes_of_txn t) ((m, p, rid r) :: flat_map routes_of_root (l1 ++ l2))) as Hperm2.
      { rewrite (Hperm1 parent r Hk' Hp Hrp). apply perm_skip. rewrite routes_mid.
        unfold routes_of_root at 1. destruct parent as [kp rp chp]. destruct Hw' as [Hrp' _].
        cbn [nroute nchildren] in *. subst. reflexivity. }
      split; [|split; [exact Hrp|exact Hperm2]]. split.
      * apply WF_roots_alt. cbn [t_roots]. apply (WF_roots_remove l1 root l2 Hwr).
        rewrite Hk. apply is_removable_true. exact Ec2.
      * cbn [t_size t_roots]. unfold routes_of_txn at 1. cbn [t_roots]. eapply Hsz; eauto.
    + rewrite Hrep.
      assert (Node m (nroute parent) (nchildren parent) = parent) as -> by (destruct parent; simpl in *; congruence).
      specialize (Hperm1 parent r Hk' Hp Hrp).
      split; [|split; [exact Hrp|exact Hperm1]]. split.
      * apply WF_roots_alt. cbn [t_roots]. apply (WF_roots_replace l1 root l2 parent); auto.
        intros Hc. rewrite Hc in Ec. simpl in Ec. rewrite Hk', Hk. apply is_removable_false. exact Ec.
      * cbn [t_size t_roots]. unfold routes_of_txn at 1. cbn [t_roots]. eapply Hsz; eauto.
Qed.

(* ---------- truncate ---------- *)
Definition not_in_methods (ms : list bytes) (e : bytes * bytes * N) : bool :=
  negb (existsb (bytes_eqb (fst (fst e))) ms).

Lemma filter_all_true {A} (f : A -> bool) l : (forall x, In x l -> f x = true) -> filter f l = l.
Proof.
  induction l as [|x l IH]; simpl; intros H; [reflexivity|].
  rewrite (H x) by (left; reflexivity). f_equal. apply IH. intros y Hy. apply H. right. exact Hy.
Qed.

Lemma filter_all_false {A} (f : A -> bool) l : (forall x, In x l -> f x = false) -> filter f l = [].
Proof.
  induction l as [|x l IH]; simpl; intros H; [reflexivity|].
  rewrite (H x) by (left; reflexivity). apply IH. intros y Hy. apply H. right. exact Hy.
Qed.

Lemma filter_filter {A} (f g : A -> bool) l : filter f (filter g l) = filter (fun x => g x && f x) l.
Proof.
  induction l as [|x l IH]; simpl; [reflexivity|]. destruct (g x); simpl; [|exact IH].
  destruct (f x); [f_equal|]; exact IH.
Qed.

Lemma routes_of_root_method root e : In e (routes_of_root root) -> fst (fst e) = nkey root.
Proof. unfold routes_of_root. intros H. apply in_map_iff in H. destruct H as [r [<- _]]. reflexivity. Qed.

Lemma routes_method_in rs e : In e (flat_map routes_of_root rs) -> In (fst (fst e)) (map nkey rs).
Proof.
  intros H. apply in_flat_map in H. destruct H as [root [Hr He]].
  rewrite (routes_of_root_method root e He). apply in_map. exact Hr.
Qed.

Lemma filter_not_method_mid l1 root l2 : NoDup (map nkey (l1 ++ root :: l2)) ->
  filter (fun e => negb (method_is (nkey root) e)) (flat_map routes_of_root (l1 ++ root :: l2))
  = flat_map routes_of_root (l1 ++ l2).
Proof.
  intros Hnd. rewrite map_app in Hnd. simpl in Hnd.
  pose proof (NoDup_remove_2 _ _ _ Hnd) as Hni. rewrite in_app_iff in Hni.
  rewrite !flat_map_app. simpl. rewrite !filter_app.
  rewrite (filter_all_true _ (flat_map routes_of_root l1)).
  2:{ intros e He. apply routes_method_in in He. unfold method_is.
      destruct (bytes_eqb_spec (fst (fst e)) (nkey root)) as [Eq|]; [|reflexivity]. rewrite Eq in He. tauto. }
  rewrite (filter_all_true _ (flat_map routes_of_root l2)).
  2:{ intros e He. apply routes_method_in in He. unfold method_is.
      destruct (bytes_eqb_spec (fst (fst e)) (nkey root)) as [Eq|]; [|reflexivity]. rewrite Eq in He. tauto. }
  rewrite (filter_all_false _ (routes_of_root root)).
  2:{ intros e He. apply routes_of_root_method in He. unfold method_is. rewrite He, bytes_eqb_refl. reflexivity. }
  reflexivity.
Qed.

Lemma routes_length_mid l1 root l2 :
  List.length (flat_map routes_of_root (l1 ++ root :: l2))
  = List.length (flat_map routes_of_root (l1 ++ l2)) + List.length (rlist root).
Proof.
  rewrite (Permutation_length (routes_mid l1 root l2)), app_length. unfold routes_of_root at 1.
  rewrite map_length. lia.
Qed.

Lemma truncate_methods_spec : forall ms rs size,
  WF_roots' rs -> size = Z.of_nat (List.length (flat_map routes_of_root rs)) ->
  WF_roots' (fst (truncate_methods rs size ms)) /\
  snd (truncate_methods rs size ms) = Z.of_nat (List.length (flat_map routes_of_root (fst (truncate_methods rs size ms)))) /\
  flat_map routes_of_root (fst (truncate_methods rs size ms)) = filter (not_in_methods ms) (flat_map routes_of_root rs).
Proof.
  induction ms as [|m more IH]; intros rs size Hw Hsize.
  - simpl. split; [exact Hw|]. split; [exact Hsize|]. symmetry. apply filter_all_true. reflexivity.
  - cbn [truncate_methods]. destruct Hw as [H1 [H2 [H3 H4]]].
    assert (forall rs1, flat_map routes_of_root rs1 = filter (fun e => negb (method_is m e)) (flat_map routes_of_root rs) ->
              filter (not_in_methods more) (flat_map routes_of_root rs1) = filter (not_in_methods (m :: more)) (flat_map routes_of_root rs)) as Hcomp.
    { intros rs1 ->. rewrite filter_filter. apply filter_ext. intros e. unfold not_in_methods, method_is. simpl.
      rewrite negb_orb. reflexivity. }
    destruct (method_index rs m) as [idx|] eqn:Em.
    2:{ destruct (method_index_none _ _ H1 Em) as [Hni _].
        destruct (IH rs size (conj H1 (conj H2 (conj H3 H4))) Hsize) as [Ha [Hb Hc]].
        split; [exact Ha|]. split; [exact Hb|]. rewrite Hc. apply Hcomp.
        symmetry. apply filter_all_true. intros e He. apply routes_method_in in He. unfold method_is.
        destruct (bytes_eqb_spec (fst (fst e)) m) as [Eq|]; [|reflexivity]. rewrite Eq in He. contradiction. }
    destruct (method_index_some _ _ _ H1 Em) as [l1 [root [l2 [E [-> [Hk Hverb]]]]]].
    assert (nth_error rs (List.length l1) = Some root) as Hnth by (rewrite E; apply nth_error_app_mid).
    rewrite Hnth. rewrite routes_of_node_rlist.
    assert (WF_roots' (l1 ++ root :: l2)) as Hwr by (rewrite <- E; repeat split; auto).
    assert (size - Z.of_nat (List.length (rlist root)) = Z.of_nat (List.length (flat_map routes_of_root (l1 ++ l2))))%Z as Hsz.
    { rewrite Hsize, E, routes_length_mid. lia. }
    assert (flat_map routes_of_root (l1 ++ l2) = filter (fun e => negb (method_is m e)) (flat_map routes_of_root rs)) as Hfl.
    { rewrite E, <- Hk. symmetry. apply filter_not_method_mid. rewrite <- E. exact H2. }
    destruct (is_removable m) eqn:Erm; cbn [negb].
    + (* custom method: the root disappears *)
      assert (remove_nth rs (List.length l1) = l1 ++ l2) as -> by (rewrite E; apply remove_nth_app).
      assert (WF_roots' (l1 ++ l2)) as Hw'.
      { apply (WF_roots_remove l1 root l2 Hwr). rewrite Hk. apply is_removable_true. exact Erm. }
      destruct (IH (l1 ++ l2) _ Hw' Hsz) as [Ha [Hb Hc]].
      split; [exact Ha|]. split; [exact Hb|]. rewrite Hc. apply Hcomp. exact Hfl.
    + (* one of the four verbs: an empty root takes its place *)
      assert (replace_nth rs (List.length l1) (empty_root (nth (List.length l1) common_verbs [])) = l1 ++ empty_root m :: l2) as ->
        by (rewrite (Hverb eq_refl), E; apply replace_nth_mid).
      assert (WF_roots' (l1 ++ empty_root m :: l2)) as Hw'.
      { apply (WF_roots_replace l1 root l2 (empty_root m) Hwr); [apply empty_root_WF|simpl; congruence|].
        intros _. simpl. apply is_removable_false. exact Erm. }
      assert (flat_map routes_of_root (l1 ++ empty_root m :: l2) = flat_map routes_of_root (l1 ++ l2)) as Hsame.
      { rewrite !flat_map_app. reflexivity. }
      rewrite <- Hsame in Hsz, Hfl.
      destruct (IH (l1 ++ empty_root m :: l2) _ Hw' Hsz) as [Ha [Hb Hc]].
      split; [exact Ha|]. split; [exact Hb|]. rewrite Hc. apply Hcomp. exact Hfl.
Qed.

Theorem truncate_tree_spec t ms : WF_txn t ->
  WF_txn (truncate t ms) /\
  routes_of_txn (truncate t ms) = match ms with [] => [] | _ => filter (not_in_methods ms) (routes_of_txn t) end.
Proof.
  intros [Hroots Hsize]. destruct ms as [|m more].
  - simpl. split; [|reflexivity]. apply wf_txnb_spec. reflexivity.
  - apply WF_roots_alt in Hroots. unfold truncate.
    pose proof (truncate_methods_spec (m :: more) (t_roots t) (t_size t) Hroots Hsize) as H.
    destruct (truncate_methods (t_roots t) (t_size t) (m :: more)) as [rs sz]. cbn [fst snd] in H.
    destruct H as [Ha [Hb Hc]]. split; [|exact Hc]. split; [apply WF_roots_alt; exact Ha|exact Hb].
Qed.

(* ---------- Iter().All() lists exactly routes_of_txn ---------- *)
Lemma all_of_routes t : WF_txn t -> all_of t = routes_of_txn t.
Proof.
  intros [[_ [_ [_ Hw]]] _]. unfold all_of, routes_of_txn.
  induction (t_roots t) as [|root rs IH]; [reflexivity|].
  inversion Hw as [|? ? [Hr _] Hw']; subst. specialize (IH Hw'). simpl.
  destruct (nchildren root) as [|c ch] eqn:Ec; simpl.
  - rewrite IH. unfold routes_of_root. rewrite (rlist_root_children root Hr), Ec. reflexivity.
  - rewrite IH. unfold routes_of_root. rewrite routes_of_node_rlist. reflexivity.
Qed.

(* ---------- well-formedness is preserved ---------- *)
Theorem WF_empty : WF_txn empty_txn.
Proof. exact empty_txn_wf. Qed.

Theorem WF_insert t m ri t' : WF_txn t -> valid_rinfo ri -> insert t m ri = ROk t' -> WF_txn t'.
Proof. intros Hw Hv E. pose proof (insert_tree_spec t m ri Hw Hv) as H. rewrite E in H. apply H. Qed.

Theorem WF_update t m ri t' : WF_txn t -> rpat (ri_route ri) <> [] -> update t m ri = ROk t' -> WF_txn t'.
Proof. intros Hw Hv E. pose proof (update_tree_spec t m ri Hw Hv) as H. rewrite E in H. apply H. Qed.

Theorem WF_remove t m p t' r : WF_txn t -> p <> [] -> remove t m p = DOk t' r -> WF_txn t'.
Proof. intros Hw Hv E. pose proof (remove_tree_spec t m p Hw Hv) as H. rewrite E in H. apply H. Qed.

Theorem WF_truncate t ms : WF_txn t -> WF_txn (truncate t ms).
Proof. intros Hw. apply truncate_tree_spec. exact Hw. Qed.

