(* C16, round 7: what the handler is handed.
   Alloc.v sizes the context that serves a request from the tree being routed on:
   a_caps = caps_of maxParams depth = what allocateContext of THAT tree gives (tree.go:704-718;
   "c.tree is always the owner of the pool").  params_bounded / warm_context_no_growth speak about
   such a context.  A context that belongs to another tree (an earlier one, replaced by a write while
   the context was in flight: Lookup / CloneWith / an Iter created before the write, closed after it)
   has the capacities of that other tree, and what it borrows later (CloneWith: c.tree.ctx) comes from
   that other tree's pool.  So the correspondence also has to observe the context itself:

   x_handed : None when no handler call was observed during the case, else
              (owned, caps): owned = every context handed to a handler (by ServeHTTP, and the copy a
              CloneWith-ing middleware hands on) belonged to the tree published at that moment;
              caps = the smallest capacities seen on such a context (params, tsrParams, skipNds).
   No proofs in this file (AllocHist2.v): the case files evaluate these functions. *)
From FoxBase Require Import Bytes.
From FoxRoute Require Import Node Lookup Tree Alloc.

Record xcase := { x_base : acase; x_handed : option (bool * hw) }.

(* a served request hands its handler a context owned by the routed tree, at least as large as
   allocateContext of that tree makes it (capacities only grow) *)
Definition x_handed_ok (c : xcase) : bool :=
  match x_handed c with
  | None => negb (a_match (x_base c))
  | Some (owned, caps) => owned && hw_leb (a_caps (x_base c)) caps
  end.

Definition x_agrees (c : xcase) : bool :=
  a_agrees (x_base c) && a_bounds_ok (x_base c) && x_handed_ok c.

Definition x_mismatches (cs : list xcase) : list nat := true_idx (map (fun c => negb (x_agrees c)) cs).
Definition x_violations (cs : list xcase) : list nat := true_idx (map (fun c => negb (a_spec_ok (x_base c))) cs).
Definition x_fuel_outs (cs : list xcase) : list nat := true_idx (map (fun c => a_oof (x_base c)) cs).
Definition x_cold_growth (cs : list xcase) : list nat :=
  true_idx (map (fun c => grows (a_caps (x_base c)) (snd (a_run (x_base c)))) cs).
(* cases whose context was not owned by the published tree (subset of x_mismatches; printed for the replay) *)
Definition x_not_owned (cs : list xcase) : list nat :=
  true_idx (map (fun c => match x_handed c with Some (false, _) => true | _ => false end) cs).
