(* EndToEnd — C01 bridge (agent p-e2e): every well-formed tree (WFDef.WF_node, the invariant
   that Tree.insert/update/remove/truncate preserve) satisfies the invariant [pwf] under which
   StaticEquiv2 proves M1 = S; the routes below a well-formed root are pairwise [apart], hence
   [NoConflict]; a method root without hostname route has at most one child, a "/..." child. *)
From FoxBase Require Import Bytes.
From FoxRoute Require Import Node Lookup Spec SpecFacts Tree MapSpec Corr WFDef TreeWF TreeWF2 TreeMap TreeMap2
  SpecSound SpecSound2 StaticEquiv StaticEquiv2.
From Coq Require Import Sorting.Sorted Permutation.
Open Scope char_scope.
Local Notation starts_with := Node.starts_with.

(* ------------------------------------------------------------------ *)
(* 1. a closed-to-closed stretch of a legal pattern is a sequence of whole tokens *)
(* ------------------------------------------------------------------ *)
Lemma name_ok_notin nm : ~ In "}" nm -> name_ok nm = true.
Proof.
  intros H. unfold name_ok. destruct (existsb (Ascii.eqb "}") nm) eqn:E; [|reflexivity].
  apply existsb_exists in E. destruct E as [x [Hx E]]. apply Ascii.eqb_eq in E. subst x. contradiction.
Qed.

Lemma name_ok_notin' nm : name_ok nm = true -> ~ In "}" nm.
Proof.
  unfold name_ok. intros H Hin. apply negb_true_iff in H.
  assert (existsb (Ascii.eqb "}") nm = true) as E; [|congruence].
  apply existsb_exists. exists "}". split; [exact Hin|reflexivity].
Qed.

Lemma closed_render_gen : forall n k s0, List.length k <= n -> okstart s0 ->
  vclosed (fold_left vstep k s0) = true ->
  render (tokenize k) = k /\ forallb tok_ok (tokenize k) = true.
Proof.
  induction n as [|n IH]; intros k s0 Hl Hs Hc.
  { destruct k; [split; reflexivity|simpl in Hl; lia]. }
  destruct k as [|c r]; [split; reflexivity|]. simpl in Hl. destruct s0 as [h st].
  rewrite tokenize_cons. cbn [fold_left] in Hc.
  assert (forall s1, vstep (h, st) c = s1 -> okstart s1 -> sbyte c = true ->
            render (TStatic c :: tokenize r) = c :: r /\ forallb tok_ok (TStatic c :: tokenize r) = true) as Hstatic.
  { intros s1 E Hs1 Hsb. rewrite E in Hc. destruct (IH r s1) as [H1 H2]; auto; [lia|].
    split; [simpl; f_equal; exact H1|]. simpl. rewrite Hsb, H2. reflexivity. }
  destruct Hs as [Hs|Hs]; simpl in Hs; subst st.
  - destruct (Ascii.eqb_spec c "{") as [->|N1].
    + simpl in Hc. destruct (vname_run r h Hc) as [nm [r2 [-> [Hni Hf]]]].
      rewrite take_name_app by exact Hni. rewrite Hf in Hc.
      destruct (IH r2 (h, VAfter)) as [H1 H2]; [rewrite app_length in Hl; simpl in Hl; lia|right; reflexivity|exact Hc|].
      split.
      * simpl. f_equal. rewrite <- app_assoc. simpl. rewrite H1. reflexivity.
      * simpl. rewrite (name_ok_notin _ Hni), H2. reflexivity.
    + destruct (Ascii.eqb_spec c "*") as [->|N2].
      * simpl in Hc. destruct h; [rewrite vbad_abs in Hc; discriminate|].
        destruct r as [|d r1]; [discriminate|]. simpl in Hc.
        destruct (Ascii.eqb_spec d "{") as [->|N3]; [|rewrite vbad_abs in Hc; discriminate].
        destruct (vname_run r1 false Hc) as [nm [r2 [-> [Hni Hf]]]].
        rewrite take_name_app by exact Hni. rewrite Hf in Hc.
        destruct (IH r2 (false, VAfter)) as [H1 H2]; [simpl in Hl; rewrite app_length in Hl; simpl in Hl; lia|right; reflexivity|exact Hc|].
        split.
        -- simpl. do 2 f_equal. rewrite <- app_assoc. simpl. rewrite H1. reflexivity.
        -- simpl. rewrite (name_ok_notin _ Hni), H2. reflexivity.
      * assert (sbyte c = true) as Hsb.
        { unfold sbyte. destruct (Ascii.eqb_spec c "{"); [contradiction|]. destruct (Ascii.eqb_spec c "*"); [contradiction|]. reflexivity. }
        simpl in Hc. destruct (Ascii.eqb_spec c "/") as [->|N3].
        -- eapply Hstatic; [simpl; reflexivity|left; reflexivity|exact Hsb].
        -- apply (Hstatic (h, VDef)); [|left; reflexivity|exact Hsb]. simpl.
           destruct (Ascii.eqb_spec c "/"); [contradiction|]. destruct (Ascii.eqb_spec c "{"); [contradiction|].
           destruct (Ascii.eqb_spec c "*"); [contradiction|]. reflexivity.
  - simpl in Hc. destruct (Ascii.eqb_spec c "/") as [->|N1].
    + simpl. eapply Hstatic; [simpl; reflexivity|left; reflexivity|reflexivity].
    + destruct (h && Ascii.eqb c ".") eqn:E; [|rewrite vbad_abs in Hc; discriminate].
      apply andb_true_iff in E. destruct E as [-> E]. apply Ascii.eqb_eq in E. subst c. simpl.
      eapply Hstatic; [simpl; reflexivity|left; reflexivity|reflexivity].
Qed.

Lemma vclosed_okstart s : vclosed s = true -> okstart s.
Proof. destruct s as [h st]. unfold vclosed, okstart. simpl. destruct st; auto; discriminate. Qed.

Lemma closed_render pre k : closed pre = true -> closed (pre ++ k) = true ->
  render (tokenize k) = k /\ forallb tok_ok (tokenize k) = true.
Proof.
  unfold closed. intros Hp Hk. rewrite vrun_app in Hk.
  apply (closed_render_gen (List.length k) k (vrun pre)); auto. apply vclosed_okstart. exact Hp.
Qed.

(* a legal pattern is the rendering of its token list *)
Lemma valid_render p : closed p = true -> render (tokenize p) = p /\ forallb tok_ok (tokenize p) = true.
Proof. intros H. apply (closed_render [] p); [reflexivity|exact H]. Qed.

Lemma tokenize_inj p q : closed p = true -> closed q = true -> tokenize p = tokenize q -> p = q.
Proof.
  intros Hp Hq E. rewrite <- (proj1 (valid_render p Hp)), <- (proj1 (valid_render q Hq)), E. reflexivity.
Qed.

(* ------------------------------------------------------------------ *)
(* 2. after a catch-all only '/' can follow                             *)
(* ------------------------------------------------------------------ *)
Lemma vname_stay nm : ~ In "}" nm -> forall h,
  fold_left vstep nm (h, VName) = (h, VName) \/ fold_left vstep nm (h, VName) = (h, VBad).
Proof.
  induction nm as [|c nm IH]; intros Hni h; [left; reflexivity|].
  cbn [fold_left]. cbn [vstep]. destruct (Ascii.eqb_spec c "}") as [->|N]; [exfalso; apply Hni; left; reflexivity|].
  assert (~ In "}" nm) as Hni' by (intros H; apply Hni; right; exact H).
  destruct (Ascii.eqb c "/" || Ascii.eqb c "*" || Ascii.eqb c "{" || h && Ascii.eqb c ".").
  - right. apply vbad_abs.
  - apply IH. exact Hni'.
Qed.

Lemma catch_end_state u nm : ~ In "}" nm ->
  snd (vrun (u ++ "*" :: "{" :: nm ++ ["}"])) <> VBad ->
  vrun (u ++ "*" :: "{" :: nm ++ ["}"]) = (false, VAfter).
Proof.
  intros Hni. rewrite vrun_app. destruct (vrun u) as [h st].
  change (fold_left vstep ("*" :: "{" :: nm ++ ["}"]) (h, st))
    with (fold_left vstep (nm ++ ["}"]) (vstep (vstep (h, st) "*") "{")).
  destruct st, h; simpl vstep; try (rewrite vbad_abs; simpl; congruence).
  rewrite fold_left_app. destruct (vname_stay nm Hni false) as [E|E]; rewrite E; simpl; intros H; [reflexivity|congruence].
Qed.

Lemma after_catch_slash u w : vrun u = (false, VAfter) -> w <> [] -> closed (u ++ w) = true ->
  starts_with "/" w = true.
Proof.
  intros Hu Hw Hc. destruct w as [|c w]; [congruence|]. unfold closed in Hc. rewrite vrun_app, Hu in Hc.
  cbn [fold_left] in Hc. cbn [vstep] in Hc. simpl. destruct (Ascii.eqb c "/"); [reflexivity|].
  simpl in Hc. rewrite vbad_abs in Hc. discriminate.
Qed.

(* kt_ok from tok_ok: only a final catch-all needs the leaf condition *)
Lemma kt_ok_of_tok b : forall kt, forallb tok_ok kt = true ->
  (forall kt' nm, kt = kt' ++ [TCatch nm] -> b = true) -> kt_ok b kt = true.
Proof.
  induction kt as [|t kt IH]; intros Hok Hend; [reflexivity|].
  simpl in Hok. apply andb_prop in Hok. destruct Hok as [Ht Hok].
  assert (kt_ok b kt = true) as Hr.
  { apply IH; [exact Hok|]. intros kt' nm ->. apply (Hend (t :: kt') nm). reflexivity. }
  destruct t as [d|nm|nm]; cbn [kt_ok ptok_ok]; simpl in Ht; rewrite Ht, Hr; [reflexivity|reflexivity|].
  destruct kt as [|t' kt']; [|reflexivity]. rewrite (Hend [] nm eq_refl). reflexivity.
Qed.

Lemma sorted_fb_heads pre ch : sorted_fb ch -> Forall (WF_node pre) ch -> NoDup (heads ch).
Proof.
  intros Hs Hf. apply sorted_fb_textual in Hs; [exact (proj2 Hs)|]. eapply WF_children_key_ne; eauto.
Qed.

Lemma sorted_fb_same_first c0 x y ch : sorted_fb ch -> In x ch -> In y ch ->
  starts_with c0 (nkey x) = true -> starts_with c0 (nkey y) = true -> x = y.
Proof.
  intros Hs Hx Hy Sx Sy. apply sorted_fb_nodup in Hs.
  assert (fb x = fb y) as E by (rewrite (fb_starts _ _ Sx), (fb_starts _ _ Sy); reflexivity).
  clear Sx Sy. induction ch as [|z ch IH]; [destruct Hx|]. simpl in Hs. inversion Hs as [|? ? Hn Hd]; subst.
  destruct Hx as [->|Hx], Hy as [->|Hy]; auto.
  - exfalso. apply Hn. rewrite E. apply in_map. exact Hy.
  - exfalso. apply Hn. rewrite <- E. apply in_map. exact Hx.
Qed.

(* ------------------------------------------------------------------ *)
(* 3. the bridge: WF_node => pwf                                         *)
(* ------------------------------------------------------------------ *)
Theorem WF_node_pwf : forall n pre, WF_node pre n -> closed pre = true -> pwf pre n.
Proof.
  induction n as [k r ch IH] using node_ind2. intros pre Hwf Hpre.
  inversion Hwf as [? ? ? ? H1 H2 H3 H4 H5 H6 H7]; subst.
  destruct (closed_render pre k Hpre H2) as [Hrk Htok].
  apply (PWF pre k r ch (tokenize k)).
  - intros E. rewrite E in Hrk. simpl in Hrk. congruence.
  - symmetry. exact Hrk.
  - apply kt_ok_of_tok; [exact Htok|]. intros kt' nm Ekt.
    assert (vrun (pre ++ k) = (false, VAfter)) as Hst.
    { rewrite <- Hrk, Ekt, render_app. simpl. rewrite app_nil_r, app_assoc.
      rewrite Ekt in Htok. rewrite forallb_app in Htok. apply andb_prop in Htok. destruct Htok as [_ Hnm].
      simpl in Hnm. rewrite andb_true_r in Hnm.
      apply catch_end_state; [apply name_ok_notin'; exact Hnm|].
      rewrite <- app_assoc. change ("*" :: "{" :: nm ++ ["}"]) with (render_tok (TCatch nm)).
      replace (render kt' ++ render_tok (TCatch nm)) with k.
      - apply closed_nonbad. exact H2.
      - rewrite <- Hrk, Ekt, render_app. simpl. rewrite app_nil_r. reflexivity. }
    assert (forall c, In c ch -> starts_with "/" (nkey c) = true) as Hsl.
    { intros c Hc. rewrite Forall_forall in H7. specialize (H7 c Hc).
      apply (after_catch_slash (pre ++ k)); [exact Hst|eapply WF_node_key_ne; eauto|eapply WF_node_closed; eauto]. }
    assert (hostpart (pre ++ k) = false) as Hh by (unfold hostpart; rewrite Hst; reflexivity).
    assert (List.length ch <= 1) as Hlen.
    { destruct ch as [|x [|y ch']]; simpl; try lia. exfalso.
      assert (x = y) as E by (apply (sorted_fb_same_first "/" x y (x :: y :: ch')); try apply Hsl; simpl; auto).
      subst y. apply sorted_fb_nodup in H4. simpl in H4. inversion H4 as [|? ? Hn _]; subst. apply Hn. left. reflexivity. }
    destruct r as [rt|].
    + simpl. destruct ch as [|x [|y ch']]; [reflexivity|apply Hsl; left; reflexivity|simpl in Hlen; lia].
    + exfalso. destruct (H6 eq_refl) as [Hl|[Hhp _]]; [lia|congruence].
  - intros rt ->. exact (proj1 (H5 rt eq_refl)).
  - eapply sorted_fb_heads; eauto.
  - rewrite Forall_forall in *. intros c Hc. apply IH; auto.
Qed.

Theorem WF_root_pwf root : WF_root root -> Forall (pwf []) (nchildren root).
Proof.
  intros (_ & _ & Hf). rewrite Forall_forall in *. intros c Hc. apply WF_node_pwf; [auto|reflexivity].
Qed.

Theorem WF_txn_pwf t root c : WF_txn t -> In root (t_roots t) -> In c (nchildren root) -> pwf [] c.
Proof.
  intros [(_ & _ & _ & Hr) _] Hroot Hc. rewrite Forall_forall in Hr.
  pose proof (WF_root_pwf root (Hr root Hroot)) as H. rewrite Forall_forall in H. auto.
Qed.

(* ------------------------------------------------------------------ *)
(* 4. a method root without hostname route: no child, or one "/..." child *)
(* ------------------------------------------------------------------ *)
Lemma WF_child_first_byte pre c : WF_node pre c ->
  exists rt k', In rt (rlist c) /\ rpat rt = pre ++ nkey c ++ k'.
Proof.
  intros Hwf. pose proof (WF_rlist_nonempty c pre Hwf) as Hne.
  destruct (rlist c) as [|rt l] eqn:E; [congruence|].
  destruct (WF_rlist_pat c pre rt Hwf) as [k' [Hp _]]; [rewrite E; left; reflexivity|].
  exists rt, k'. split; [left; reflexivity|]. rewrite Hp, <- app_assoc. reflexivity.
Qed.

Theorem WF_root_path_only root : WF_root root ->
  (forall rt, In rt (rlist root) -> is_path_pattern (rpat rt) = true) ->
  nchildren root = [] \/
  exists t, nchildren root = [t] /\ starts_with "/" (nkey t) = true /\ pwf [] t.
Proof.
  intros Hwf Hpath. pose proof (WF_root_pwf root Hwf) as Hpw. destruct Hwf as (Hr & Hs & Hf).
  assert (forall c, In c (nchildren root) -> starts_with "/" (nkey c) = true) as Hsl.
  { intros c Hc. rewrite Forall_forall in Hf. specialize (Hf c Hc).
    destruct (WF_child_first_byte [] c Hf) as [rt [k' [Hin Hp]]].
    assert (In rt (rlist root)) as Hin'.
    { rewrite (rlist_root_children root Hr). apply in_flat_map. exists c. auto. }
    specialize (Hpath rt Hin'). rewrite Hp in Hpath. simpl in Hpath.
    pose proof (WF_node_key_ne _ _ Hf) as Hne. destruct (nkey c) as [|d kk]; [congruence|].
    simpl in *. destruct d as [[|] [|] [|] [|] [|] [|] [|] [|]]; try discriminate. reflexivity. }
  destruct (nchildren root) as [|x [|y ch']] eqn:E; [left; reflexivity| |].
  - right. exists x. split; [reflexivity|]. split; [apply Hsl; left; reflexivity|].
    inversion Hpw; subst. assumption.
  - exfalso. assert (x = y) as Exy by (apply (sorted_fb_same_first "/" x y (x :: y :: ch')); try apply Hsl; simpl; auto).
    subst y. apply sorted_fb_nodup in Hs. simpl in Hs. inversion Hs as [|? ? Hn _]; subst. apply Hn. left. reflexivity.
Qed.

(* ------------------------------------------------------------------ *)
(* 5. the routes of a well-formed tree are pairwise apart, hence NoConflict *)
(* ------------------------------------------------------------------ *)
Definition pair_apart (l : list route) : Prop :=
  forall r1 r2, In r1 l -> In r2 l -> rpat r1 <> rpat r2 -> apart (rpat r1) (rpat r2).

Lemma WF_children_apart pre ch : sorted_fb ch -> Forall (WF_node pre) ch -> closed pre = true ->
  Forall (fun c => pair_apart (rlist c)) ch -> pair_apart (flat_map rlist ch).
Proof.
  intros Hs Hf Hpre IH r1 r2 H1 H2 Hne.
  destruct (WF_children_pat ch pre r1 Hf H1) as [c1 [k1 [Hc1 [Hr1 [Hn1 [Hp1 _]]]]]].
  destruct (WF_children_pat ch pre r2 Hf H2) as [c2 [k2 [Hc2 [Hr2 [Hn2 [Hp2 _]]]]]].
  destruct (nkey c1) as [|a s1] eqn:E1; [congruence|]. destruct (nkey c2) as [|b s2] eqn:E2; [congruence|].
  destruct (Ascii.eqb_spec a b) as [->|Hab].
  - assert (c1 = c2) as ->.
    { apply (sorted_fb_same_first b c1 c2 ch); auto; [rewrite E1|rewrite E2]; simpl; apply Ascii.eqb_refl. }
    rewrite Forall_forall in IH. apply (IH c2 Hc2); auto.
  - right. right. exists pre, a, (s1 ++ k1), b, (s2 ++ k2). rewrite Hp1, Hp2. simpl. auto.
Qed.

Lemma WF_node_apart : forall n pre, WF_node pre n -> closed pre = true -> pair_apart (rlist n).
Proof.
  induction n as [k r ch IH] using node_ind2. intros pre Hwf Hpre.
  inversion Hwf as [? ? ? ? H1 H2 H3 H4 H5 H6 H7]; subst.
  assert (pair_apart (flat_map rlist ch)) as Hch.
  { apply (WF_children_apart (pre ++ k)); auto. rewrite Forall_forall in *. intros c Hc. apply (IH c Hc (pre ++ k)); auto. }
  intros r1 r2 Hr1 Hr2 Hne. cbn [rlist] in Hr1, Hr2.
  apply in_app_or in Hr1. apply in_app_or in Hr2.
  assert (forall rt, In rt (match r with Some rt => [rt] | None => [] end) -> rpat rt = pre ++ k) as Hown.
  { intros rt Hin. destruct r as [r0|]; [|destruct Hin]. destruct Hin as [<-|[]]. exact (proj1 (H5 r0 eq_refl)). }
  assert (forall rt, In rt (flat_map rlist ch) -> exists kk, kk <> [] /\ rpat rt = (pre ++ k) ++ kk) as Hbelow.
  { intros rt Hin. destruct (WF_children_pat ch (pre ++ k) rt H7 Hin) as [c [k' [_ [_ [Hn [Hp _]]]]]].
    exists (nkey c ++ k'). split; [|exact Hp]. destruct (nkey c); [congruence|discriminate]. }
  destruct Hr1 as [Hr1|Hr1], Hr2 as [Hr2|Hr2].
  - exfalso. apply Hne. rewrite (Hown _ Hr1), (Hown _ Hr2). reflexivity.
  - destruct (Hbelow _ Hr2) as [kk [Hk Hp]]. left. exists kk. rewrite (Hown _ Hr1). auto.
  - destruct (Hbelow _ Hr1) as [kk [Hk Hp]]. right. left. exists kk. rewrite (Hown _ Hr2). auto.
  - apply Hch; auto.
Qed.

Lemma WF_root_apart root : WF_root root -> pair_apart (rlist root).
Proof.
  intros (Hr & Hs & Hf). rewrite (rlist_root_children root Hr).
  apply (WF_children_apart []); auto.
  rewrite Forall_forall in *. intros c Hc. apply (WF_node_apart c []); auto.
Qed.

Lemma tokenize_nonnil k : k <> [] -> tokenize k <> [].
Proof. destruct k as [|a s]; [congruence|]. intros _. destruct (tokenize_head a s) as [t [ts [-> _]]]. discriminate. Qed.

Lemma apart_tokens_ne p q : apart p q -> tokenize p <> tokenize q.
Proof.
  intros [[k [Hk [-> Hc]]]|[[k [Hk [-> Hc]]]|[u [a [s [b [s' [-> [-> [Hab Hc]]]]]]]]]].
  - rewrite tokenize_app by exact Hc. intros E. rewrite <- (app_nil_r (tokenize p)) in E at 1.
    apply app_inv_head in E. symmetry in E. revert E. apply tokenize_nonnil. exact Hk.
  - rewrite tokenize_app by exact Hc. intros E. rewrite <- (app_nil_r (tokenize q)) in E at 2.
    apply app_inv_head in E. revert E. apply tokenize_nonnil. exact Hk.
  - rewrite !tokenize_app by exact Hc. intros E. apply app_inv_head in E.
    destruct (tokenize_head a s) as [t1 [ts1 [E1 H1]]]. destruct (tokenize_head b s') as [t2 [ts2 [E2 H2]]].
    rewrite E1, E2 in E. injection E as Et _. subst t2. destruct t1; subst; congruence.
Qed.

Lemma mtoken_eqb_eq x y : MapSpec.token_eqb x y = true -> x = y.
Proof.
  destruct x, y; simpl; try discriminate; intros H.
  - apply Ascii.eqb_eq in H. congruence.
  - apply bytes_eqb_eq in H. congruence.
  - apply bytes_eqb_eq in H. congruence.
Qed.

Lemma apart_sym p q : apart p q -> apart q p.
Proof.
  intros [H|[H|[u [a [s [b [s' [-> [-> [Hab Hc]]]]]]]]]]; [right; left; exact H|left; exact H|].
  right. right. exists u, b, s', a, s. auto.
Qed.

Theorem NoConflict_of_apart pats :
  (forall p q, In p pats -> In q pats -> p <> q -> apart p q) -> NoConflict (map mk_cand pats).
Proof.
  intros Hap. split.
  - intros k1 k2 Hk1 Hk2 Et. apply in_map_iff in Hk1. apply in_map_iff in Hk2.
    destruct Hk1 as [p [<- Hp]]. destruct Hk2 as [q [<- Hq]]. simpl in Et.
    destruct (bytes_eqb_spec p q) as [->|Hne]; [reflexivity|].
    exfalso. exact (apart_tokens_ne p q (Hap p q Hp Hq Hne) Et).
  - intros k1 k2 pre w1 w2 r1 r2 Hk1 Hk2 E1 E2 Hsim. apply in_map_iff in Hk1. apply in_map_iff in Hk2.
    destruct Hk1 as [p [<- Hp]]. destruct Hk2 as [q [<- Hq]]. simpl in E1, E2.
    destruct (bytes_eqb_spec p q) as [->|Hne].
    + rewrite E1 in E2. apply app_inv_head in E2. congruence.
    + destruct (apart_no_conflict p q (Hap p q Hp Hq Hne)) as [Hc _]. unfold patterns_conflict in Hc.
      rewrite E1, E2, tokens_conflict_app in Hc. simpl in Hc.
      destruct (MapSpec.token_eqb w1 w2) eqn:Ew; [apply mtoken_eqb_eq; exact Ew|].
      destruct Hsim; simpl in Ew; try discriminate. rewrite Ascii.eqb_refl in Ew. discriminate.
Qed.

Theorem WF_root_NoConflict root : WF_root root -> NoConflict (map mk_cand (map rpat (rlist root))).
Proof.
  intros Hwf. apply NoConflict_of_apart. intros p q Hp Hq Hne.
  apply in_map_iff in Hp. apply in_map_iff in Hq. destruct Hp as [r1 [<- H1]]. destruct Hq as [r2 [<- H2]].
  apply (WF_root_apart root Hwf); auto.
Qed.

(* ------------------------------------------------------------------ *)
(* 6. no catch-all route below a node => the subtree is [plain]          *)
(* ------------------------------------------------------------------ *)
Definition nocatch (ts : list token) : bool :=
  forallb (fun t => match t with TCatch _ => false | _ => true end) ts.

Lemma ptok_of_tok ts : forallb tok_ok ts = true -> nocatch ts = true -> forallb ptok_ok ts = true.
Proof.
  induction ts as [|t ts IH]; [reflexivity|]. simpl. intros H1 H2.
  apply andb_prop in H1. apply andb_prop in H2. destruct H1 as [Ha Hb], H2 as [Hc Hd].
  rewrite (IH Hb Hd), andb_true_r. destruct t; simpl in *; auto.
Qed.

Lemma nocatch_app a b : nocatch (a ++ b) = nocatch a && nocatch b.
Proof. apply forallb_app. Qed.

Theorem WF_node_plain : forall n pre, WF_node pre n -> closed pre = true ->
  (forall rt, In rt (rlist n) -> nocatch (tokenize (rpat rt)) = true) -> plain n = true.
Proof.
  induction n as [k r ch IH] using node_ind2. intros pre Hwf Hpre Hnc.
  inversion Hwf as [? ? ? ? H1 H2 H3 H4 H5 H6 H7]; subst.
  cbn [plain]. apply andb_true_intro. split.
  - destruct (closed_render pre k Hpre H2) as [_ Htok]. apply ptok_of_tok; [exact Htok|].
    destruct (WF_child_first_byte pre (Node k r ch) Hwf) as [rt [k' [Hin Hp]]]. specialize (Hnc rt Hin).
    cbn [nkey] in Hp. rewrite Hp, app_assoc in Hnc. rewrite (tokenize_app (pre ++ k)) in Hnc by exact H2.
    rewrite (tokenize_app pre) in Hnc by exact Hpre. rewrite !nocatch_app in Hnc.
    apply andb_prop in Hnc. destruct Hnc as [Hnc _]. apply andb_prop in Hnc. exact (proj2 Hnc).
  - apply forallb_forall. intros c Hc. rewrite Forall_forall in IH, H7. apply (IH c Hc (pre ++ k)); auto.
    intros rt Hin. apply Hnc. cbn [rlist]. apply in_or_app. right. apply in_flat_map. eauto.
Qed.
