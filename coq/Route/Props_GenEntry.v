(* Props_GenEntry - tie A for C01 (docs/GenC01.md): the entry-point wrappers regenerated from the Go source by
   harness/cmd/entrygen (GenEntry.v) equal the hand-written entry-point models of LazyProofs2.v for all inputs;
   entry_points_agree restated over the generated definitions.  Statements only; proofs: BridgeEntry.v. *)
From FoxBase Require Import Bytes.
From FoxRoute Require Import Node Lookup Tree LazyProofs LazyProofs2 EntrySem GenEntry BridgeEntry.
Require Import List String.
Import ListNotations.
Open Scope string_scope.

Theorem C01_gen_Router_Route_eq : forall fuel strip split pool redirect ignore fox method pattern pl,
  gen_Router_Route (E fuel strip split pool redirect ignore) fox method pattern pl =
  view_route (got_put (rt_tree fox) pl) (Router_Route fuel strip split (it_root (rt_tree fox)) method pattern (stale pool (rt_tree fox))).
Proof. exact gen_Router_Route_eq. Qed.
Print Assumptions C01_gen_Router_Route_eq.

Theorem C01_gen_Router_Has_eq : forall fuel strip split pool redirect ignore fox method pattern pl,
  gen_Router_Has (E fuel strip split pool redirect ignore) fox method pattern pl =
  gbind (view_route (got_put (rt_tree fox) pl) (Router_Route fuel strip split (it_root (rt_tree fox)) method pattern (stale pool (rt_tree fox))))
        (fun v pl => GRet (ptr_not_nil v) pl).
Proof. exact gen_Router_Has_eq. Qed.
Print Assumptions C01_gen_Router_Has_eq.

Theorem C01_gen_Router_Reverse_eq : forall fuel strip split pool redirect ignore fox method host path pl,
  gen_Router_Reverse (E fuel strip split pool redirect ignore) fox method host path pl =
  view_reverse (got_put (rt_tree fox) pl) (Router_Reverse fuel strip (it_root (rt_tree fox)) method host path (stale pool (rt_tree fox))).
Proof. exact gen_Router_Reverse_eq. Qed.
Print Assumptions C01_gen_Router_Reverse_eq.

Theorem C01_gen_Router_Lookup_eq : forall fuel strip split pool redirect ignore fox w r pl,
  lookup_obs (gen_Router_Lookup (E fuel strip split pool redirect ignore) fox w r pl) =
  view_lookup (rt_tree fox) pl (Router_Lookup fuel strip (it_root (rt_tree fox)) (rq_method r) (rq_host r) (req_path r) (stale pool (rt_tree fox))).
Proof. exact gen_Router_Lookup_eq. Qed.
Print Assumptions C01_gen_Router_Lookup_eq.

Theorem C01_gen_Txn_Route_eq : forall fuel strip split pool redirect ignore x method pattern pl,
  gen_Txn_Route (E fuel strip split pool redirect ignore) (open_txn x) method pattern pl =
  view_route (got_put (tx_tree x) pl) (Txn_Route fuel strip split (tx_root x) method pattern (stale pool (tx_tree x))).
Proof. exact gen_Txn_Route_eq. Qed.
Print Assumptions C01_gen_Txn_Route_eq.

Theorem C01_gen_Txn_Has_eq : forall fuel strip split pool redirect ignore x method pattern pl,
  gen_Txn_Has (E fuel strip split pool redirect ignore) (open_txn x) method pattern pl =
  gbind (view_route (got_put (tx_tree x) pl) (Txn_Route fuel strip split (tx_root x) method pattern (stale pool (tx_tree x))))
        (fun v pl => GRet (ptr_not_nil v) pl).
Proof. exact gen_Txn_Has_eq. Qed.
Print Assumptions C01_gen_Txn_Has_eq.

Theorem C01_gen_Txn_Reverse_eq : forall fuel strip split pool redirect ignore x method host path pl,
  gen_Txn_Reverse (E fuel strip split pool redirect ignore) (open_txn x) method host path pl =
  view_reverse (got_put (tx_tree x) pl) (Txn_Reverse fuel strip (tx_root x) method host path (stale pool (tx_tree x))).
Proof. exact gen_Txn_Reverse_eq. Qed.
Print Assumptions C01_gen_Txn_Reverse_eq.

Theorem C01_gen_Txn_Reverse_is_Router_Reverse : forall fuel strip split pool redirect ignore x method host path pl,
  gen_Txn_Reverse (E fuel strip split pool redirect ignore) (open_txn x) method host path pl =
  view_reverse (got_put (tx_tree x) pl) (Router_Reverse fuel strip (tx_root x) method host path (stale pool (tx_tree x))).
Proof. exact gen_Txn_Reverse_is_Router_Reverse. Qed.
Print Assumptions C01_gen_Txn_Reverse_is_Router_Reverse.

Theorem C01_gen_Txn_Reverse_nonempty : forall fuel strip split pool redirect ignore x method host path pl, path <> [] ->
  gen_Txn_Reverse (E fuel strip split pool redirect ignore) (open_txn x) method host path pl =
  view_reverse (got_put (tx_tree x) pl) (Txn_Reverse fuel strip (tx_root x) method host path (stale pool (tx_tree x))).
Proof. exact gen_Txn_Reverse_nonempty. Qed.
Print Assumptions C01_gen_Txn_Reverse_nonempty.

Theorem C01_gen_Txn_Lookup_eq : forall fuel strip split pool redirect ignore x w r pl,
  lookup_obs (gen_Txn_Lookup (E fuel strip split pool redirect ignore) (open_txn x) w r pl) =
  view_lookup (tx_tree x) pl (Txn_Lookup fuel strip (tx_root x) (rq_method r) (rq_host r) (req_path r) (stale pool (tx_tree x))).
Proof. exact gen_Txn_Lookup_eq. Qed.
Print Assumptions C01_gen_Txn_Lookup_eq.

Theorem C01_gen_Txn_settled : forall fuel strip split pool redirect ignore method pattern host path w r pl,
  let E := E fuel strip split pool redirect ignore in
  gen_Txn_Route E settled_txn method pattern pl = GSettled /\ gen_Txn_Has E settled_txn method pattern pl = GSettled /\
  gen_Txn_Reverse E settled_txn method host path pl = GSettled /\ gen_Txn_Lookup E settled_txn w r pl = GSettled.
Proof. exact gen_Txn_settled. Qed.
Print Assumptions C01_gen_Txn_settled.

Theorem C01_gen_Iter_Reverse_body_eq : forall fuel strip split pool redirect ignore it host path yield method c ys pl,
  body_obs (gen_Iter_Reverse_body (E fuel strip split pool redirect ignore) it host path yield method c ys pl) =
  view_body yield method ys pl (Iter_Reverse1 fuel strip (ts_opt redirect ignore) (iter_root it) method host path (cx_tsrparams c)).
Proof. exact gen_Iter_Reverse_body_eq. Qed.
Print Assumptions C01_gen_Iter_Reverse_body_eq.

Theorem C01_gen_Iter_Reverse_pool : forall fuel strip split pool redirect ignore it methods host path yield pl c' ys' pl',
  gen_Iter_Reverse (E fuel strip split pool redirect ignore) it methods host path yield pl = GRet (c', ys') pl' ->
  pl' = got_put (iter_tree it) pl.
Proof. exact gen_Iter_Reverse_pool. Qed.
Print Assumptions C01_gen_Iter_Reverse_pool.

Theorem C01_gen_resetNil_eq : forall c, gen_cTx_resetNil c = set_cx_route None (set_cx_params [] c).
Proof. exact gen_resetNil_eq. Qed.
Print Assumptions C01_gen_resetNil_eq.

Theorem C01_gen_resetWithWriter_eq : forall c w r, gen_cTx_resetWithWriter c w r = set_cx_route None (set_cx_tsr false (set_cx_params [] c)).
Proof. exact gen_resetWithWriter_eq. Qed.
Print Assumptions C01_gen_resetWithWriter_eq.

Theorem C01_gen_iTree_lookup_eq : forall fuel strip split pool redirect ignore t m hp p c lazy,
  gen_iTree_lookup (E fuel strip split pool redirect ignore) t m hp p c lazy =
  roots_lookup fuel (it_root t) m (strip hp) p lazy (cx_params c) (cx_tsrparams c).
Proof. exact gen_iTree_lookup_eq. Qed.
Print Assumptions C01_gen_iTree_lookup_eq.

Theorem C01_gen_Router_Reverse_is_Lookup : forall fuel strip split pool redirect ignore fox method host path w r pl pl',
  rq_method r = method -> rq_host r = host -> req_path r = or_slash path ->
  let E := E fuel strip split pool redirect ignore in
  gval (gen_Router_Reverse E fox method host path pl) = rev_of_lookup (lookup_obs (gen_Router_Lookup E fox w r pl')).
Proof. exact gen_Router_Reverse_is_Lookup. Qed.
Print Assumptions C01_gen_Router_Reverse_is_Lookup.

Theorem C01_gen_Txn_Reverse_is_Lookup : forall fuel strip split pool redirect ignore x method host path w r pl pl',
  rq_method r = method -> rq_host r = host -> req_path r = or_slash path ->
  let E := E fuel strip split pool redirect ignore in
  gval (gen_Txn_Reverse E (open_txn x) method host path pl) = rev_of_lookup (lookup_obs (gen_Txn_Lookup E (open_txn x) w r pl')).
Proof. exact gen_Txn_Reverse_is_Lookup. Qed.
Print Assumptions C01_gen_Txn_Reverse_is_Lookup.

Theorem C01_gen_Router_Route_is_Lookup : forall fuel strip split pool redirect ignore fox method pattern w r pl pl',
  rq_method r = method -> rq_host r = fst (split pattern) -> req_path r = snd (split pattern) ->
  let E := E fuel strip split pool redirect ignore in
  gval (gen_Router_Route E fox method pattern pl) = route_of_lookup pattern (lookup_obs (gen_Router_Lookup E fox w r pl')).
Proof. exact gen_Router_Route_is_Lookup. Qed.
Print Assumptions C01_gen_Router_Route_is_Lookup.

Theorem C01_gen_Txn_Route_is_Lookup : forall fuel strip split pool redirect ignore x method pattern w r pl pl',
  rq_method r = method -> rq_host r = fst (split pattern) -> req_path r = snd (split pattern) ->
  let E := E fuel strip split pool redirect ignore in
  gval (gen_Txn_Route E (open_txn x) method pattern pl) = route_of_lookup pattern (lookup_obs (gen_Txn_Lookup E (open_txn x) w r pl')).
Proof. exact gen_Txn_Route_is_Lookup. Qed.
Print Assumptions C01_gen_Txn_Route_is_Lookup.

Theorem C01_gen_Txn_Lookup_is_Router_Lookup : forall fuel strip split pool redirect ignore fox x w r pl pl',
  tx_root x = it_root (rt_tree fox) ->
  let E := E fuel strip split pool redirect ignore in
  gval (lookup_obs (gen_Txn_Lookup E (open_txn x) w r pl)) = gval (lookup_obs (gen_Router_Lookup E fox w r pl')).
Proof. exact gen_Txn_Lookup_is_Router_Lookup. Qed.
Print Assumptions C01_gen_Txn_Lookup_is_Router_Lookup.

(* regression witness of a corrected model: when this tie was first proved, the hand-written Txn_Reverse still described
   the code before fix f49b881 and differed from the source-derived definition on the empty path; after the correction
   both answer a direct match *)
Theorem C01_gen_Txn_Reverse_empty_path_agrees :
  exists r m h n,
    let x := {| tx_tree := {| it_root := r; it_pool := 0 |}; tx_root := r |} in
    gen_Txn_Reverse (E ex_fuel ex_strip ex_split pool0 nf nf) (open_txn x) m h [] [] = GRet (nroute n, false) [EvPut 0; EvGet 0] /\
    view_reverse [EvPut 0; EvGet 0] (Txn_Reverse ex_fuel ex_strip r m h [] []) = GRet (nroute n, false) [EvPut 0; EvGet 0].
Proof. exact gen_Txn_Reverse_empty_path_agrees. Qed.
Print Assumptions C01_gen_Txn_Reverse_empty_path_agrees.

(* ---- non-vacuity: the generated wrappers on a concrete router / transaction / iterator ---- *)
Definition exE := E ex_fuel ex_strip ex_split pool0 nf nf.
Definition ex_tree := {| it_root := ex_host_roots; it_pool := 3 |}.
Definition ex_empty_tree := {| it_root := ex_slash_roots; it_pool := 4 |}.  (* only GET / published *)
Definition ex_fox := {| rt_tree := ex_tree |}.
(* a write transaction opened on a published tree that only has GET / that has registered the routes itself *)
Definition ex_txn := open_txn {| tx_tree := ex_empty_tree; tx_root := ex_host_roots |}.
Definition ex_rt := Some {| rpat := S2B "{sub}.ex.com/u/{id}/x"; rid := 6 |}.
Definition ex_req := {| rq_method := m_get; rq_host := S2B "a.ex.com"; rq_path := S2B "/nothing"; rq_rawpath := S2B "/u/42/x" |}.

Example C01_gen_Router_ex :
  gen_Router_Route exE ex_fox m_get (S2B "{sub}.ex.com/u/{id}/x") [] = GRet ex_rt [EvPut 3; EvGet 3] /\
  gen_Router_Has exE ex_fox m_get (S2B "{sub}.ex.com/u/{id}/x") [] = GRet true [EvPut 3; EvGet 3] /\
  gen_Router_Has exE ex_fox m_get (S2B "a.ex.com/u/42/x") [] = GRet false [EvPut 3; EvGet 3] /\
  gen_Router_Reverse exE ex_fox m_get (S2B "a.ex.com") (S2B "/u/42/x") [] = GRet (ex_rt, false) [EvPut 3; EvGet 3] /\
  lookup_obs (gen_Router_Lookup exE ex_fox 0 ex_req []) = GRet (ex_rt, false, Some (ex_rt, false)) [EvGet 3].
Proof. vm_compute. repeat split; reflexivity. Qed.

(* the transaction answers from its OWN roots (the published tree only has GET /) and uses the pool of the tree it was opened on *)
Example C01_gen_Txn_ex :
  gen_Txn_Route exE ex_txn m_get (S2B "{sub}.ex.com/u/{id}/x") [] = GRet ex_rt [EvPut 4; EvGet 4] /\
  gen_Txn_Has exE ex_txn m_get (S2B "{sub}.ex.com/u/{id}/x") [] = GRet true [EvPut 4; EvGet 4] /\
  gen_Txn_Reverse exE ex_txn m_get (S2B "a.ex.com") (S2B "/u/42/x") [] = GRet (ex_rt, false) [EvPut 4; EvGet 4] /\
  lookup_obs (gen_Txn_Lookup exE ex_txn 0 ex_req []) = GRet (ex_rt, false, Some (ex_rt, false)) [EvGet 4] /\
  gen_Router_Reverse exE {| rt_tree := ex_empty_tree |} m_get (S2B "a.ex.com") (S2B "/u/42/x") [] = GRet (None, false) [EvPut 4; EvGet 4] /\
  gen_Txn_Reverse exE settled_txn m_get (S2B "a.ex.com") (S2B "/u/42/x") [] = GSettled.
Proof. vm_compute. repeat split; reflexivity. Qed.

(* Iter.Reverse over GET, POST, GET with a consumer that stops after the first yield / never stops *)
Example C01_gen_Iter_ex :
  let it := {| iter_tree := ex_tree; iter_root := ex_host_roots |} in
  (exists c, gen_Iter_Reverse exE it [m_get; S2B "POST"; m_get] (S2B "a.ex.com") (S2B "/u/42/x") (fun _ _ => true) []
             = GRet (c, [(m_get, ex_rt); (m_get, ex_rt)]) [EvPut 3; EvGet 3]) /\
  (exists c, gen_Iter_Reverse exE it [m_get; S2B "POST"; m_get] (S2B "a.ex.com") (S2B "/u/42/x") (fun _ _ => false) []
             = GRet (c, [(m_get, ex_rt)]) [EvPut 3; EvGet 3]).
Proof. vm_compute. split; eexists; reflexivity. Qed.
