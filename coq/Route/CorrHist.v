(* Route area — history cases (C02, C07): sequences of Handle / Update / Delete /
   Truncate, direct or inside committed and aborted transactions, with the
   implementation's outcome and full tree dump observed after every step. *)
From FoxBase Require Import Bytes.
From FoxRoute Require Import Node Lookup Spec Tree MapSpec.
Open Scope char_scope.

Inductive opk := KHandle | KUpdate | KDelete | KTruncate | KBegin | KCommit | KAbort.

Inductive outcome := OutOk | OutExist | OutNotFound | OutConflict (pats : list bytes) | OutInvalid.

Record hobs := { o_out : outcome;
                 o_removed : option N;              (* id of the route Delete returned *)
                 o_tree : roots;                    (* dump of the state visible to the caller after the step *)
                 o_size : Z; o_maxp : nat; o_depth : nat;
                 o_all : list (bytes * bytes * N);  (* Iter().All(): method, pattern, id in iteration order *)
                 o_len : Z }.                       (* Len() *)

Record hop := { h_kind : opk; h_method : bytes; h_pat : bytes;
                h_valid : bool;                     (* parseRoute accepted the pattern (oracle, see C10) *)
                h_pslen : nat; h_hostsplit : nat; h_rid : N;
                h_methods : list bytes;             (* Truncate arguments *)
                h_obs : hobs }.

Definition hcase := list hop.

(* ---------- node equality ---------- *)
Definition route_eqb (a b : route) : bool := bytes_eqb (rpat a) (rpat b) && N.eqb (rid a) (rid b).
Fixpoint node_eqb (a b : node) {struct a} : bool :=
  match a, b with
  | Node k r ch, Node k' r' ch' =>
      bytes_eqb k k' && opt_eqb route_eqb r r' &&
      (fix go (l : list node) (l' : list node) {struct l} : bool :=
         match l, l' with
         | [], [] => true
         | x :: t, y :: t' => node_eqb x y && go t t'
         | _, _ => false
         end) ch ch'
  end.

(* ---------- model run ---------- *)
Definition valid_method_handle (m : bytes) : bool :=
  negb (is_nil m) && forallb (fun c => Nat.leb 65 (nat_of_ascii c) && Nat.leb (nat_of_ascii c) 90) m.

Record hstate := { pub : txn; cur : option txn }.

Definition visible (s : hstate) : txn := match cur s with Some t => t | None => pub s end.
Definition put (s : hstate) (t : txn) : hstate :=
  match cur s with Some _ => {| pub := pub s; cur := Some t |} | None => {| pub := t; cur := None |} end.

Definition hstep (s : hstate) (o : hop) : hstate * outcome * option N :=
  let t := visible s in
  let ri := {| ri_route := {| rpat := h_pat o; rid := h_rid o |}; ri_pslen := h_pslen o; ri_hostsplit := h_hostsplit o |} in
  match h_kind o with
  | KBegin => ({| pub := pub s; cur := Some (pub s) |}, OutOk, None)
  | KCommit => (match cur s with Some t' => {| pub := t'; cur := None |} | None => s end, OutOk, None)
  | KAbort => ({| pub := pub s; cur := None |}, OutOk, None)
  | KHandle =>
      if negb (valid_method_handle (h_method o)) || negb (h_valid o) then (s, OutInvalid, None)
      else match insert t (h_method o) ri with
           | ROk t' => (put s t', OutOk, None)
           | RExist _ => (s, OutExist, None)
           | RConflict ps => (s, OutConflict ps, None)
           | RNotFound => (s, OutNotFound, None)
           end
  | KUpdate =>
      if is_nil (h_method o) || negb (h_valid o) then (s, OutInvalid, None)
      else match update t (h_method o) ri with
           | ROk t' => (put s t', OutOk, None)
           | _ => (s, OutNotFound, None)
           end
  | KDelete =>
      if is_nil (h_method o) || negb (h_valid o) then (s, OutInvalid, None)
      else match remove t (h_method o) (h_pat o) with
           | DOk t' r => (put s t', OutOk, Some (rid r))
           | DNotFound => (s, OutNotFound, None)
           end
  | KTruncate => (put s (truncate t (h_methods o)), OutOk, None)
  end.

Definition outcome_eqb (a b : outcome) : bool :=
  match a, b with
  | OutOk, OutOk | OutExist, OutExist | OutNotFound, OutNotFound | OutInvalid, OutInvalid => true
  | OutConflict x, OutConflict y => list_eqb bytes_eqb x y
  | _, _ => false
  end.

Definition all_of (t : txn) : list (bytes * bytes * N) :=
  flat_map (fun root => map (fun r => (nkey root, rpat r, rid r)) (routes_of_node root))
           (filter (fun root => negb (is_nil (nchildren root))) (t_roots t)).

Definition triple_eqb (a b : bytes * bytes * N) : bool :=
  bytes_eqb (fst (fst a)) (fst (fst b)) && bytes_eqb (snd (fst a)) (snd (fst b)) && N.eqb (snd a) (snd b).

Definition obs_matches (t : txn) (out : outcome) (rm : option N) (o : hobs) : bool :=
  outcome_eqb out (o_out o) && opt_eqb N.eqb rm (o_removed o) &&
  list_eqb node_eqb (t_roots t) (o_tree o) &&
  Z.eqb (t_size t) (o_size o) && Nat.eqb (t_maxparams t) (o_maxp o) && Nat.eqb (t_depth t) (o_depth o) &&
  list_eqb triple_eqb (all_of t) (o_all o) && Z.eqb (t_size t) (o_len o).

Fixpoint hrun (s : hstate) (ops : list hop) : bool :=
  match ops with
  | [] => true
  | o :: r => let '(s', out, rm) := hstep s o in obs_matches (visible s') out rm (h_obs o) && hrun s' r
  end.

Definition init_hstate : hstate := {| pub := empty_txn; cur := None |}.
Definition hmodel_agrees (c : hcase) : bool := hrun init_hstate c.

(* ---------- specification run: the sequential map ---------- *)
Record sstate := { spub : mstate; scur : option mstate }.
Definition svisible (s : sstate) := match scur s with Some t => t | None => spub s end.
Definition sput (s : sstate) (t : mstate) : sstate :=
  match scur s with Some _ => {| spub := spub s; scur := Some t |} | None => {| spub := t; scur := None |} end.

Definition mout_matches (m : mout) (o : outcome) : bool :=
  match m, o with
  | MOk, OutOk | MExist, OutExist | MNotFound, OutNotFound | MInvalid, OutInvalid => true
  | MConflict x, OutConflict y =>      (* compared as sets *)
      forallb (fun p => existsb (bytes_eqb p) y) x && forallb (fun p => existsb (bytes_eqb p) x) y
  | _, _ => false
  end.

Definition same_set (m : mstate) (all : list (bytes * bytes * N)) : bool :=
  Nat.eqb (List.length m) (List.length all) &&
  forallb (fun e => existsb (fun a => triple_eqb (fst (fst e), snd (fst e), snd e) a) all) m.

Definition sstep (s : sstate) (o : hop) : sstate * mout * option N :=
  let t := svisible s in
  match h_kind o with
  | KBegin => ({| spub := spub s; scur := Some (spub s) |}, MOk, None)
  | KCommit => (match scur s with Some t' => {| spub := t'; scur := None |} | None => s end, MOk, None)
  | KAbort => ({| spub := spub s; scur := None |}, MOk, None)
  | KHandle => let '(t', out) := m_handle t (valid_method_handle (h_method o) && h_valid o) (h_method o) (h_pat o) (h_rid o) in
               (sput s t', out, None)
  | KUpdate => let '(t', out) := m_update t (negb (is_nil (h_method o)) && h_valid o) (h_method o) (h_pat o) (h_rid o) in
               (sput s t', out, None)
  | KDelete => let '(t', out, rm) := m_delete t (negb (is_nil (h_method o)) && h_valid o) (h_method o) (h_pat o) in
               (sput s t', out, rm)
  | KTruncate => (sput s (m_truncate t (h_methods o)), MOk, None)
  end.

Fixpoint srun (s : sstate) (ops : list hop) : bool :=
  match ops with
  | [] => true
  | o :: r =>
      let '(s', out, rm) := sstep s o in
      let ob := h_obs o in
      mout_matches out (o_out ob) && opt_eqb N.eqb rm (o_removed ob) &&
      same_set (svisible s') (o_all ob) && Z.eqb (Z.of_nat (List.length (svisible s'))) (o_len ob) &&
      srun s' r
  end.
Definition hspec_ok (c : hcase) : bool := srun {| spub := []; scur := None |} c.

Definition h_mismatches (cs : list hcase) : list nat := true_idx (map (fun c => negb (hmodel_agrees c)) cs).
Definition h_violations (cs : list hcase) : list nat := true_idx (map (fun c => negb (hspec_ok c)) cs).

(* ---------- C07: history independence ----------
   A case: the final registered set in the order a fresh router B was filled,
   the dump of router A (after an arbitrary mutation history ending in that set),
   the dump of router B, and whether every probe request was answered
   identically by A and B (route pattern, params, tsr, status, Allow set). *)
Record c7case := { c7_set : list (bytes * bytes * nat * nat);   (* method, pattern, psLen, hostSplit *)
                   c7_treeA : roots; c7_treeB : roots;
                   c7_depthB : nat; c7_maxpB : nat;
                   c7_probes_equal : bool }.

Fixpoint erase (n : node) : node :=
  match n with
  | Node k r ch => Node k (match r with Some rt => Some {| rpat := rpat rt; rid := 0 |} | None => None end) (map erase ch)
  end.

Definition fill (l : list (bytes * bytes * nat * nat)) : option txn :=
  fold_left (fun acc e =>
    match acc with
    | None => None
    | Some t =>
      let '(m, p, psl, hs) := e in
      match insert t m {| ri_route := {| rpat := p; rid := 0 |}; ri_pslen := psl; ri_hostsplit := hs |} with
      | ROk t' => Some t'
      | _ => None
      end
    end) l (Some empty_txn).

(* custom-method roots are appended in creation order: compare the root lists as sets of trees *)
Definition roots_same (a b : roots) : bool :=
  Nat.eqb (List.length a) (List.length b) &&
  forallb (fun x => existsb (node_eqb (erase x)) (map erase b)) a.

Definition c7_model_agrees (c : c7case) : bool :=
  match fill (c7_set c) with
  | Some t => list_eqb node_eqb (map erase (t_roots t)) (map erase (c7_treeB c))
              && Nat.eqb (t_depth t) (c7_depthB c) && Nat.eqb (t_maxparams t) (c7_maxpB c)
  | None => false
  end.
Definition c7_spec_ok (c : c7case) : bool := roots_same (c7_treeA c) (c7_treeB c) && c7_probes_equal c.

Definition c7_mismatches (cs : list c7case) : list nat := true_idx (map (fun c => negb (c7_model_agrees c)) cs).
Definition c7_violations (cs : list c7case) : list nat := true_idx (map (fun c => negb (c7_spec_ok c)) cs).
