(* roots.lookup as it is after the repair of the Host-with-slash defect (node.go:96-104):
   the hostname pass is skipped when the stripped host contains a '/', exactly as for an
   empty host.  roots_lookup (Lookup.v) is the function applied to the guarded host; the
   specification gets the same guard: a hostname never contains a '/'. *)
From FoxBase Require Import Bytes.
From FoxRoute Require Import Node Lookup HostPort Spec.
Open Scope char_scope.

Definition host_guard (host : bytes) : bytes := if contains host "/" then [] else host.

Definition roots_lookup_g (fuel : nat) (r : roots) (method host path : bytes) (lazy : bool) (ps0 tps0 : list kv) : lres :=
  roots_lookup fuel r method (host_guard host) path lazy ps0 tps0.

Definition spec_lookup_g (pats : list bytes) (host path : bytes) : sres :=
  spec_lookup pats (host_guard host) path.

Lemma host_guard_noslash host : contains (host_guard host) "/" = false.
Proof. unfold host_guard. destruct (contains host "/") eqn:E; [reflexivity|exact E]. Qed.

Lemma host_guard_id host : contains host "/" = false -> host_guard host = host.
Proof. unfold host_guard. intros ->. reflexivity. Qed.
