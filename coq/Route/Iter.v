(* Read-side API over a tree: roots.search (node.go:39-81), the iterators of
   iter.go (Methods, Prefix, All, Routes, Reverse) and Route/Has (fox.go:270-289). *)
From FoxBase Require Import Bytes.
From FoxRoute Require Import Node Lookup HostPort Spec Guard Tree.
Open Scope char_scope.

(* roots.search: the node under which every route has the given prefix *)
Fixpoint search (fuel : nat) (n : node) (rest : bytes) : option node :=
  match fuel with O => None | S f =>
  match rest with
  | [] => Some n
  | c0 :: _ =>
    match get_edge n c0 with
    | None => None
    | Some c =>
      let cp := common_prefix rest (nkey c) in
      let lcp := List.length cp in
      if Nat.eqb lcp (List.length rest) then Some c                   (* exact match or key end mid-edge *)
      else if Nat.eqb lcp (List.length (nkey c)) then search f c (skipn lcp rest)
      else None
    end
  end end.

Definition methods_of (r : roots) : list bytes :=
  map nkey (filter (fun root => negb (is_nil (nchildren root))) r).

(* Iter.Prefix for one method *)
Definition prefix_routes (r : roots) (m prefix : bytes) : list route :=
  match method_index r m with
  | None => []
  | Some i =>
    match nth_error r i with
    | None => []
    | Some root =>
      if is_nil (nchildren root) then []
      else match search (S (List.length prefix)) root prefix with
           | Some n => routes_of_node n
           | None => []
           end
    end
  end.

(* SplitHostPath (path.go:170-186) for a pattern: the host part keeps a non-numeric "port" *)
Definition valid_optional_port (p : bytes) : bool :=
  match p with
  | [] => true
  | c :: r => Ascii.eqb c ":" && forallb (fun b => Nat.leb 48 (nat_of_ascii b) && Nat.leb (nat_of_ascii b) 57) r
  end.
Definition split_host_port_rfc (hp : bytes) : bytes :=
  let h := match last_index hp ":" 0 None with
           | Some i => if valid_optional_port (skipn i hp) then firstn i hp else hp
           | None => hp end in
  match h with
  | "[" :: r => match rev r with "]" :: ri => rev ri | _ => h end
  | _ => h
  end.
Definition split_host_path (url : bytes) : bytes * bytes :=
  match index_byte url "/" with
  | Some O => ([], url)
  | None => (split_host_port_rfc url, ["/"])
  | Some i => (split_host_port_rfc (firstn i url), skipn i url)
  end.

(* Router.Route / Has: lazy lookup of the pattern text, direct match, same pattern *)
Definition route_of (r : roots) (m pattern : bytes) : option route :=
  let '(host, path) := split_host_path pattern in
  match roots_lookup_g big_fuel r m (strip_host_port host) path true [] [] with
  | Found (Some n) false _ _ =>
      match nroute n with
      | Some rt => if bytes_eqb (rpat rt) pattern then Some rt else None
      | None => None
      end
  | _ => None
  end.
Definition has (r : roots) (m pattern : bytes) : bool :=
  match route_of r m pattern with Some _ => true | None => false end.
