(* SingleRoute — the "routable" half of C10 (agent p-e2e): every valid path-only pattern, registered
   alone, is reached by every request obtained by substituting valid values for its wildcards; the
   lookup returns the pattern and parameters whose substitution reproduces the request, and exactly
   the substituted values when no catch-all is followed by further pattern text.
   Derived from EndToEnd2 (tree = map, WF => pwf, M1 = S) and SpecSound (select sound/complete). *)
From FoxBase Require Import Bytes.
From FoxRoute Require Import Node Lookup Spec SpecFacts Tree MapSpec Corr CorrHist WFDef TreeWF TreeWF2 TreeMap TreeMap2
  SpecSound SpecSound2 StaticEquiv StaticEquiv2 EndToEnd EndToEnd2.
Open Scope char_scope.
Local Notation starts_with := Node.starts_with.

(* ------------------------------------------------------------------ *)
(* valid substitutions                                                  *)
(* ------------------------------------------------------------------ *)
(* one value per wildcard, in pattern order: a parameter value is non-empty and has no '/';
   a catch-all value is non-empty and, when pattern text follows, neither starts nor ends with '/' *)
Fixpoint sigma_ok (ts : list token) (sg : list bytes) : Prop :=
  match ts with
  | [] => sg = []
  | TStatic _ :: r => sigma_ok r sg
  | TParam _ :: r => match sg with v :: sg' => v <> [] /\ ~ In "/" v /\ sigma_ok r sg' | [] => False end
  | TCatch _ :: r =>
      match sg with
      | v :: sg' => v <> [] /\ (r <> [] -> hd "/" v <> "/" /\ last v "/" <> "/") /\ sigma_ok r sg'
      | [] => False
      end
  end.

(* no catch-all is followed by further pattern text *)
Fixpoint no_mid_catch (ts : list token) : bool :=
  match ts with
  | [] => true
  | TCatch _ :: r => Spec.is_nil r
  | _ :: r => no_mid_catch r
  end.

(* in a valid path pattern a wildcard is followed by '/' or by nothing *)
Fixpoint follow_ok (ts : list token) : bool :=
  match ts with
  | [] => true
  | TStatic _ :: r => follow_ok r
  | _ :: r => match r with [] => true | TStatic c :: _ => Ascii.eqb c "/" | _ => false end && follow_ok r
  end.

Lemma tokenize_slash r : tokenize ("/" :: r) = TStatic "/" :: tokenize r.
Proof. rewrite tokenize_cons. reflexivity. Qed.

Lemma follow_gen : forall n k st, List.length k <= n -> (st = VDef \/ st = VAfter) ->
  vclosed (fold_left vstep k (false, st)) = true ->
  follow_ok (tokenize k) = true /\ (st = VAfter -> k = [] \/ exists r, k = "/" :: r).
Proof.
  induction n as [|n IH]; intros k st Hl Hs Hc.
  { destruct k; [split; [reflexivity|left; reflexivity]|simpl in Hl; lia]. }
  destruct k as [|c r]; [split; [reflexivity|left; reflexivity]|]. simpl in Hl.
  cbn [fold_left] in Hc.
  assert (forall nm r2 (w : bytes -> token), (w nm = TParam nm \/ w nm = TCatch nm) ->
            List.length r2 < n -> vclosed (fold_left vstep r2 (false, VAfter)) = true ->
            follow_ok (w nm :: tokenize r2) = true) as Hwild.
  { intros nm r2 w Hw Hl2 Hc2. destruct (IH r2 VAfter) as [H1 H2]; [lia|right; reflexivity|exact Hc2|].
    assert (match tokenize r2 with [] => true | TStatic c :: _ => Ascii.eqb c "/" | _ => false end = true) as Hn.
    { destruct (H2 eq_refl) as [->|[r' ->]]; [reflexivity|]. rewrite tokenize_slash. reflexivity. }
    destruct Hw as [->| ->]; cbn [follow_ok]; rewrite Hn, H1; reflexivity. }
  destruct Hs as [-> | ->].
  - split; [|discriminate]. rewrite tokenize_cons.
    destruct (Ascii.eqb_spec c "{") as [->|N1].
    + simpl in Hc. destruct (vname_run r false Hc) as [nm [r2 [-> [Hni Hf]]]].
      rewrite take_name_app by exact Hni. rewrite Hf in Hc.
      apply (Hwild nm r2 TParam); auto. rewrite app_length in Hl. simpl in Hl. lia.
    + destruct (Ascii.eqb_spec c "*") as [->|N2].
      * simpl in Hc. destruct r as [|d r1]; [discriminate|]. simpl in Hc.
        destruct (Ascii.eqb_spec d "{") as [->|N3]; [|rewrite vbad_abs in Hc; discriminate].
        destruct (vname_run r1 false Hc) as [nm [r2 [-> [Hni Hf]]]].
        rewrite take_name_app by exact Hni. rewrite Hf in Hc.
        apply (Hwild nm r2 TCatch); auto. simpl in Hl. rewrite app_length in Hl. simpl in Hl. lia.
      * cbn [follow_ok]. apply (IH r VDef); [lia|left; reflexivity|].
        simpl in Hc. destruct (Ascii.eqb_spec c "/"); [exact Hc|].
        destruct (Ascii.eqb_spec c "{"); [contradiction|]. destruct (Ascii.eqb_spec c "*"); [contradiction|]. exact Hc.
  - simpl in Hc. destruct (Ascii.eqb_spec c "/") as [->|N1]; [|rewrite vbad_abs in Hc; discriminate].
    split; [|intros _; right; eauto]. rewrite tokenize_slash. cbn [follow_ok].
    apply (IH r VDef); [lia|left; reflexivity|exact Hc].
Qed.

Lemma valid_path_follow p : valid_patternb p = true -> is_path_pattern p = true ->
  follow_ok (tokenize p) = true.
Proof.
  intros Hv Hp. destruct p as [|c r]; [discriminate|]. simpl in Hp.
  destruct c as [[|] [|] [|] [|] [|] [|] [|] [|]]; try discriminate. clear Hp.
  unfold valid_patternb in Hv. apply andb_prop in Hv. destruct Hv as [Hc _]. unfold closed, vrun in Hc.
  cbn [fold_left] in Hc. change (vstep vinit "/") with (false, VDef) in Hc.
  rewrite tokenize_slash. cbn [follow_ok]. apply (follow_gen (List.length r) r VDef); auto.
Qed.

Lemma valid_closed p : valid_patternb p = true -> closed p = true.
Proof. unfold valid_patternb. intros H. apply andb_prop in H. exact (proj1 H). Qed.

(* ------------------------------------------------------------------ *)
(* a valid substitution is a match; matches are unique without infix catch-all *)
(* ------------------------------------------------------------------ *)
Lemma subst_nil_any sg : subst [] sg = [].
Proof. reflexivity. Qed.

Lemma follow_next (t : token) r sg : is_wild t = true -> follow_ok (t :: r) = true ->
  (r = [] /\ subst r sg = []) \/ (r <> [] /\ SpecSound.starts_with "/" (subst r sg)).
Proof.
  intros Hw H. destruct t as [c|nm|nm]; [discriminate| |]; cbn [follow_ok] in H; apply andb_prop in H; destruct H as [H _];
    (destruct r as [|[c|?|?] r']; [left; split; reflexivity| |discriminate|discriminate];
     right; split; [discriminate|]; apply Ascii.eqb_eq in H; subst c; simpl; eexists; reflexivity).
Qed.

Lemma sigma_matches : forall ts sg, forallb tok_ok ts = true -> follow_ok ts = true ->
  sigma_ok ts sg -> Matches ts (subst ts sg) 0 sg.
Proof.
  induction ts as [|t r IH]; intros sg Htok Hfol Hsg.
  - simpl in Hsg. subst sg. constructor.
  - simpl in Htok. apply andb_prop in Htok. destruct Htok as [Ht Htok].
    assert (follow_ok r = true) as Hfr.
    { destruct t; cbn [follow_ok] in Hfol; [exact Hfol| |]; apply andb_prop in Hfol; exact (proj2 Hfol). }
    destruct t as [c|nm|nm].
    + simpl in Hsg. simpl. simpl in Ht. unfold sbyte in Ht. apply andb_prop in Ht. destruct Ht as [H1 H2].
      apply negb_true_iff in H1. apply negb_true_iff in H2. apply Ascii.eqb_neq in H1. apply Ascii.eqb_neq in H2.
      constructor; try assumption. simpl. apply IH; assumption.
    + destruct sg as [|v sg']; [destruct Hsg|]. destruct Hsg as (Hv & Hns & Hsg). cbn [subst].
      constructor; auto.
      destruct (follow_next (TParam nm) r sg' eq_refl Hfol) as [[_ E]|[_ E]]; [left; exact E|right; exact E].
    + destruct sg as [|v sg']; [destruct Hsg|]. destruct Hsg as (Hv & Hmid & Hsg). cbn [subst].
      constructor; auto.
      destruct (follow_next (TCatch nm) r sg' eq_refl Hfol) as [[_ E]|[Hr E]]; [left; exact E|right].
      destruct (Hmid Hr) as [Ha Hb]. auto.
Qed.

Lemma Matches_nil_skip j (s : bytes) vals : Matches [] (skipn j s) 0 vals -> List.length s <= j /\ vals = [].
Proof.
  intros M. remember (skipn j s) as q eqn:Eq. inversion M; subst. split; [|reflexivity].
  apply skipn_nil_len. congruence.
Qed.

Lemma Matches_unique : forall ts s v1 v2, no_mid_catch ts = true ->
  Matches ts s 0 v1 -> Matches ts s 0 v2 -> v1 = v2.
Proof.
  induction ts as [|t r IH]; intros s v1 v2 Hn M1 M2.
  - inversion M1; subst. inversion M2; subst. reflexivity.
  - pose proof (Matches_cons_nonempty _ _ _ _ _ M1) as Hs.
    apply Matches_inv in M1; [|exact Hs]. apply Matches_inv in M2; [|exact Hs].
    destruct M1 as [(c1 & t1' & r1 & Ht1 & Hs1 & _ & _ & M1)
                   |[(n1 & t1' & vals1 & Ht1 & Hv1 & _ & M1)
                    |(n1 & t1' & j1 & vals1 & Ht1 & _ & Hv1 & Hj1 & _ & M1)]];
    destruct M2 as [(c2 & t2' & r2 & Ht2 & Hs2 & _ & _ & M2)
                   |[(n2 & t2' & vals2 & Ht2 & Hv2 & _ & M2)
                    |(n2 & t2' & j2 & vals2 & Ht2 & _ & Hv2 & Hj2 & _ & M2)]];
    rewrite Ht1 in Ht2; try discriminate; injection Ht2 as ? ?; injection Ht1 as ? ?; subst.
    + injection Hs2 as <-. simpl in Hn, M1, M2. eapply IH; eauto.
    + simpl in Hn. simpl in M1, M2. f_equal. eapply IH; eauto.
    + simpl in Hn. destruct t2' as [|? ?]; [|discriminate].
      apply Matches_nil_skip in M1. apply Matches_nil_skip in M2. destruct M1 as [E1 ->]. destruct M2 as [E2 ->].
      assert (j1 = j2) by lia. subst. reflexivity.
Qed.

(* ------------------------------------------------------------------ *)
(* the specification on a single registered pattern                      *)
(* ------------------------------------------------------------------ *)
Lemma spec_single p host req sg : is_path_pattern p = true -> Matches (tokenize p) req 0 sg ->
  exists vals, sres_direct (spec_lookup [p] host req) = Some (p, name_values p vals) /\
               Matches (tokenize p) req 0 vals /\
               map fst (name_values p vals) = wildcard_names (tokenize p) /\
               map snd (name_values p vals) = vals.
Proof.
  intros Hp HM. rewrite spec_lookup_direct_path_only by (constructor; [exact Hp|constructor]).
  unfold spec_direct. destruct (select_in [p] host req false) as [[p' vals]|] eqn:E.
  - pose proof (select_in_sound _ _ _ _ _ _ E) as D.
    destruct (DirectMatch_meaning _ _ _ _ _ _ D) as (Hin & E1 & E2 & _).
    destruct D as (_ & _ & _ & M). simpl in M. destruct Hin as [<-|[]]. exists vals. auto.
  - exfalso. apply (select_in_complete [p] host req false p sg); [|exact E].
    split; [left; reflexivity|]. split; [exact Hp|]. split; [discriminate|exact HM].
Qed.

(* ------------------------------------------------------------------ *)
(* registering one route in the empty router                             *)
(* ------------------------------------------------------------------ *)
Lemma Rel_empty : Rel empty_txn [].
Proof. exact (proj1 (proj2 SRel_init)). Qed.

Lemma insert_empty m ri : valid_rinfo ri ->
  exists t', insert empty_txn m ri = ROk t' /\ WF_txn t' /\
             Rel t' [((m, rpat (ri_route ri)), rid (ri_route ri))].
Proof.
  intros Hv. pose proof (insert_refines empty_txn [] m ri WF_empty Rel_empty Hv) as H.
  cbn [m_handle negb mfind conflicts_of filter map app] in H.
  destruct (insert empty_txn m ri) as [t'| | |]; try contradiction. exists t'. auto.
Qed.

Lemma reg_single m p id : reg_patterns [((m, p), id)] m = [p].
Proof. unfold reg_patterns. simpl. rewrite bytes_eqb_refl. reflexivity. Qed.

(* ------------------------------------------------------------------ *)
(* C10 "routable": a valid path-only pattern, registered alone, is reached by every valid
   substitution of its wildcards                                        *)
(* ------------------------------------------------------------------ *)
Theorem single_route_thm m ri sg host :
  let p := rpat (ri_route ri) in
  let req := subst (tokenize p) sg in
  valid_rinfo ri -> is_path_pattern p = true -> sigma_ok (tokenize p) sg ->
  okpath req = true \/ nocatch (tokenize p) = true ->
  exists t', insert empty_txn m ri = ROk t' /\
    forall fuel, e2e_fuel req (t_roots t') m <= fuel ->
    exists ps, direct_obs (roots_lookup fuel (t_roots t') m host req false [] []) = Some (p, ps) /\
               map fst ps = wildcard_names (tokenize p) /\
               subst (tokenize p) (map snd ps) = req /\
               (no_mid_catch (tokenize p) = true -> map snd ps = sg).
Proof.
  intros p req Hv Hp Hsg Hside. destruct (insert_empty m ri Hv) as (t' & Hi & Hwf & Hrel). fold p in Hrel.
  exists t'. split; [exact Hi|]. intros fuel Hfuel.
  pose proof (valid_closed p (proj1 Hv)) as Hcl.
  assert (Matches (tokenize p) req 0 sg) as HM.
  { apply sigma_matches; [exact (proj2 (valid_render p Hcl))|apply valid_path_follow; [exact (proj1 Hv)|exact Hp]|exact Hsg]. }
  destruct (spec_single p host req sg Hp HM) as (vals & Hs & HMv & E1 & E2).
  assert (forall q, In q (method_patterns (t_roots t') m) -> q = p) as Honly.
  { intros q Hq. apply (Rel_patterns _ _ m Hwf Hrel) in Hq. rewrite reg_single in Hq. destruct Hq as [<-|[]]. reflexivity. }
  exists (name_values p vals). split.
  - rewrite (WF_M1_eq_Spec t' m host req fuel Hwf).
    + rewrite (Rel_spec_lookup t' _ m host req Hwf Hrel), reg_single. exact Hs.
    + intros q Hq. rewrite (Honly q Hq). exact Hp.
    + destruct Hside as [H|H]; [left; exact H|right]. apply WF_plain_method; [exact Hwf|].
      intros q Hq. rewrite (Honly q Hq). exact H.
    + exact Hfuel.
  - split; [exact E1|]. rewrite E2. split; [eapply Matches_subst; eauto|].
    intros Hn. eapply Matches_unique; eauto.
Qed.

(* the same through the history interface: one Handle on a fresh router *)
Theorem single_route_history_thm o sg host :
  let p := h_pat o in
  let req := subst (tokenize p) sg in
  h_kind o = KHandle -> valid_method_handle (h_method o) = true -> h_valid o = true -> hop_ok o ->
  is_path_pattern p = true -> sigma_ok (tokenize p) sg ->
  okpath req = true \/ nocatch (tokenize p) = true ->
  forall fuel, e2e_fuel req (t_roots (final_txn [o])) (h_method o) <= fuel ->
  exists ps, direct_obs (roots_lookup fuel (t_roots (final_txn [o])) (h_method o) host req false [] []) = Some (p, ps) /\
             map fst ps = wildcard_names (tokenize p) /\
             subst (tokenize p) (map snd ps) = req /\
             (no_mid_catch (tokenize p) = true -> map snd ps = sg).
Proof.
  intros p req Hk Hm Hval Hok Hp Hsg Hside.
  destruct (single_route_thm (h_method o) (hop_ri o) sg host (Hok Hval) Hp Hsg Hside) as (t' & Hi & H).
  assert (final_txn [o] = t') as ->; [|exact H].
  unfold final_txn, hrun_state. simpl. unfold hstep. rewrite Hk, Hm, Hval. simpl.
  unfold hop_ri in Hi. change (visible init_hstate) with empty_txn. rewrite Hi. reflexivity.
Qed.
