(* TsrEquiv — C08, part 1: M2t = the structural DFS matcher M2 extended with the trailing-slash
   ("tsr") candidate, and M1 = M2t (lbp returns exactly M2t's direct match, or M2t's FIRST tsr
   candidate with its parameter snapshot, or nothing).
   Owner: proof agent p-tsr.  Reuses the single-step lemmas of StaticEquiv / StaticEquiv2. *)
From FoxBase Require Import Bytes.
From FoxRoute Require Import Node Lookup Spec SpecFacts Tree Corr StaticEquiv StaticEquiv2.
Open Scope char_scope.

(* ------------------------------------------------------------------ *)
(* M2t                                                                  *)
(* ------------------------------------------------------------------ *)
Definition tcand := option (node * list kv).
(* TD = direct match;  TN c = no direct match, c = first trailing-slash candidate met *)
Inductive tres := TD (l : node) (kvs : list kv) | TN (c : tcand).

Definition cor (a b : tcand) : tcand := match a with Some _ => a | None => b end.
Definition tcons (c : tcand) (r : tres) : tres := match r with TD _ _ => r | TN c' => TN (cor c c') end.
Definition talt (a b : tres) : tres := match a with TD _ _ => a | TN c => tcons c b end.
Definition cwith (vals : list kv) (c : tcand) : tcand :=
  match c with Some (l, v) => Some (l, vals ++ v) | None => None end.
Definition twith (vals : list kv) (r : tres) : tres :=
  match r with TD l v => TD l (vals ++ v) | TN c => TN (cwith vals c) end.

Definition one_slash (kt : list token) : bool :=
  match kt with [TStatic c] => Ascii.eqb c "/" | _ => false end.
Definition opt_leaf (p : option node) : bool := match p with Some x => is_leaf x | None => false end.
Definition par_cand (par : option node) (done : list token) : tcand :=
  match par with Some p => if is_leaf p && one_slash done then Some (p, []) else None | None => None end.

(* sites 1-2, the request path ends inside the key (done = tokens matched, kt = tokens left):
   remove-slash towards the parent leaf when exactly "/" was matched,
   add-slash towards this leaf when exactly "/" is left *)
Definition exh (sl : bool) (par : option node) (self : node) (done kt : list token) : tcand :=
  if sl then par_cand par done
  else if is_leaf self && one_slash kt then Some (self, []) else None.

(* the catch-all loop, site 5: the first candidate of the sub-lookups is kept *)
Fixpoint scant (fuel : nat) (sub fin : bytes -> tres) (nm : bytes) (v q : bytes) : tres :=
  match fuel with
  | O => TN None
  | S f =>
    match index_byte q "/" with
    | Some (S d) =>
        let sg := firstn (S d) q in
        let q' := skipn (S d) q in
        match sub q' with
        | TD l kvs => TD l ((nm, v ++ sg) :: kvs)
        | TN c => tcons (cwith [(nm, v ++ sg)] c) (scant f sub fin nm (v ++ sg ++ ["/"]) (skipn 1 q'))
        end
    | _ => fin (v ++ q)
    end
  end.

Section KMT.
  Variable sl : bool.                 (* the request path ends with '/' *)
  Variable self : node.
  Variable K : option node -> list token -> bytes -> tres.
  Variable sub0 : option (bytes -> tres).
  Fixpoint kmt (par : option node) (done kt : list token) (p : bytes) : tres :=
    match kt with
    | [] => K par done p
    | t :: kt' =>
      match p with
      | [] => TN (exh sl par self done kt)
      | c :: p' =>
        match t with
        | TStatic d => if Ascii.eqb d c && sbyte c then kmt par (done ++ [t]) kt' p' else TN None
        | TParam nm =>
            match seg is_slash p with
            | [] => TN None
            | v => twith [(nm, v)] (kmt par (done ++ [t]) kt' (skipn (List.length v) p))
            end
        | TCatch nm =>
            match kt' with
            | [] => match sub0 with
                    | None => TD self [(nm, p)]
                    | Some sb => scant (S (List.length p)) sb (fun v => TD self [(nm, v)]) nm [] p
                    end
            | _ => scant (S (List.length p)) (fun q => kmt None [] kt' q)
                     (fun v => if starts_with "/" v then TN None
                               else TN (cwith [(nm, v)] (exh sl par self (done ++ [t]) kt')))
                     nm [] p
            end
        end
      end
    end.
End KMT.

Definition is_none {A} (o : option A) : bool := match o with None => true | Some _ => false end.
Definition is_one_slash (p : bytes) : bool := match p with [c] => Ascii.eqb c "/" | _ => false end.

(* add-slash towards a leaf child whose key is "/" (site 1, second half) *)
Definition child_slash (ch : list node) : tcand :=
  match first_child "/" ch with
  | Some c => if is_leaf c && Nat.eqb (List.length (nkey c)) 1 then Some (c, []) else None
  | None => None
  end.

(* the continuation at the end of a key *)
Definition Kt_gen (sl : bool) (n : node) (child : ascii -> bytes -> tres)
                  (par : option node) (done : list token) (rest : bytes) : tres :=
  match rest with
  | [] => if is_leaf n then TD n []
          else TN (if sl then par_cand par done else child_slash (nchildren n))
  | c :: _ =>
      (* site 4: leaving a fully matched leaf with only "/" left and no static edge for it *)
      tcons (if is_none (first_child c (nchildren n)) && is_leaf n && is_one_slash rest then Some (n, []) else None)
            (talt (child c rest) (talt (child "{" rest) (child "*" rest)))
  end.

Fixpoint m2t (sl : bool) (par : option node) (n : node) (p : bytes) {struct n} : tres :=
  match n with
  | Node k r ch =>
    let try := fix go (cc : ascii) (l : list node) (q : bytes) {struct l} : tres :=
                 match l with
                 | [] => TN None
                 | x :: l' => if starts_with cc (nkey x) then m2t sl (Some n) x q else go cc l' q
                 end in
    let sub0 := match ch with c0 :: _ => Some (m2t sl None c0) | [] => None end in
    kmt sl n (Kt_gen sl n (fun cc q => try cc ch q)) sub0 par [] (tokenize k) p
  end.

Definition m2t_child (sl : bool) (n : node) (cc : ascii) (p : bytes) : tres :=
  match first_child cc (nchildren n) with Some x => m2t sl (Some n) x p | None => TN None end.
Definition Kt (sl : bool) (n : node) := Kt_gen sl n (m2t_child sl n).
Definition sub0t (sl : bool) (ch : list node) : option (bytes -> tres) :=
  match ch with c0 :: _ => Some (m2t sl None c0) | [] => None end.

(* ------------------------------------------------------------------ *)
(* unfolding M2t                                                        *)
(* ------------------------------------------------------------------ *)
Lemma scant_ext sub sub' fin fin' nm : (forall q, sub q = sub' q) -> (forall v, fin v = fin' v) ->
  forall fuel v q, scant fuel sub fin nm v q = scant fuel sub' fin' nm v q.
Proof.
  intros Hs Hf. induction fuel as [|f IH]; intros v q; [reflexivity|]. cbn [scant].
  destruct (index_byte q "/") as [[|d]|]; auto. rewrite Hs, IH. reflexivity.
Qed.

Lemma kmt_ext sl self K K' sub0 : (forall par done q, K par done q = K' par done q) ->
  forall kt par done p, kmt sl self K sub0 par done kt p = kmt sl self K' sub0 par done kt p.
Proof.
  intros HK. induction kt as [|t kt IH]; intros par done p; cbn [kmt]; auto.
  destruct p as [|c p']; auto. destruct t as [d|nm|nm].
  - destruct (Ascii.eqb d c && sbyte c); auto.
  - destruct (seg is_slash (c :: p')); auto. rewrite IH. reflexivity.
  - destruct kt as [|t' kt']; auto. apply scant_ext; auto.
Qed.

Lemma m2t_eq sl par k r ch p :
  m2t sl par (Node k r ch) p =
  kmt sl (Node k r ch) (Kt sl (Node k r ch)) (sub0t sl ch) par [] (tokenize k) p.
Proof.
  cbn [m2t]. apply kmt_ext. intros par0 done q. unfold Kt, Kt_gen. destruct q as [|c q']; auto.
  set (n := Node k r ch).
  assert (forall cc l, (fix go (cc : ascii) (l : list node) (q : bytes) {struct l} : tres :=
                        match l with
                        | [] => TN None
                        | x :: l' => if starts_with cc (nkey x) then m2t sl (Some n) x q else go cc l' q
                        end) cc l (c :: q') =
                     match first_child cc l with Some x => m2t sl (Some n) x (c :: q') | None => TN None end) as H.
  { intros cc l. induction l as [|x l IH]; simpl; auto. destruct (starts_with cc (nkey x)); auto. }
  unfold m2t_child. cbn [nchildren]. rewrite !H. reflexivity.
Qed.

Lemma m2t_kmt sl par x p :
  m2t sl par x p = kmt sl x (Kt sl x) (sub0t sl (nchildren x)) par [] (tokenize (nkey x)) p.
Proof. destruct x as [k r ch]. apply m2t_eq. Qed.

(* ------------------------------------------------------------------ *)
(* the trailing-slash registers of a state                              *)
(* ------------------------------------------------------------------ *)
Definition regs := (bool * option node * list kv)%type.
Definition rg (s : st) : regs := (tsr s, tn s, tps s).

(* r' = r after a run that met candidate c first (parameter values relative to base) *)
Definition upd (lazy : bool) (base : list kv) (r : regs) (c : tcand) (r' : regs) : Prop :=
  match r with
  | (true, _, _) => r' = r
  | (false, _, tp) =>
      match c with
      | None => r' = r
      | Some (l, vals) => exists l', r' = (true, Some l', if lazy then tp else base ++ vals) /\ nroute l' = nroute l
      end
  end.

Lemma upd_none lazy base r : upd lazy base r None r.
Proof. destruct r as [[[] n] tp]; reflexivity. Qed.

Lemma upd_cor lazy base r c1 r1 c2 r2 :
  upd lazy base r c1 r1 -> upd lazy base r1 c2 r2 -> upd lazy base r (cor c1 c2) r2.
Proof.
  destruct r as [[[] n] tp]; simpl.
  - intros ->. simpl. auto.
  - destruct c1 as [[l1 v1]|]; simpl.
    + intros (l' & -> & Hl). simpl. intros ->. exists l'. auto.
    + intros ->. simpl. auto.
Qed.

Lemma upd_cwith lazy base v0 r c r' :
  upd lazy (addp lazy base v0) r c r' -> upd lazy base r (cwith v0 c) r'.
Proof.
  destruct r as [[[] n] tp]; simpl; auto. destruct c as [[l v]|]; simpl; auto.
  intros (l' & -> & Hl). exists l'. split; auto. destruct lazy; simpl; auto. rewrite app_assoc. reflexivity.
Qed.

(* candidates up to the identity of the node (the matcher may hold the truncated copy) *)
Definition ceq (a b : tcand) : Prop :=
  match a, b with
  | None, None => True
  | Some (l, v), Some (l', v') => nroute l = nroute l' /\ v = v'
  | _, _ => False
  end.
Lemma ceq_refl a : ceq a a.
Proof. destruct a as [[l v]|]; simpl; auto. Qed.
Lemma upd_ceq lazy base r c c' r' : ceq c c' -> upd lazy base r c r' -> upd lazy base r c' r'.
Proof.
  destruct r as [[[] n] tp]; simpl; auto.
  destruct c as [[l v]|], c' as [[l2 v2]|]; simpl; try tauto.
  intros [Hl ->] (l' & -> & Hl'). exists l'. split; auto. congruence.
Qed.

(* ------------------------------------------------------------------ *)
(* the code after the Walk loop, precisely                              *)
(* ------------------------------------------------------------------ *)
Definition after_st (lazy : bool) (path : bytes) (s0 : st) : st :=
  let s := zero_cnt s0 in
  let n := List.length path in
  let key := nkey (cur s) in
  if negb (is_leaf (cur s)) then
    if negb (tsr s) && has_suffix_slash path && par_is_leaf s && Nat.eqb (cm s) n
       && Nat.eqb (cmn s) 1 && starts_with "/" key
    then match par s with Some p => set_tsr lazy s p (ps s) | None => s end
    else if negb (tsr s) && Nat.eqb (cm s) n && Nat.eqb (cmn s) (List.length key) && negb (has_suffix_slash path)
    then match find_child (cur s) "/" with
         | Some idx =>
           match nth_error (nchildren (cur s)) idx with
           | Some c => if is_leaf c && Nat.eqb (List.length (nkey c)) 1 then set_tsr lazy s c (ps s) else s
           | None => s
           end
         | None => s
         end
    else s
  else if Nat.eqb (cm s) n && Nat.ltb (cmn s) (List.length key) then
    if tsr s then s
    else if has_suffix_slash path then
      if par_is_leaf s && bytes_eqb (firstn (cmn s) key) ["/"]
      then match par s with Some p => set_tsr lazy s p (ps s) | None => s end
      else s
    else
      if bytes_eqb (skipn (cmn s) key) ["/"] then set_tsr lazy s (cur s) (ps s) else s
  else if Nat.ltb (cm s) n && Nat.eqb (cmn s) (List.length key) then
    if negb (tsr s) && bytes_eqb (skipn (cm s) path) ["/"] then set_tsr lazy s (cur s) (ps s) else s
  else s.

Lemma after_eq f path lazy s :
  is_leaf (cur s) && Nat.eqb (cm s) (List.length path) && Nat.eqb (cmn s) (List.length (nkey (cur s))) = false ->
  lbp (S f) path lazy PAfter s = lbp f path lazy PBack (after_st lazy path s).
Proof.
  intros Hno. destruct s as [cu pa cm0 cmn0 pc pk sk ps0 ts tn0 tp]. simpl in Hno.
  unfold after_st, zero_cnt. cbn [lbp cur par cm cmn pcnt pkc sks ps tsr tn tps].
  destruct (is_leaf cu) eqn:El; cbn [negb]; [|reflexivity].
  cbn [andb] in Hno. rewrite Hno.
  destruct (Nat.eqb cm0 (List.length path) && Nat.ltb cmn0 (List.length (nkey cu))); [reflexivity|].
  destruct (Nat.ltb cm0 (List.length path) && Nat.eqb cmn0 (List.length (nkey cu))); reflexivity.
Qed.

(* what after_st records, as a candidate *)
Definition after_cand (path : bytes) (s : st) : tcand :=
  let n := List.length path in
  let key := nkey (cur s) in
  let sl := has_suffix_slash path in
  if negb (is_leaf (cur s)) then
    if sl && par_is_leaf s && Nat.eqb (cm s) n && Nat.eqb (cmn s) 1 && starts_with "/" key
    then match par s with Some p => Some (p, []) | None => None end
    else if Nat.eqb (cm s) n && Nat.eqb (cmn s) (List.length key) && negb sl
    then match first_child "/" (nchildren (cur s)) with
         | Some c => if is_leaf c && Nat.eqb (List.length (nkey c)) 1 then Some (c, []) else None
         | None => None
         end
    else None
  else if Nat.eqb (cm s) n && Nat.ltb (cmn s) (List.length key) then
    if sl then
      if par_is_leaf s && bytes_eqb (firstn (cmn s) key) ["/"]
      then match par s with Some p => Some (p, []) | None => None end
      else None
    else if bytes_eqb (skipn (cmn s) key) ["/"] then Some (cur s, []) else None
  else if Nat.ltb (cm s) n && Nat.eqb (cmn s) (List.length key) then
    if bytes_eqb (skipn (cm s) path) ["/"] then Some (cur s, []) else None
  else None.

Lemma upd_set lazy base n tp l : upd lazy base (false, n, tp) (Some (l, [])) (true, Some l, if lazy then tp else base).
Proof. simpl. exists l. rewrite app_nil_r. auto. Qed.

Lemma after_st_core lazy path s :
  let s' := after_st lazy path s in
  cur s' = cur s /\ par s' = par s /\ cm s' = cm s /\ cmn s' = cmn s /\ sks s' = sks s /\ ps s' = ps s /\
  pcnt s' = 0 /\ pkc s' = 0.
Proof.
  destruct s as [cu pa cm0 cmn0 pc pk sk ps0 ts tn0 tp]. unfold after_st, zero_cnt, par_is_leaf.
  cbn [cur par cm cmn pcnt pkc sks ps tsr tn tps].
  repeat match goal with
  | |- context [match ?x with _ => _ end] => destruct x
  end; cbn; repeat split.
Qed.

Lemma after_st_upd lazy path s :
  upd lazy (ps s) (rg s) (after_cand path s) (rg (after_st lazy path s)).
Proof.
  destruct s as [cu pa cm0 cmn0 pc pk sk ps0 ts tn0 tp]. unfold after_st, after_cand, zero_cnt, par_is_leaf, rg.
  cbn [cur par cm cmn pcnt pkc sks ps tsr tn tps].
  destruct ts; cbn [negb andb].
  - repeat match goal with
    | |- context [match ?x with _ => _ end] => destruct x
    end; reflexivity.
  - pose proof (find_child_first cu "/") as Hfc.
    destruct (is_leaf cu); cbn [negb].
    + destruct (Nat.eqb cm0 (List.length path) && Nat.ltb cmn0 (List.length (nkey cu))).
      * destruct (has_suffix_slash path).
        -- destruct pa as [p|]; cbn [andb].
           ++ destruct (is_leaf p && bytes_eqb (firstn cmn0 (nkey cu)) ["/"]); [apply upd_set|reflexivity].
           ++ reflexivity.
        -- destruct (bytes_eqb (skipn cmn0 (nkey cu)) ["/"]); [apply upd_set|reflexivity].
      * destruct (Nat.ltb cm0 (List.length path) && Nat.eqb cmn0 (List.length (nkey cu))); [|reflexivity].
        destruct (bytes_eqb (skipn cm0 path) ["/"]); [apply upd_set|reflexivity].
    + destruct (has_suffix_slash path) eqn:Esl; cbn [negb andb].
      * rewrite !andb_false_r.
        destruct pa as [p|]; cbn [andb].
        -- destruct (is_leaf p && Nat.eqb cm0 (List.length path) && Nat.eqb cmn0 1 && starts_with "/" (nkey cu));
             [apply upd_set|reflexivity].
        -- reflexivity.
      * rewrite !andb_true_r.
        destruct (Nat.eqb cm0 (List.length path) && Nat.eqb cmn0 (List.length (nkey cu))); [|reflexivity].
        destruct (find_child cu "/") as [j|].
        -- destruct Hfc as [Hj Hn]. cbn [nchildren] in *. rewrite Hj.
           destruct (first_child "/" (nchildren cu)) as [c|]; [|congruence].
           destruct (is_leaf c && Nat.eqb (List.length (nkey c)) 1); [apply upd_set|reflexivity].
        -- rewrite Hfc. reflexivity.
Qed.

(* ------------------------------------------------------------------ *)
(* tokens and the byte tests of the trailing-slash sites                *)
(* ------------------------------------------------------------------ *)
Lemma render_len2 t1 t2 l : 2 <= List.length (render (t1 :: t2 :: l)).
Proof.
  rewrite !render_cons_len. pose proof (render_tok_len_pos t1). pose proof (render_tok_len_pos t2). lia.
Qed.

Lemma render_one_slash l : bytes_eqb (render l) ["/"] = one_slash l.
Proof.
  destruct l as [|t [|t2 l]].
  - reflexivity.
  - destruct t as [c|nm|nm]; simpl.
    + rewrite andb_true_r. reflexivity.
    + destruct nm; reflexivity.
    + reflexivity.
  - transitivity false; [|destruct t; reflexivity].
    destruct (bytes_eqb (render (t :: t2 :: l)) ["/"]) eqn:E; auto. apply bytes_eqb_eq in E.
    pose proof (render_len2 t t2 l) as H. rewrite E in H. simpl in H. lia.
Qed.

Lemma len1_slash (a b : bytes) : Nat.eqb (List.length a) 1 && starts_with "/" (a ++ b) = bytes_eqb a ["/"].
Proof.
  destruct a as [|x [|y a]]; simpl; auto.
  - rewrite andb_true_r. reflexivity.
  - rewrite andb_false_r. reflexivity.
Qed.

Lemma firstn_len_app {A} (a b : list A) : firstn (List.length a) (a ++ b) = a.
Proof. rewrite firstn_app, Nat.sub_diag, firstn_all. simpl. apply app_nil_r. Qed.
Lemma skipn_len_app {A} (a b : list A) : skipn (List.length a) (a ++ b) = b.
Proof. rewrite skipn_app, skipn_all, Nat.sub_diag. reflexivity. Qed.

Lemma has_suffix_slash_skipn (path : bytes) k : k < List.length path ->
  has_suffix_slash (skipn k path) = has_suffix_slash path.
Proof.
  intros Hk. unfold has_suffix_slash. rewrite <- (firstn_skipn k path) at 2. rewrite rev_app_distr.
  destruct (rev (skipn k path)) as [|c r] eqn:E; [|reflexivity].
  apply (f_equal (@List.length ascii)) in E. rewrite rev_length, skipn_length in E. simpl in E. lia.
Qed.

Lemma is_one_slash_suffix (path : bytes) k : is_one_slash (skipn k path) = true -> has_suffix_slash path = true.
Proof.
  intros H. destruct (skipn k path) as [|c [|c2 r]] eqn:E; try discriminate. simpl in H. apply Ascii.eqb_eq in H. subst c.
  assert (k < List.length path) as Hk by (apply skipn_cons_nth in E; tauto).
  rewrite <- (has_suffix_slash_skipn path k Hk), E. reflexivity.
Qed.

Definition par_rel (a b : option node) : Prop :=
  match a, b with
  | Some x, Some y => nroute x = nroute y
  | None, None => True
  | _, _ => False
  end.

Lemma is_leaf_route x y : nroute x = nroute y -> is_leaf x = is_leaf y.
Proof. unfold is_leaf. intros ->. reflexivity. Qed.

Lemma par_cand_rel pa pm done (b : bool) : par_rel pa pm -> b = one_slash done ->
  ceq (if match pa with Some p => is_leaf p | None => false end && b
       then match pa with Some p => Some (p, []) | None => None end else None) (par_cand pm done).
Proof.
  intros Hr ->. unfold par_cand. destruct pa as [x|], pm as [y|]; simpl in Hr; try tauto.
  rewrite (is_leaf_route x y Hr). destruct (is_leaf y && one_slash done); simpl; auto.
Qed.

(* (A) the walk stopped inside the key before the end of the path: nothing is recorded *)
Lemma after_cand_mid path s : cm s < List.length path -> cmn s < List.length (nkey (cur s)) ->
  after_cand path s = None.
Proof.
  intros H1 H2. unfold after_cand.
  replace (Nat.eqb (cm s) (List.length path)) with false by (symmetry; apply Nat.eqb_neq; lia).
  replace (Nat.eqb (cmn s) (List.length (nkey (cur s)))) with false by (symmetry; apply Nat.eqb_neq; lia).
  rewrite !andb_false_r. cbn [andb]. destruct (negb (is_leaf (cur s))); [|reflexivity].
  destruct (has_suffix_slash path && par_is_leaf s); reflexivity.
Qed.

(* (F) the path ends inside the key *)
Lemma after_cand_exh path s sl pm n done kt :
  cm s = List.length path -> nkey (cur s) = render (done ++ kt) -> kt <> [] ->
  cmn s = List.length (render done) -> par_rel (par s) pm -> nroute (cur s) = nroute n ->
  has_suffix_slash path = sl ->
  ceq (after_cand path s) (exh sl pm n done kt).
Proof.
  intros Hcm Hk Hne Hcmn Hpar Hrt Hsl. unfold after_cand, exh. rewrite Hsl, Hcm, Nat.eqb_refl.
  assert (Hlt : cmn s < List.length (nkey (cur s))).
  { rewrite Hk, render_app, app_length, Hcmn. destruct kt as [|t kt]; [congruence|].
    rewrite render_cons_len. pose proof (render_tok_len_pos t). lia. }
  replace (Nat.eqb (cmn s) (List.length (nkey (cur s)))) with false by (symmetry; apply Nat.eqb_neq; lia).
  replace (Nat.ltb (cmn s) (List.length (nkey (cur s)))) with true by (symmetry; apply Nat.ltb_lt; lia).
  cbn [andb]. rewrite (is_leaf_route _ _ Hrt).
  assert (H1 : Nat.eqb (cmn s) 1 && starts_with "/" (nkey (cur s)) = one_slash done)
    by (rewrite Hk, render_app, Hcmn, len1_slash; apply render_one_slash).
  assert (H2 : bytes_eqb (firstn (cmn s) (nkey (cur s))) ["/"] = one_slash done)
    by (rewrite Hk, render_app, Hcmn, firstn_len_app; apply render_one_slash).
  assert (H3 : bytes_eqb (skipn (cmn s) (nkey (cur s))) ["/"] = one_slash kt)
    by (rewrite Hk, render_app, Hcmn, skipn_len_app; apply render_one_slash).
  unfold par_is_leaf.
  destruct (is_leaf n); cbn [negb].
  - destruct sl.
    + rewrite H2. apply par_cand_rel; auto.
    + rewrite H3. destruct (one_slash kt); simpl; auto.
  - destruct sl; cbn [andb negb].
    + rewrite andb_true_r, <- andb_assoc, H1. apply par_cand_rel; auto.
    + exact I.
Qed.

(* (E) the path ends with the key, on a node without route *)
Lemma after_cand_end path s sl pm n done :
  cm s = List.length path -> nkey (cur s) = render done -> cmn s = List.length (nkey (cur s)) ->
  is_leaf (cur s) = false -> par_rel (par s) pm -> nchildren (cur s) = nchildren n ->
  has_suffix_slash path = sl ->
  ceq (after_cand path s) (if sl then par_cand pm done else child_slash (nchildren n)).
Proof.
  intros Hcm Hk Hcmn Hl Hpar Hch Hsl. unfold after_cand. rewrite Hsl, Hcm, Hl, Hcmn, !Nat.eqb_refl. cbn [negb andb].
  assert (H1 : Nat.eqb (List.length (nkey (cur s))) 1 && starts_with "/" (nkey (cur s)) = one_slash done).
  { rewrite <- (app_nil_r (nkey (cur s))) at 2. rewrite len1_slash, Hk. apply render_one_slash. }
  unfold par_is_leaf. destruct sl; cbn [andb negb].
  - rewrite andb_true_r, <- andb_assoc, H1. apply par_cand_rel; auto.
  - rewrite Hch. unfold child_slash. apply ceq_refl.
Qed.

(* (D) the key is consumed, the path continues and no child is left to try *)
Lemma after_cand_sel path s n :
  cm s < List.length path -> cmn s = List.length (nkey (cur s)) -> nroute (cur s) = nroute n ->
  ceq (after_cand path s) (if is_leaf n && is_one_slash (skipn (cm s) path) then Some (n, []) else None).
Proof.
  intros Hcm Hcmn Hrt. unfold after_cand. rewrite Hcmn, Nat.eqb_refl, Nat.ltb_irrefl.
  replace (Nat.eqb (cm s) (List.length path)) with false by (symmetry; apply Nat.eqb_neq; lia).
  replace (Nat.ltb (cm s) (List.length path)) with true by (symmetry; apply Nat.ltb_lt; lia).
  rewrite (is_leaf_route _ _ Hrt). cbn [andb]. rewrite !andb_false_r. cbn [andb].
  assert (H : bytes_eqb (skipn (cm s) path) ["/"] = is_one_slash (skipn (cm s) path)).
  { destruct (skipn (cm s) path) as [|c [|c2 r]]; simpl; auto; [apply andb_true_r|apply andb_false_r]. }
  rewrite H. destruct (is_leaf n); cbn [negb andb].
  - destruct (is_one_slash (skipn (cm s) path)); simpl; auto.
  - destruct (has_suffix_slash path && par_is_leaf s); exact I.
Qed.

(* ------------------------------------------------------------------ *)
(* child selection, precisely (site 4)                                  *)
(* ------------------------------------------------------------------ *)
Definition sel_tsr (lazy : bool) (path : bytes) (s : st) (c : ascii) : st :=
  if negb (tsr s) && is_leaf (cur s) && Nat.eqb (cmn s) (List.length (nkey (cur s)))
     && Nat.eqb (List.length path - cm s) 1 && Ascii.eqb c "/"
  then set_tsr lazy s (cur s) (ps s) else s.

Definition sel_st (lazy : bool) (path : bytes) (s : st) (c : ascii) : st :=
  if is_none (first_child c (nchildren (cur s))) then sel_tsr lazy path s c else s.

Lemma sel_st_core lazy path s c : same_core s (sel_st lazy path s c) /\ pcnt (sel_st lazy path s c) = pcnt s /\
  pkc (sel_st lazy path s c) = pkc s.
Proof.
  unfold sel_st, sel_tsr. destruct (is_none _); [|repeat split].
  match goal with |- context [if ?b then _ else _] => destruct b end; repeat split.
Qed.

Lemma sel_st_upd lazy path s c n rest' :
  skipn (cm s) path = c :: rest' -> cmn s = List.length (nkey (cur s)) -> nroute (cur s) = nroute n ->
  upd lazy (ps s) (rg s)
      (if is_none (first_child c (nchildren (cur s))) && is_leaf n && is_one_slash (c :: rest') then Some (n, []) else None)
      (rg (sel_st lazy path s c)).
Proof.
  intros Hsk Hcmn Hrt. unfold sel_st, sel_tsr.
  destruct (is_none (first_child c (nchildren (cur s)))); cbn [andb]; [|apply upd_none].
  rewrite Hcmn, Nat.eqb_refl, (is_leaf_route _ _ Hrt).
  assert (Hlen : List.length path - cm s = List.length (c :: rest')) by (rewrite <- Hsk; symmetry; apply skipn_length).
  assert (H : Nat.eqb (List.length path - cm s) 1 && Ascii.eqb c "/" = is_one_slash (c :: rest')).
  { rewrite Hlen. destruct rest' as [|c2 r]; simpl; auto. }
  rewrite andb_true_r, <- !andb_assoc, H.
  unfold rg. destruct (tsr s) eqn:Ets; cbn [negb andb].
  - simpl. rewrite ?Ets. reflexivity.
  - destruct (is_leaf n && is_one_slash (c :: rest')).
    + simpl. rewrite ?Ets. exists (cur s). rewrite app_nil_r. auto.
    + simpl. rewrite ?Ets. reflexivity.
Qed.

Lemma select_alts_t f path lazy s c :
  cm s < List.length path -> nth_error path (cm s) = Some c ->
  NoDup (heads (nchildren (cur s))) ->
  exists es, map snd es = alts_nodes c (nchildren (cur s)) /\
    (forall e, In e es -> nth_error (nchildren (cur s)) (fst e) = Some (snd e)) /\
    lbp (S f) path lazy PSelect s =
    match es with
    | [] => lbp f path lazy PAfter (sel_st lazy path s c)
    | e1 :: rest => lbp f path lazy PWalk (descend (push_all (sel_st lazy path s c) (map fst rest)) (snd e1))
    end.
Proof.
  intros Hlt Hc Hnd. cbn [lbp]. apply Nat.ltb_lt in Hlt. rewrite Hlt, Hc.
  pose proof (find_child_first (cur s) c) as Hfc.
  pose proof (index_first "{" (cur s) Hnd) as Hpc.
  pose proof (index_first "*" (cur s) Hnd) as Hwc.
  change (last_index_from 0 "{" (nchildren (cur s)) None) with (param_child_index (cur s)) in Hpc.
  change (last_index_from 0 "*" (nchildren (cur s)) None) with (wildcard_child_index (cur s)) in Hwc.
  unfold alts_nodes, sel_st.
  destruct (find_child (cur s) c) as [i|].
  - destruct Hfc as [Hfi Hfn]. destruct (first_child c (nchildren (cur s))) as [x|] eqn:Ex; [|congruence].
    cbn [is_none]. rewrite Hfi.
    destruct (param_child_index (cur s)) as [pi|]; destruct (wildcard_child_index (cur s)) as [wi|].
    + destruct Hpc as [Hp1 Hp2]. destruct Hwc as [Hw1 Hw2].
      destruct (first_child "{" (nchildren (cur s))) as [y|] eqn:Ey; [|congruence].
      destruct (first_child "*" (nchildren (cur s))) as [w|] eqn:Ew; [|congruence].
      exists [(i, x); (pi, y); (wi, w)]. simpl. repeat split; auto.
      intros e [<-|[<-|[<-|[]]]]; auto.
    + destruct Hpc as [Hp1 Hp2]. rewrite Hwc.
      destruct (first_child "{" (nchildren (cur s))) as [y|] eqn:Ey; [|congruence].
      exists [(i, x); (pi, y)]. simpl. repeat split; auto.
      intros e [<-|[<-|[]]]; auto.
    + destruct Hwc as [Hw1 Hw2]. rewrite Hpc.
      destruct (first_child "*" (nchildren (cur s))) as [w|] eqn:Ew; [|congruence].
      exists [(i, x); (wi, w)]. simpl. repeat split; auto.
      intros e [<-|[<-|[]]]; auto.
    + rewrite Hpc, Hwc. exists [(i, x)]. simpl. repeat split; auto.
      intros e [<-|[]]; auto.
  - rewrite Hfc. cbn [is_none].
    change (if negb (tsr s) && is_leaf (cur s) && Nat.eqb (cmn s) (List.length (nkey (cur s)))
               && Nat.eqb (List.length path - cm s) 1 && Ascii.eqb c "/"
            then set_tsr lazy s (cur s) (ps s) else s) with (sel_tsr lazy path s c).
    set (s1 := sel_tsr lazy path s c).
    assert (Hcur1 : cur s1 = cur s).
    { unfold s1, sel_tsr. match goal with |- context [if ?b then _ else _] => destruct b end; reflexivity. }
    rewrite Hcur1.
    destruct (param_child_index (cur s)) as [pi|]; destruct (wildcard_child_index (cur s)) as [wi|].
    + destruct Hpc as [Hp1 Hp2]. destruct Hwc as [Hw1 Hw2].
      destruct (first_child "{" (nchildren (cur s))) as [y|] eqn:Ey; [|congruence].
      destruct (first_child "*" (nchildren (cur s))) as [w|] eqn:Ew; [|congruence].
      rewrite Hp1. exists [(pi, y); (wi, w)]. simpl. repeat split; auto.
      intros e [<-|[<-|[]]]; auto.
    + destruct Hpc as [Hp1 Hp2]. rewrite Hwc.
      destruct (first_child "{" (nchildren (cur s))) as [y|] eqn:Ey; [|congruence].
      rewrite Hp1. exists [(pi, y)]. simpl. repeat split; auto.
      intros e [<-|[]]; auto.
    + destruct Hwc as [Hw1 Hw2]. rewrite Hpc.
      destruct (first_child "*" (nchildren (cur s))) as [w|] eqn:Ew; [|congruence].
      rewrite Hw1. exists [(wi, w)]. simpl. repeat split; auto.
      intros e [<-|[]]; auto.
    + rewrite Hpc, Hwc. exists []. simpl. repeat split; auto. intros e [].
Qed.

(* ------------------------------------------------------------------ *)
(* the catch-all loop, precisely (site 5)                               *)
(* ------------------------------------------------------------------ *)
Lemma pcatch_none f path lazy ino start s prm d b sps stps :
  nth_error (nparams (cur s)) (pkc s) = Some prm ->
  index_byte (skipn (cm s) path) "/" = Some (S d) ->
  lbp f (skipn (cm s + S d) path) false PWalk (init_st ino [] []) = Found None b sps stps ->
  lbp (S f) path lazy (PCatch ino start) s = lbp f path lazy (PCatch ino start) (with_cm s (S (cm s + S d))).
Proof. intros Hprm Hidx Hsub. cbn [lbp]. rewrite Hprm, Hidx, Hsub. reflexivity. Qed.

Definition prop_st (lazy : bool) (s : st) (sn : node) (tp : list kv) : st :=
  if tsr s then s else set_tsr lazy s sn tp.

Lemma pcatch_tsr f path lazy ino start s prm d sn sps stps :
  nth_error (nparams (cur s)) (pkc s) = Some prm ->
  index_byte (skipn (cm s) path) "/" = Some (S d) ->
  lbp f (skipn (cm s + S d) path) false PWalk (init_st ino [] []) = Found (Some sn) true sps stps ->
  lbp (S f) path lazy (PCatch ino start) s =
  lbp f path lazy (PCatch ino start)
    (with_cm (prop_st lazy s sn (ps s ++ [(pkey prm, slice path start (cm s + S d))] ++ stps)) (S (cm s + S d))).
Proof. intros Hprm Hidx Hsub. cbn [lbp]. rewrite Hprm, Hidx, Hsub. reflexivity. Qed.

Lemma prop_st_upd lazy s sn l v stps : nroute sn = nroute l ->
  upd lazy (ps s) (rg s) (Some (l, v :: stps)) (rg (prop_st lazy s sn (ps s ++ [v] ++ stps))).
Proof.
  intros Hr. unfold prop_st, rg. destruct (tsr s) eqn:E; simpl; rewrite ?E; auto.
  exists sn. auto.
Qed.

Lemma pcatch_fin_slash f path lazy ino start s prm e :
  nth_error (nparams (cur s)) (pkc s) = Some prm -> pend prm = Some e ->
  nth_error path start = Some "/" ->
  (index_byte (skipn (cm s) path) "/" = Some 0 \/ index_byte (skipn (cm s) path) "/" = None) ->
  lbp (S f) path lazy (PCatch ino start) s = lbp f path lazy PAfter s.
Proof.
  intros Hprm Hpe Hc Hidx. cbn [lbp]. rewrite Hprm, Hpe, Hc. destruct Hidx as [-> | ->]; reflexivity.
Qed.

Definition fin_st (lazy : bool) (path : bytes) (s : st) (prm : param) (start : nat) : st :=
  {| cur := cur s; par := par s; cm := List.length path; cmn := cmn s; pcnt := pcnt s; pkc := pkc s;
     sks := sks s; ps := if lazy then ps s else ps s ++ [(pkey prm, skipn start path)];
     tsr := tsr s; tn := tn s; tps := tps s |}.

Lemma pcatch_fin_val f path lazy ino start s prm e c0 :
  nth_error (nparams (cur s)) (pkc s) = Some prm -> pend prm = Some e ->
  nth_error path start = Some c0 -> c0 <> "/" ->
  (index_byte (skipn (cm s) path) "/" = Some 0 \/ index_byte (skipn (cm s) path) "/" = None) ->
  lbp (S f) path lazy (PCatch ino start) s = lbp f path lazy PAfter (fin_st lazy path s prm start).
Proof.
  intros Hprm Hpe Hc Hne Hidx. cbn [lbp]. rewrite Hprm, Hpe, Hc.
  destruct (Ascii.eqb_spec c0 "/"); [congruence|]. destruct Hidx as [-> | ->]; reflexivity.
Qed.

(* ------------------------------------------------------------------ *)
(* runs                                                                 *)
(* ------------------------------------------------------------------ *)
Arguments upd : simpl never.

(* the run reaches Backtrack without a direct hit; the registers were updated by candidate c *)
Definition backst (path : bytes) (lazy : bool) (fuel : nat) (ph : phase) (s : st) (cost : nat) (c : tcand) : Prop :=
  exists fuel' s', lbp fuel path lazy ph s = lbp fuel' path lazy PBack s' /\ fuel <= fuel' + cost /\
                   sks s' = sks s /\ extends (ps s) (ps s') /\ pkc s' = 0 /\ upd lazy (ps s) (rg s) c (rg s').

Definition tres_ok (path : bytes) (lazy : bool) (fuel : nat) (ph : phase) (s : st) (cost : nat) (r : tres) : Prop :=
  match r with
  | TD l vals => found_as (lbp fuel path lazy ph s) l (addp lazy (ps s) vals)
  | TN c => backst path lazy fuel ph s cost c
  end.

Lemma cor_none_r c : cor c None = c.
Proof. destruct c; reflexivity. Qed.
Lemma cor_idem c : cor c c = c.
Proof. destruct c; reflexivity. Qed.
Lemma cwith_nil c : cwith [] c = c.
Proof. destruct c as [[l v]|]; reflexivity. Qed.
Lemma twith_nil r : twith [] r = r.
Proof. destruct r; simpl; auto. rewrite cwith_nil. reflexivity. Qed.
Lemma talt_none_r a : talt a (TN None) = a.
Proof. destruct a; simpl; auto. rewrite cor_none_r. reflexivity. Qed.
Lemma talt_none_l b : talt (TN None) b = b.
Proof. destruct b; reflexivity. Qed.
Lemma tcons_none r : tcons None r = r.
Proof. destruct r; reflexivity. Qed.

Lemma tres_step path lazy fuel ph s cost fuel1 ph1 s1 cost1 k v0 r :
  lbp fuel path lazy ph s = lbp fuel1 path lazy ph1 s1 ->
  tres_ok path lazy fuel1 ph1 s1 cost1 r ->
  sks s1 = sks s -> ps s1 = addp lazy (ps s) v0 -> rg s1 = rg s -> fuel <= fuel1 + k -> cost1 + k <= cost ->
  tres_ok path lazy fuel ph s cost (twith v0 r).
Proof.
  intros He Hr Hsk Hps Hrg Hf Hc. destruct r as [l vals|c]; cbn [twith tres_ok] in *.
  - destruct Hr as (l' & tps' & E & Er). exists l', tps'. rewrite He, E, Hps, addp_addp. auto.
  - destruct Hr as (f' & s' & E & Hf' & Hs' & Hx & Hk & Hu). exists f', s'.
    split; [rewrite He; exact E|]. repeat split; auto; try congruence; try lia.
    + eapply extends_trans; [|exact Hx]. rewrite Hps. apply extends_addp_self.
    + apply upd_cwith. rewrite <- Hps, <- Hrg. exact Hu.
Qed.

Lemma tres_step0 path lazy fuel ph s cost fuel1 ph1 s1 cost1 k r :
  lbp fuel path lazy ph s = lbp fuel1 path lazy ph1 s1 ->
  tres_ok path lazy fuel1 ph1 s1 cost1 r ->
  sks s1 = sks s -> ps s1 = ps s -> rg s1 = rg s -> fuel <= fuel1 + k -> cost1 + k <= cost ->
  tres_ok path lazy fuel ph s cost r.
Proof.
  intros He Hr Hsk Hps Hrg Hf Hc. rewrite <- (twith_nil r).
  eapply tres_step; eauto. rewrite addp_nil. exact Hps.
Qed.

Lemma tres_cons path lazy fuel ph s cost fuel1 ph1 s1 cost1 k c0 r :
  lbp fuel path lazy ph s = lbp fuel1 path lazy ph1 s1 ->
  tres_ok path lazy fuel1 ph1 s1 cost1 r ->
  sks s1 = sks s -> ps s1 = ps s -> upd lazy (ps s) (rg s) c0 (rg s1) -> fuel <= fuel1 + k -> cost1 + k <= cost ->
  tres_ok path lazy fuel ph s cost (tcons c0 r).
Proof.
  intros He Hr Hsk Hps Hu Hf Hc. destruct r as [l vals|c]; cbn [tcons tres_ok] in *.
  - destruct Hr as (l' & tps' & E & Er). exists l', tps'. rewrite He, E, Hps. auto.
  - destruct Hr as (f' & s' & E & Hf' & Hs' & Hx & Hk & Hu'). exists f', s'.
    split; [rewrite He; exact E|]. repeat split; auto; try congruence; try lia.
    eapply upd_cor; [exact Hu|]. rewrite <- Hps. exact Hu'.
Qed.

Lemma backst_after path lazy fuel s cost c :
  is_leaf (cur s) && Nat.eqb (cm s) (List.length path) && Nat.eqb (cmn s) (List.length (nkey (cur s))) = false ->
  ceq (after_cand path s) c -> 1 <= fuel -> 1 <= cost -> backst path lazy fuel PAfter s cost c.
Proof.
  intros Hno Hc Hf Hcost. destruct fuel as [|f]; [lia|].
  exists f, (after_st lazy path s). split; [apply after_eq; exact Hno|].
  destruct (after_st_core lazy path s) as (_ & _ & _ & _ & H5 & H6 & _ & H8).
  repeat split; auto; try lia.
  - rewrite H6. apply extends_refl.
  - eapply upd_ceq; [exact Hc|apply after_st_upd].
Qed.

Fixpoint tfirst (l : list tres) : tres := match l with [] => TN None | a :: r => talt a (tfirst r) end.

Lemma talts_tfirst sl n c q :
  talt (m2t_child sl n c q) (talt (m2t_child sl n "{" q) (m2t_child sl n "*" q)) =
  tfirst (map (fun x => m2t sl (Some n) x q) (alts_nodes c (nchildren n))).
Proof.
  unfold m2t_child, alts_nodes.
  destruct (first_child c (nchildren n)), (first_child "{" (nchildren n)), (first_child "*" (nchildren n));
    simpl; rewrite ?tcons_none, ?talt_none_r, ?talt_none_l, ?tcons_none; reflexivity.
Qed.

(* L bounds the length of every path looked up; sl says whether they end with '/' *)
Definition walk_okt (sl : bool) (L : nat) (y : node) : Prop :=
  forall pm lazy path fuel s, List.length path <= L -> has_suffix_slash path = sl ->
  cur s = y -> par_rel (par s) pm -> cm s < List.length path -> pkc s = 0 -> pcnt s = List.length (ps s) ->
  ncost L y <= fuel ->
  tres_ok path lazy fuel PWalk s (ncost L y) (m2t sl pm y (skipn (cm s) path)).

Lemma pop_alts_t sl L path lazy parent n cmv ps0 sks0 :
  List.length path <= L -> has_suffix_slash path = sl -> nroute parent = nroute n ->
  forall es fuel s2,
  sks s2 = map (fun e => {| sk_n := parent; sk_path := cmv; sk_pcnt := List.length ps0; sk_child := fst e |}) es ++ sks0 ->
  (forall e, In e es -> nth_error (nchildren parent) (fst e) = Some (snd e) /\ walk_okt sl L (snd e)) ->
  extends ps0 (ps s2) -> pkc s2 = 0 -> cmv < List.length path -> es_cost L es <= fuel ->
  match tfirst (map (fun e => m2t sl (Some n) (snd e) (skipn cmv path)) es) with
  | TD l v2 => found_as (lbp fuel path lazy PBack s2) l (addp lazy ps0 v2)
  | TN c => exists fuel' s3, lbp fuel path lazy PBack s2 = lbp fuel' path lazy PBack s3 /\
              fuel <= fuel' + es_cost L es /\ sks s3 = sks0 /\ extends ps0 (ps s3) /\ pkc s3 = 0 /\
              upd lazy ps0 (rg s2) c (rg s3)
  end.
Proof.
  intros HL Hsl Hpn. induction es as [|e es IH]; intros fuel s2 Hsk Hes Hx Hk Hcm Hf.
  - simpl. exists fuel, s2. simpl in Hsk.
    split; [reflexivity|]. split; [lia|]. split; [exact Hsk|]. split; [exact Hx|]. split; [exact Hk|]. apply upd_none.
  - cbn [map tfirst es_cost] in *.
    destruct (Hes e (or_introl eq_refl)) as [Hnth Hwalk].
    destruct fuel as [|f]; [lia|].
    set (sk := {| sk_n := parent; sk_path := cmv; sk_pcnt := List.length ps0; sk_child := fst e |}) in *.
    set (rest := map (fun e0 => {| sk_n := parent; sk_path := cmv; sk_pcnt := List.length ps0; sk_child := fst e0 |}) es ++ sks0) in *.
    assert (Hpop : lbp (S f) path lazy PBack s2 = lbp f path lazy PWalk (popped s2 sk rest (snd e))).
    { apply back_pop; auto. simpl. apply extends_len. exact Hx. }
    set (s3 := popped s2 sk rest (snd e)) in *.
    assert (Hps3 : ps s3 = ps0) by exact Hx.
    pose proof (Hwalk (Some n) lazy path f s3 HL Hsl eq_refl Hpn Hcm Hk) as Hw. rewrite Hps3 in Hw.
    specialize (Hw eq_refl ltac:(lia)). change (cm s3) with cmv in Hw.
    destruct (m2t sl (Some n) (snd e) (skipn cmv path)) as [l v2|c1]; cbn [talt tres_ok] in *.
    + destruct Hw as (l' & tps' & E & Er). exists l', tps'. rewrite Hpop, E, Hps3. auto.
    + destruct Hw as (f4 & s4 & He4 & Hf4 & Hsk4 & Hx4 & Hk4 & Hu4).
      change (sks s3) with rest in Hsk4. rewrite Hps3 in Hx4, Hu4. change (rg s3) with (rg s2) in Hu4.
      specialize (IH f4 s4 Hsk4 (fun e0 H0 => Hes e0 (or_intror H0)) Hx4 Hk4 Hcm ltac:(lia)).
      destruct (tfirst (map (fun e0 => m2t sl (Some n) (snd e0) (skipn cmv path)) es)) as [l v2|c2]; cbn [tcons].
      * destruct IH as (l' & tps' & E & Er). exists l', tps'. rewrite Hpop, He4, E. auto.
      * destruct IH as (f5 & s5 & He5 & Hf5 & Hsk5 & Hx5 & Hk5 & Hu5).
        exists f5, s5. split; [rewrite Hpop, He4; exact He5|]. repeat split; auto; try lia.
        eapply upd_cor; eauto.
Qed.

(* PSelect once the key of the current node (a tree node or its truncated copy) is consumed;
   done = the tokens of that key *)
Definition sel_okt (sl : bool) (L : nat) (n : node) (Csel : nat) : Prop :=
  forall pm done lazy path fuel s', List.length path <= L -> has_suffix_slash path = sl ->
  nroute (cur s') = nroute n -> nchildren (cur s') = nchildren n -> par_rel (par s') pm ->
  nkey (cur s') = render done ->
  cmn s' = List.length (nkey (cur s')) -> cm s' <= List.length path ->
  pcnt s' = List.length (ps s') -> Csel <= fuel ->
  tres_ok path lazy fuel PSelect s' Csel (Kt sl n pm done (skipn (cm s') path)).

Lemma sel_okt_node sl L n : NoDup (heads (nchildren n)) -> (forall x, In x (nchildren n) -> walk_okt sl L x) ->
  sel_okt sl L n (3 * ncost_sum L (nchildren n) + 14).
Proof.
  intros Hnd Hwalk pm done lazy path f2 s' HL Hsl Hrt Hch' Hpar Hkey Hcmn' Hcm' Hpc' Hf2.
  set (ch := nchildren n) in *.
  destruct (skipn (cm s') path) as [|c rest'] eqn:Hrest.
  - (* the path ends with this key *)
    apply skipn_nil_len in Hrest. unfold Kt, Kt_gen.
    destruct f2 as [|[|f3]]; try lia.
    pose proof (select_ge f3 path lazy s' Hrest) as Hsel.
    destruct (is_leaf n) eqn:El.
    + destruct f3 as [|f4]; [lia|]. cbn [tres_ok].
      exists (cur s'), (tps s'). rewrite Hsel.
      rewrite after_found; [| rewrite (is_leaf_route _ _ Hrt); exact El | lia | exact Hcmn'].
      rewrite addp_nil. split; [reflexivity|]. congruence.
    + apply (tres_step0 path lazy (S (S f3)) PSelect s' _ f3 PAfter s' 1 2); auto; try lia.
      cbn [tres_ok]. apply backst_after; auto; try lia.
      * rewrite (is_leaf_route _ _ Hrt), El. reflexivity.
      * fold ch. rewrite <- Hch'. apply (after_cand_end path s' sl pm (cur s') done); auto; try lia.
        rewrite (is_leaf_route _ _ Hrt). exact El.
  - (* the path continues: site 4, then the children in the order static, parameter, catch-all *)
    pose proof (skipn_cons_nth _ _ _ _ Hrest) as (Hnc & _ & Hlt').
    unfold Kt, Kt_gen. fold ch.
    destruct f2 as [|f3]; [lia|].
    destruct (select_alts_t f3 path lazy s' c Hlt' Hnc) as (es & Hmap & Hnth & Hsel).
    { rewrite Hch'. exact Hnd. }
    set (s1 := sel_st lazy path s' c) in *.
    destruct (sel_st_core lazy path s' c) as (Hcore & Hpc1 & Hpk1). fold s1 in Hcore, Hpc1, Hpk1.
    pose proof (sel_st_upd lazy path s' c n rest' Hrest Hcmn' Hrt) as Hu1. fold s1 in Hu1.
    rewrite Hch' in Hmap, Hnth, Hu1. fold ch in Hmap, Hnth, Hu1.
    destruct Hcore as (Hc1 & Hpa1 & Hcm1 & Hcmn1 & Hsk1 & Hps1).
    rewrite (talts_tfirst sl n c (c :: rest')). fold ch. rewrite <- Hmap, map_map.
    assert (Hes : forall e, In e es -> nth_error (nchildren (cur s1)) (fst e) = Some (snd e) /\ walk_okt sl L (snd e)).
    { intros e He0. pose proof (Hnth e He0) as Hn. split; [rewrite Hc1, Hch'; exact Hn|].
      apply nth_error_In in Hn. apply Hwalk. exact Hn. }
    assert (Hescost : es_cost L es <= 3 * ncost_sum L ch).
    { apply es_cost_le.
      - intros e He0. eapply nth_error_In. apply Hnth; exact He0.
      - rewrite <- (map_length snd), Hmap. apply alts_nodes_len. }
    destruct es as [|e1 rest].
    + (* no child to try: sites 4 and 3 coincide *)
      cbn [map tfirst tcons].
      assert (Hnone : first_child c ch = None).
      { unfold alts_nodes in Hmap. destruct (first_child c ch); [discriminate|reflexivity]. }
      rewrite Hnone in *. cbn [is_none andb] in *.
      match goal with |- tres_ok _ _ _ _ _ _ (TN (cor ?x None)) => set (c4 := x) in * end.
      rewrite cor_none_r, <- (cor_idem c4).
      change (TN (cor c4 c4)) with (tcons c4 (TN c4)).
      apply (tres_cons path lazy (S f3) PSelect s' _ f3 PAfter s1 1 2 c4 (TN c4)); auto; try lia.
      cbn [tres_ok]. apply backst_after; auto; try lia.
      * apply cm_lt_nofound. lia.
      * unfold c4. rewrite <- Hrest, <- Hcm1. apply after_cand_sel; try lia; congruence.
    + cbn [map tfirst].
      set (sd := descend (push_all s1 (map fst rest)) (snd e1)) in *.
      destruct (push_all_core s1 (map fst rest)) as (Hq1 & Hq2 & Hq3 & Hq4 & Hq5 & Hq6 & Hq7 & Hq8 & Hq9).
      destruct (Hes e1 (or_introl eq_refl)) as [_ Hwalk1].
      cbn [es_cost] in Hescost.
      pose proof (Hwalk1 (Some n) lazy path f3 sd HL Hsl eq_refl) as H1.
      change (cm sd) with (cm (push_all s1 (map fst rest))) in H1.
      change (ps sd) with (ps (push_all s1 (map fst rest))) in H1.
      change (pcnt sd) with (pcnt (push_all s1 (map fst rest))) in H1.
      change (pkc sd) with 0 in H1.
      change (par sd) with (Some (cur (push_all s1 (map fst rest)))) in H1.
      rewrite Hq1, Hq3, Hq5, Hq7, Hcm1, Hps1, Hpc1, Hc1 in H1.
      specialize (H1 Hrt Hlt' eq_refl Hpc' ltac:(lia)). rewrite Hrest in H1.
      assert (Hrgd : rg sd = rg s1).
      { unfold rg. change (tsr sd) with (tsr (push_all s1 (map fst rest))).
        change (tn sd) with (tn (push_all s1 (map fst rest))). rewrite Hq8, Hq9.
        f_equal. clear. induction (map fst rest); simpl; auto. }
      match goal with |- tres_ok _ _ _ _ _ _ (tcons ?c0 _) => set (c4 := c0) in * end.
      assert (Hpsd : ps sd = ps s') by (change (ps sd) with (ps (push_all s1 (map fst rest))); congruence).
      destruct (m2t sl (Some n) (snd e1) (c :: rest')) as [l v2|c1]; cbn [talt tcons tres_ok] in *.
      * destruct H1 as (l' & tps' & E & Er). exists l', tps'. rewrite Hsel, E, Hpsd. auto.
      * destruct H1 as (f4 & s2 & He2 & Hf4 & Hsk2 & Hx2 & Hk2 & Hu2). rewrite Hrgd, Hpsd in Hu2. rewrite Hpsd in Hx2.
        change (sks sd) with (sks (push_all s1 (map fst rest))) in Hsk2. rewrite push_all_sks in Hsk2.
        pose proof (pop_alts_t sl L path lazy (cur s1) n (cm s1) (ps s') (sks s1) HL Hsl ltac:(congruence) rest f4 s2) as Hpop.
        assert (Hsk2' : sks s2 = map (fun e => {| sk_n := cur s1; sk_path := cm s1; sk_pcnt := List.length (ps s');
                                                   sk_child := fst e |}) rest ++ sks s1).
        { rewrite Hsk2, map_map. unfold entry. rewrite Hpc1, Hpc'. reflexivity. }
        specialize (Hpop Hsk2' (fun e0 H0 => Hes e0 (or_intror H0)) Hx2 Hk2 ltac:(lia) ltac:(lia)).
        rewrite Hcm1, Hrest in Hpop.
        destruct (tfirst (map (fun e => m2t sl (Some n) (snd e) (c :: rest')) rest)) as [l v2|c2]; cbn [tcons tres_ok].
        -- destruct Hpop as (l' & tps' & E & Er). exists l', tps'. rewrite Hsel, He2, E. auto.
        -- destruct Hpop as (f5 & s5 & He5 & Hf5 & Hsk5 & Hx5 & Hk5 & Hu5).
           exists f5, s5. split; [rewrite Hsel, He2; exact He5|].
           repeat split; auto; try congruence; try lia.
           eapply upd_cor; [exact Hu1|]. eapply upd_cor; eauto.
Qed.

(* ------------------------------------------------------------------ *)
(* complete sub-lookups from a fresh state                              *)
(* ------------------------------------------------------------------ *)
Definition fresh_res (r : lres) (t : tres) : Prop :=
  match t with
  | TD l v => found_as r l v
  | TN None => exists ps', r = Found None false ps' []
  | TN (Some (l, v)) => exists l' ps', r = Found (Some l') true ps' v /\ nroute l' = nroute l
  end.

Definition fresh_okt (sl : bool) (L : nat) (ino : node) (sub : bytes -> tres) (C : nat) : Prop :=
  forall q fuel, q <> [] -> List.length q <= L -> has_suffix_slash q = sl -> C <= fuel ->
  fresh_res (lbp fuel q false PWalk (init_st ino [] [])) (sub q).

Lemma fresh_of_tres q fuel ph s cost r :
  sks s = [] -> rg s = (false, None, []) -> ps s = [] ->
  tres_ok q false fuel ph s cost r -> cost < fuel ->
  fresh_res (lbp fuel q false ph s) r.
Proof.
  intros Hsk Hrg Hps Hr Hf. destruct r as [l v|c]; cbn [tres_ok fresh_res] in *.
  - rewrite Hps in Hr. exact Hr.
  - destruct Hr as (f' & s' & -> & Hf' & Hs' & _ & _ & Hu). rewrite Hsk in Hs'.
    destruct f' as [|f']; [lia|]. rewrite back_nil by exact Hs'.
    rewrite Hrg, Hps in Hu. unfold upd in Hu. destruct c as [[l v]|].
    + destruct Hu as (l' & Hu & Hl). unfold rg in Hu. simpl in Hu.
      exists l', (ps s'). split; [congruence|exact Hl].
    + unfold rg in Hu. exists (ps s'). congruence.
Qed.

Definition cinvt (cur0 : node) (cmn0 pkc0 : nat) (sks0 : list skipped) (ps0 : list kv) (par0 : option node) (s : st) : Prop :=
  cur s = cur0 /\ cmn s = cmn0 /\ pkc s = pkc0 /\ sks s = sks0 /\ ps s = ps0 /\ par s = par0.

Lemma prop_st_core lazy s sn tp :
  cur (prop_st lazy s sn tp) = cur s /\ cmn (prop_st lazy s sn tp) = cmn s /\ pkc (prop_st lazy s sn tp) = pkc s /\
  sks (prop_st lazy s sn tp) = sks s /\ ps (prop_st lazy s sn tp) = ps s /\ cm (prop_st lazy s sn tp) = cm s /\
  par (prop_st lazy s sn tp) = par s.
Proof. unfold prop_st. destruct (tsr s); repeat split. Qed.

Lemma nth_error_skipn {A} : forall a b (l : list A), nth_error (skipn a l) b = nth_error l (a + b).
Proof.
  induction a as [|a IH]; intros b l; [reflexivity|]. destruct l as [|x l]; simpl.
  - destruct b; reflexivity.
  - apply IH.
Qed.

Lemma pcatch_loop_t sl L lazy path ino sub fin C Cfin start prm cur0 cmn0 pkc0 sks0 ps0 par0 :
  List.length path <= L -> has_suffix_slash path = sl -> fresh_okt sl L ino sub C ->
  nth_error (nparams cur0) pkc0 = Some prm ->
  (forall f s1, cinvt cur0 cmn0 pkc0 sks0 ps0 par0 s1 ->
     (cm s1 = start \/ nth_error path start <> Some "/") ->
     (index_byte (skipn (cm s1) path) "/" = Some 0 \/ index_byte (skipn (cm s1) path) "/" = None) ->
     Cfin <= S f ->
     match fin (skipn start path) with
     | TD l kv => found_as (lbp (S f) path lazy (PCatch ino start) s1) l (addp lazy ps0 kv)
     | TN c => exists fuel' s', lbp (S f) path lazy (PCatch ino start) s1 = lbp fuel' path lazy PBack s' /\
                 S f <= fuel' + Cfin /\ sks s' = sks0 /\ extends ps0 (ps s') /\ pkc s' = 0 /\
                 upd lazy ps0 (rg s1) c (rg s')
     end) ->
  forall sf s v q fuel, cinvt cur0 cmn0 pkc0 sks0 ps0 par0 s ->
    skipn (cm s) path = q -> start <= cm s -> cm s <= List.length path -> v = slice path start (cm s) ->
    (cm s = start \/ nth_error path start <> Some "/") ->
    List.length q < sf -> (List.length q + 1) * (C + 2) + Cfin + 1 <= fuel ->
    match scant sf sub fin (pkey prm) v q with
    | TD l kvs => found_as (lbp fuel path lazy (PCatch ino start) s) l (addp lazy ps0 kvs)
    | TN c => exists fuel' s', lbp fuel path lazy (PCatch ino start) s = lbp fuel' path lazy PBack s' /\
                fuel <= fuel' + ((List.length q + 1) * (C + 2) + Cfin + 1) /\
                sks s' = sks0 /\ extends ps0 (ps s') /\ pkc s' = 0 /\ upd lazy ps0 (rg s) c (rg s')
    end.
Proof.
  intros HL Hsl Hsub Hprm0 Hfin.
  induction sf as [|sf IH]; intros s v q fuel Hinv Hq Hst Hcm Hv Hstart Hsf Hfuel; [lia|].
  subst q v. set (q := skipn (cm s) path) in *. set (v := slice path start (cm s)) in *.
  assert (Hq : skipn (cm s) path = q) by reflexivity. assert (Hv : v = slice path start (cm s)) by reflexivity.
  pose proof Hinv as (Hc & Hcn & Hpk & Hsk & Hps & Hpa).
  assert (Hprm : nth_error (nparams (cur s)) (pkc s) = Some prm) by (rewrite Hc, Hpk; exact Hprm0).
  cbn [scant]. destruct fuel as [|f]; [lia|].
  destruct (index_byte q "/") as [[|d]|] eqn:Eidx.
  - (* empty segment: stop *)
    unfold v, q. rewrite slice_skipn by exact Hst.
    specialize (Hfin f s Hinv Hstart (or_introl Eidx) ltac:(lia)).
    destruct (fin (skipn start path)) as [l kv|c]; [exact Hfin|].
    destruct Hfin as (f' & s' & He & Hf' & H1 & H2 & H3 & H4). exists f', s'. repeat split; auto. lia.
  - (* a non-empty segment ends at the next '/' *)
    pose proof (index_byte_nth q (S d) Eidx) as [Hnth Hdl].
    set (cm' := cm s + S d).
    assert (Hq' : skipn cm' path = skipn (S d) q).
    { unfold cm'. rewrite <- Hq, skipn_skipn'. f_equal. lia. }
    assert (Hlenq : List.length q = List.length path - cm s) by (rewrite <- Hq; apply skipn_length).
    assert (Hsg : v ++ firstn (S d) q = slice path start cm').
    { rewrite (slice_app path start (cm s) cm') by (unfold cm'; lia). rewrite <- Hv. f_equal.
      unfold slice, cm'. rewrite Hq. f_equal. lia. }
    assert (HLq : List.length (skipn cm' path) <= L) by (rewrite skipn_length; lia).
    assert (Hcm'lt : cm' < List.length path) by (unfold cm'; lia).
    assert (Hne' : skipn cm' path <> []).
    { intros E. apply (f_equal (@List.length ascii)) in E. rewrite skipn_length in E. simpl in E. lia. }
    pose proof (Hsub (skipn cm' path) f Hne' HLq) as Hs.
    rewrite has_suffix_slash_skipn in Hs by exact Hcm'lt.
    assert (Hfc : C <= f).
    { assert ((List.length q + 1) * (C + 2) >= C + 2) by nia. lia. }
    specialize (Hs Hsl Hfc). rewrite <- Hq'.
    assert (Hstart' : S cm' = start \/ nth_error path start <> Some "/").
    { right. destruct Hstart as [Hs0|Hs0]; [|exact Hs0]. rewrite <- Hs0.
      destruct (index_byte_before q (S d) Eidx 0 ltac:(lia)) as (x & r & Hx & Hxn).
      simpl in Hx. rewrite <- Hq in Hx. apply skipn_cons_nth in Hx. destruct Hx as [Hx _]. rewrite Hx. congruence. }
    assert (Hlen2 : List.length (skipn 1 (skipn cm' path)) = List.length q - S (S d)).
    { rewrite Hq', !skipn_length. lia. }
    assert (Hnth' : nth_error path cm' = Some "/").
    { unfold cm'. rewrite <- Hnth, <- Hq. symmetry. apply nth_error_skipn. }
    assert (Hfu : (List.length (skipn 1 (skipn cm' path)) + 1) * (C + 2) + Cfin + 1 <= f).
    { rewrite Hlen2. assert ((List.length q + 1) * (C + 2) >= (List.length q - S (S d) + 1) * (C + 2) + (C + 2)) by nia. lia. }
    (* the state after a sub-lookup without direct hit *)
    assert (Hnext : forall s1, cinvt cur0 cmn0 pkc0 sks0 ps0 par0 s1 ->
              match scant sf sub fin (pkey prm) ((v ++ firstn (S d) q) ++ ["/"]) (skipn 1 (skipn cm' path)) with
              | TD l kvs => found_as (lbp f path lazy (PCatch ino start) (with_cm s1 (S cm'))) l (addp lazy ps0 kvs)
              | TN c => exists fuel' s', lbp f path lazy (PCatch ino start) (with_cm s1 (S cm')) = lbp fuel' path lazy PBack s' /\
                          f <= fuel' + ((List.length (skipn 1 (skipn cm' path)) + 1) * (C + 2) + Cfin + 1) /\
                          sks s' = sks0 /\ extends ps0 (ps s') /\ pkc s' = 0 /\ upd lazy ps0 (rg s1) c (rg s')
              end).
    { intros s1 (Hi1 & Hi2 & Hi3 & Hi4 & Hi5 & Hi6). set (s2 := with_cm s1 (S cm')).
      assert (Hinv2 : cinvt cur0 cmn0 pkc0 sks0 ps0 par0 s2) by (unfold cinvt, s2, with_cm; cbn; repeat split; assumption).
      specialize (IH s2 ((v ++ firstn (S d) q) ++ ["/"]) (skipn 1 (skipn cm' path)) f Hinv2).
      assert (Hsk2 : skipn (cm s2) path = skipn 1 (skipn cm' path)).
      { change (cm s2) with (S cm'). rewrite skipn_skipn'. reflexivity. }
      specialize (IH Hsk2 ltac:(change (cm s2) with (S cm'); unfold cm'; lia)
                     ltac:(change (cm s2) with (S cm'); unfold cm'; lia)).
      assert (Hv2 : (v ++ firstn (S d) q) ++ ["/"] = slice path start (cm s2)).
      { change (cm s2) with (S cm'). rewrite (slice_app path start cm' (S cm')) by (unfold cm'; lia).
        rewrite Hsg. f_equal. unfold slice. replace (S cm' - cm') with 1 by lia.
        destruct (skipn cm' path) as [|x r] eqn:E; [congruence|].
        apply skipn_cons_nth in E. destruct E as [E _]. simpl. congruence. }
      specialize (IH Hv2 Hstart' ltac:(lia) Hfu). change (rg s2) with (rg s1) in IH. exact IH. }
    replace (v ++ firstn (S d) q ++ ["/"]) with ((v ++ firstn (S d) q) ++ ["/"]) by (rewrite <- app_assoc; reflexivity).
    rewrite Hsg in Hnext. rewrite Hsg.
    assert (Hcost : forall f', f <= f' + ((List.length (skipn 1 (skipn cm' path)) + 1) * (C + 2) + Cfin + 1) ->
              S f <= f' + ((List.length q + 1) * (C + 2) + Cfin + 1)).
    { intros f' Hf'. rewrite Hlen2 in Hf'.
      assert ((List.length q + 1) * (C + 2) >= (List.length q - S (S d) + 1) * (C + 2) + (C + 2)) by nia. lia. }
    destruct (sub (skipn cm' path)) as [l kvs|[[l kvs]|]]; cbn [fresh_res] in Hs.
    + destruct Hs as (l' & stps & Es & Er).
      exists l', (tps s). rewrite (pcatch_found f path lazy ino start s prm d l' kvs stps Hprm Eidx Es).
      rewrite Hps. auto.
    + destruct Hs as (l' & sps & Es & Er).
      pose proof (pcatch_tsr f path lazy ino start s prm d l' sps kvs Hprm Eidx Es) as He1. fold cm' in He1.
      set (s1 := prop_st lazy s l' (ps s ++ [(pkey prm, slice path start cm')] ++ kvs)) in *.
      destruct (prop_st_core lazy s l' (ps s ++ [(pkey prm, slice path start cm')] ++ kvs)) as (P1 & P2 & P3 & P4 & P5 & P6 & P7).
      fold s1 in P1, P2, P3, P4, P5, P6, P7.
      assert (Hinv1 : cinvt cur0 cmn0 pkc0 sks0 ps0 par0 s1) by (unfold cinvt; repeat split; congruence).
      pose proof (prop_st_upd lazy s l' l (pkey prm, slice path start cm') kvs Er) as Hu1. fold s1 in Hu1.
      assert (Hu1' : upd lazy ps0 (rg s) (Some (l, (pkey prm, slice path start cm') :: kvs)) (rg s1))
        by (rewrite <- Hps; exact Hu1).
      cbn [cwith app].
      specialize (Hnext s1 Hinv1).
      destruct (scant sf sub fin (pkey prm) (slice path start cm' ++ ["/"]) (skipn 1 (skipn cm' path))) as [l2 kvs2|c2];
        cbn [tcons].
      * destruct Hnext as (l3 & tps' & E & Er3). exists l3, tps'. rewrite He1, E. auto.
      * destruct Hnext as (f' & s' & He & Hf' & H1 & H2 & H3 & H4). exists f', s'.
        split; [rewrite He1; exact He|]. repeat split; auto.
        eapply upd_cor; [exact Hu1'|exact H4].
    + destruct Hs as (sps & Es).
      pose proof (pcatch_none f path lazy ino start s prm d false sps [] Hprm Eidx Es) as He1. fold cm' in He1.
      specialize (Hnext s Hinv). cbn [cwith]. rewrite tcons_none.
      destruct (scant sf sub fin (pkey prm) (slice path start cm' ++ ["/"]) (skipn 1 (skipn cm' path))) as [l2 kvs2|c2].
      * destruct Hnext as (l3 & tps' & E & Er3). exists l3, tps'. rewrite He1, E. auto.
      * destruct Hnext as (f' & s' & He & Hf' & H1 & H2 & H3 & H4). exists f', s'.
        split; [rewrite He1; exact He|]. repeat split; auto.
  - (* no more '/' *)
    unfold v, q. rewrite slice_skipn by exact Hst.
    specialize (Hfin f s Hinv Hstart (or_intror Eidx) ltac:(lia)).
    destruct (fin (skipn start path)) as [l kv|c]; [exact Hfin|].
    destruct Hfin as (f' & s' & He & Hf' & H1 & H2 & H3 & H4). exists f', s'. repeat split; auto. lia.
Qed.


Lemma fresh_of_key_t sl L ino (sub : bytes -> tres) Ck :
  (forall path s fuel, List.length path <= L -> has_suffix_slash path = sl ->
     s = reset_cmn (init_st ino [] []) -> 0 < List.length path -> Ck <= fuel ->
     tres_ok path false fuel (PInner 0) s Ck (sub path)) ->
  fresh_okt sl L ino sub (Ck + 6).
Proof.
  intros Hrun q fuel Hne HL Hsl Hf.
  destruct q as [|c q]; [congruence|].
  destruct fuel as [|f]; [lia|].
  rewrite (walk_lt' f (c :: q) false (init_st ino [] [])) by (simpl; lia).
  specialize (Hrun (c :: q) _ f HL Hsl eq_refl ltac:(simpl; lia) ltac:(lia)).
  eapply fresh_of_tres; eauto; try reflexivity. lia.
Qed.

Lemma key_walk_t sl L n Csel :
  sel_okt sl L n Csel ->
  match nchildren n with c0 :: _ => fresh_okt sl L c0 (m2t sl None c0) (c0cost L (nchildren n)) | [] => True end ->
  forall kt done pm lazy path s fuel, List.length path <= L -> has_suffix_slash path = sl ->
    nkey (cur s) = render (done ++ kt) -> nroute (cur s) = nroute n -> nchildren (cur s) = nchildren n ->
    par_rel (par s) pm ->
    forallb ptok_ok done = true -> kt_ok (cend (nroute n) (nchildren n)) kt = true ->
    cmn s = List.length (render done) -> pkc s = cnt_wild done -> pcnt s = List.length (ps s) ->
    cm s <= List.length path ->
    kcost L Csel (c0cost L (nchildren n)) kt <= fuel ->
    tres_ok path lazy fuel (PInner (cmn s)) s (kcost L Csel (c0cost L (nchildren n)) kt)
      (kmt sl n (Kt sl n) (sub0t sl (nchildren n)) pm done kt (skipn (cm s) path)).
Proof.
  intros Hsel Hc0.
  set (r := nroute n) in *. set (ch := nchildren n) in *. set (C0 := c0cost L ch) in *.
  induction kt as [|t kt IH]; intros done pm lazy path s fuel HL Hsl Hk Hrt Hch Hpar Hokd Hokt0 Hcmn Hpkc Hpc Hcm Hf.
  - (* key consumed *)
    cbn [kmt]. rewrite kcost_nil in *. destruct fuel as [|f]; [lia|].
    assert (Hex : lbp (S f) path lazy (PInner (cmn s)) s = lbp f path lazy PSelect s).
    { apply inner_exit. right. rewrite Hk, app_nil_r, Hcmn. lia. }
    rewrite app_nil_r in Hk.
    pose proof (Hsel pm done lazy path f s HL Hsl Hrt Hch Hpar Hk) as Hs.
    specialize (Hs ltac:(rewrite Hk; exact Hcmn) Hcm Hpc ltac:(lia)).
    eapply (tres_step0 path lazy (S f) _ s _ f PSelect s Csel 1); eauto; lia.
  - assert (Hklen : List.length (nkey (cur s)) = List.length (render done) + List.length (render (t :: kt)))
      by (rewrite Hk, render_app, app_length; reflexivity).
    pose proof (render_cons_len t kt) as Hrl. pose proof (render_tok_len_pos t) as Htl.
    assert (Hk6 : 6 <= kcost L Csel C0 (t :: kt)) by (destruct (kcost_ge L Csel C0 (t :: kt)) as [H|H]; [exact H|discriminate]).
    destruct (skipn (cm s) path) as [|c p'] eqn:Ep.
    + (* path exhausted inside the key: sites 1-2 *)
      cbn [kmt]. apply skipn_nil_len in Ep.
      destruct fuel as [|[|[|f]]]; try lia.
      eapply (tres_step0 path lazy (S (S (S f))) _ s _ f PAfter s 1 3); try reflexivity; try lia.
      * rewrite inner_exit by (left; exact Ep). rewrite select_ge by exact Ep. reflexivity.
      * cbn [tres_ok]. apply backst_after; auto; try lia.
        -- apply cmn_lt_nofound. lia.
        -- apply after_cand_exh; auto; try lia. discriminate.
    + pose proof (skipn_cons_nth _ _ _ _ Ep) as (Hpc0 & Hp' & Hlt).
      assert (Hkey : nth_error (nkey (cur s)) (cmn s) = hd_error (render (t :: kt))).
      { rewrite Hk, render_app, Hcmn. apply nth_error_app_len. }
      pose proof (kt_ok_tok _ _ Hokt0) as Htok0.
      assert (Htokall : forallb tok_ok (done ++ t :: kt) = true)
        by (rewrite forallb_app, (forallb_ptok_tok _ Hokd); exact Htok0).
      assert (Hmid : forall s0, cm s0 < List.length path -> cmn s0 < List.length (nkey (cur s0)) ->
                1 <= kcost L Csel C0 (t :: kt) ->
                forall f0, 1 <= f0 -> backst path lazy f0 PAfter s0 1 None).
      { intros s0 H1 H2 _ f0 Hf0. apply backst_after; auto; try lia.
        - apply cm_lt_nofound. exact H1.
        - rewrite after_cand_mid by assumption. exact I. }
      destruct (kt_ok_cons _ _ _ Hokt0) as [[Hokt1 Hokt2]|(cn & -> & Hcn & Hokt2 & Hend)].
      2:{ (* catch-all *)
          simpl in Hkey.
          destruct (catch_info s done cn kt Hk Htokall Hpkc) as (prm & Hprm & Hpk & Hpe).
          destruct fuel as [|f]; [lia|].
          assert (Hlenp : List.length (c :: p') = List.length path - cm s) by (rewrite <- Ep; apply skipn_length).
          assert (Hv0 : [] = slice path (cm s) (cm s)) by (unfold slice; rewrite Nat.sub_diag; reflexivity).
          assert (HlenL : List.length (c :: p') <= L) by lia.
          cbn [kmt].
          destruct kt as [|t' kt'].
          - (* the catch-all ends the key *)
            specialize (Hend eq_refl). destruct (cend_children _ _ Hend) as [Hnil|(c0 & Hc0e & Hc0s)].
            + (* no children: it takes the rest of the path *)
              rewrite Hnil. cbn [sub0t tres_ok].
              rewrite (inner_catch_step f path lazy (cmn s) s c prm Hkey Hpc0 Hprm Hpe) by (rewrite Hch; exact Hnil).
              exists (cur s), (tps s). rewrite Hpk, Ep. split; [reflexivity|exact Hrt].
            + (* one "/..." child: loop with it *)
              rewrite Hc0e in Hc0 |- *. cbn [sub0t].
              assert (Hchs : nchildren (cur s) = c0 :: []) by (rewrite Hch; exact Hc0e).
              pose proof (inner_catchc_step f path lazy (cmn s) s c prm c0 [] Hkey Hpc0 Hprm Hpe Hchs) as Hstep.
              set (sc := cstate s (List.length (nkey (cur s)) - cmn s)) in *.
              pose proof (pcatch_loop_t sl L lazy path c0 (m2t sl None c0) (fun v => TD n [(cn, v)]) C0 1 (cm s) prm
                            (cur s) (cmn sc) (pkc s) (sks s) (ps s) (par s) HL Hsl Hc0 Hprm) as Hloop.
              assert (Hfin : forall f1 s1, cinvt (cur s) (cmn sc) (pkc s) (sks s) (ps s) (par s) s1 ->
                        (cm s1 = cm s \/ nth_error path (cm s) <> Some "/") ->
                        (index_byte (skipn (cm s1) path) "/" = Some 0 \/ index_byte (skipn (cm s1) path) "/" = None) ->
                        1 <= S f1 ->
                        found_as (lbp (S f1) path lazy (PCatch c0 (cm s)) s1) n
                                 (addp lazy (ps s) [(cn, skipn (cm s) path)])).
              { intros f1 s1 (Hi1 & Hi2 & Hi3 & Hi4 & Hi5 & Hi6) _ Hidx _.
                rewrite (pcatch_final_suffix f1 path lazy c0 (cm s) s1 prm) by (try rewrite Hi1, Hi3; auto).
                exists (cur s1), (tps s1). rewrite Hi5, Hpk, Hi1. auto. }
              specialize (Hloop Hfin (S (List.length (c :: p'))) sc [] (c :: p') f).
              assert (Hinv : cinvt (cur s) (cmn sc) (pkc s) (sks s) (ps s) (par s) sc) by (repeat split; auto).
              specialize (Hloop Hinv Ep (Nat.le_refl _) Hcm Hv0 (or_introl eq_refl) (Nat.lt_succ_diag_r _)).
              assert (Hfu : (List.length (c :: p') + 1) * (C0 + 2) + 1 + 1 <= f).
              { rewrite kcost_catch_nil in Hf. assert ((L + 2) * (8 + C0) >= (List.length (c :: p') + 2) * (8 + C0)) by (apply Nat.mul_le_mono_r; lia). nia. }
              specialize (Hloop Hfu). rewrite Hpk in Hloop. change (rg sc) with (rg s) in Hloop.
              match type of Hloop with match ?X with _ => _ end =>
                match goal with |- tres_ok _ _ _ _ _ _ ?Y => change Y with X; destruct X as [l kvs|c2] end end;
                cbn [tres_ok].
              * destruct Hloop as (l' & tps' & E & Er). exists l', tps'. rewrite Hstep, E. auto.
              * destruct Hloop as (f' & s' & He & Hf' & H1 & H2 & H3 & H4). exists f', s'.
                split; [rewrite Hstep; exact He|]. repeat split; auto.
                rewrite kcost_catch_nil. assert ((L + 2) * (8 + C0) >= (List.length (c :: p') + 2) * (8 + C0)) by (apply Nat.mul_le_mono_r; lia). nia.
          - (* infix catch-all: loop with the truncated copy of the node *)
            set (kt1 := t' :: kt') in *.
            set (e := List.length (render done) + List.length cn + 3) in *.
            set (ino := Node (render kt1) (nroute (cur s)) (nchildren (cur s))).
            assert (Hino : inode (cur s) = Some ino) by (apply (inode_render (cur s) done cn kt1); auto; discriminate).
            assert (Hpe' : pend prm = Some e) by exact Hpe.
            pose proof (inner_infix_step f path lazy (cmn s) s c prm e ino Hkey Hpc0 Hprm Hpe' ltac:(unfold e; lia) Hino) as Hstep.
            set (sc := cstate s (e - cmn s)) in *.
            set (Ck := kcost L Csel C0 kt1) in *.
            assert (Hfresh : fresh_okt sl L ino (fun q => kmt sl n (Kt sl n) (sub0t sl ch) None [] kt1 q) (Ck + 6)).
            { apply (fresh_of_key_t sl L ino).
              intros path0 s0 fuel0 HL0 Hsl0 Hs0 Hpos Hfu0.
              pose proof (IH [] None false path0 s0 fuel0 HL0 Hsl0) as IH0. subst s0.
              specialize (IH0 eq_refl Hrt Hch I eq_refl Hokt2 eq_refl eq_refl eq_refl).
              specialize (IH0 ltac:(simpl; lia) Hfu0).
              exact IH0. }
            assert (Hdone1 : List.length (render (done ++ [TCatch cn])) = e).
            { rewrite render_app, app_length. unfold e. change (render [TCatch cn]) with (("*" :: "{" :: cn ++ ["}"]) ++ []).
              rewrite app_nil_r. cbn [List.length]. rewrite app_length. cbn [List.length]. lia. }
            assert (Hkey1 : nkey (cur s) = render ((done ++ [TCatch cn]) ++ kt1)) by (rewrite <- app_assoc; exact Hk).
            assert (Hcmnsc : cmn sc = e) by (change (cmn sc) with (cmn s + (e - cmn s)); unfold e; lia).
            assert (Helt : e < List.length (nkey (cur s))).
            { rewrite Hkey1, render_app, app_length, Hdone1. unfold kt1. rewrite render_cons_len.
              pose proof (render_tok_len_pos t'). lia. }
            pose proof (pcatch_loop_t sl L lazy path ino (fun q => kmt sl n (Kt sl n) (sub0t sl ch) None [] kt1 q)
                          (fun v => if starts_with "/" v then TN None
                                    else TN (cwith [(cn, v)] (exh sl pm n (done ++ [TCatch cn]) kt1)))
                          (Ck + 6) 3 (cm s) prm
                          (cur s) (cmn sc) (pkc s) (sks s) (ps s) (par s) HL Hsl Hfresh Hprm) as Hloop.
            assert (Hfin : forall f1 s1, cinvt (cur s) (cmn sc) (pkc s) (sks s) (ps s) (par s) s1 ->
                      (cm s1 = cm s \/ nth_error path (cm s) <> Some "/") ->
                      (index_byte (skipn (cm s1) path) "/" = Some 0 \/ index_byte (skipn (cm s1) path) "/" = None) ->
                      3 <= S f1 ->
                      match (if starts_with "/" (skipn (cm s) path) then TN None
                             else TN (cwith [(cn, skipn (cm s) path)] (exh sl pm n (done ++ [TCatch cn]) kt1))) with
                      | TD l kv => found_as (lbp (S f1) path lazy (PCatch ino (cm s)) s1) l (addp lazy (ps s) kv)
                      | TN c1 =>
                        exists fuel' s', lbp (S f1) path lazy (PCatch ino (cm s)) s1 = lbp fuel' path lazy PBack s' /\
                          S f1 <= fuel' + 3 /\ sks s' = sks s /\ extends (ps s) (ps s') /\ pkc s' = 0 /\
                          upd lazy (ps s) (rg s1) c1 (rg s')
                      end).
            { intros f1 s1 (Hi1 & Hi2 & Hi3 & Hi4 & Hi5 & Hi6) Hstart Hidx Hf1.
              rewrite Ep. cbn [starts_with].
              assert (Hprm1 : nth_error (nparams (cur s1)) (pkc s1) = Some prm) by (rewrite Hi1, Hi3; exact Hprm).
              destruct (Ascii.eqb_spec c "/") as [Hcs|Hcs].
              - (* value starting with '/': break Walk, nothing recorded *)
                subst c. destruct Hstart as [Hst1|Hst1]; [|congruence].
                rewrite (pcatch_fin_slash f1 path lazy ino (cm s) s1 prm e Hprm1 Hpe' Hpc0 Hidx).
                destruct (Hmid s1 ltac:(lia) ltac:(rewrite Hi1, Hi2, Hcmnsc; exact Helt) ltac:(lia) f1 ltac:(lia))
                  as (f' & s' & He & Hf' & H1 & H2 & H3 & H4).
                exists f', s'. split; [exact He|]. repeat split; auto; try lia; try congruence.
                all: try (rewrite <- Hi5; exact H4).
              - rewrite (pcatch_fin_val f1 path lazy ino (cm s) s1 prm e c Hprm1 Hpe' Hpc0 Hcs Hidx).
                set (s2 := fin_st lazy path s1 prm (cm s)).
                assert (Hps2 : ps s2 = addp lazy (ps s) [(cn, skipn (cm s) path)])
                  by (unfold s2, fin_st; cbn [ps]; rewrite Hi5, Hpk; reflexivity).
                rewrite Ep in Hps2.
                destruct f1 as [|f2]; [lia|].
                assert (Hb : backst path lazy (S f2) PAfter s2 1 (exh sl pm n (done ++ [TCatch cn]) kt1)).
                { apply backst_after; auto; try lia.
                  - apply cmn_lt_nofound. change (cmn s2) with (cmn s1). change (cur s2) with (cur s1).
                    rewrite Hi1, Hi2, Hcmnsc. exact Helt.
                  - apply after_cand_exh; auto.
                    + change (cur s2) with (cur s1). rewrite Hi1. exact Hkey1.
                    + discriminate.
                    + change (cmn s2) with (cmn s1). rewrite Hi2, Hcmnsc, Hdone1. reflexivity.
                    + change (par s2) with (par s1). rewrite Hi6. exact Hpar.
                    + change (cur s2) with (cur s1). rewrite Hi1. exact Hrt. }
                destruct Hb as (f' & s' & He & Hf' & H1 & H2 & H3 & H4).
                exists f', s'. split; [exact He|]. repeat split; auto; try lia.
                + change (sks s2) with (sks s1) in H1. congruence.
                + eapply extends_trans; [|exact H2]. rewrite Hps2. apply extends_addp_self.
                + apply upd_cwith. rewrite <- Hps2. exact H4. }
            specialize (Hloop Hfin (S (List.length (c :: p'))) sc [] (c :: p') f).
            assert (Hinv : cinvt (cur s) (cmn sc) (pkc s) (sks s) (ps s) (par s) sc) by (repeat split; auto).
            specialize (Hloop Hinv Ep (Nat.le_refl _) Hcm Hv0 (or_introl eq_refl) (Nat.lt_succ_diag_r _)).
            assert (Hfu : (List.length (c :: p') + 1) * (Ck + 6 + 2) + 3 + 1 <= f).
            { unfold kt1 in Hf. rewrite kcost_catch_cons in Hf. fold kt1 in Hf. fold Ck in Hf.
              assert ((L + 2) * (8 + Ck) >= (List.length (c :: p') + 2) * (8 + Ck)) by (apply Nat.mul_le_mono_r; lia). nia. }
            specialize (Hloop Hfu). rewrite Hpk in Hloop. change (rg sc) with (rg s) in Hloop.
            match type of Hloop with match ?X with _ => _ end =>
              match goal with |- tres_ok _ _ _ _ _ _ ?Y => change Y with X; destruct X as [l kvs|c2] end end;
              cbn [tres_ok].
            + destruct Hloop as (l' & tps' & E & Er). exists l', tps'. rewrite Hstep, E. auto.
            + destruct Hloop as (f' & s' & He & Hf' & H1 & H2 & H3 & H4). exists f', s'.
              split; [rewrite Hstep; exact He|]. repeat split; auto.
              unfold kt1. rewrite kcost_catch_cons. fold kt1. fold Ck.
              assert ((L + 2) * (8 + Ck) >= (List.length (c :: p') + 2) * (8 + Ck)) by (apply Nat.mul_le_mono_r; lia). nia. }
      destruct t as [d|nm|nm]; [| |discriminate].
      * (* static byte *)
        simpl in Hkey, Hokt1. cbn [kmt].
        destruct fuel as [|f]; [lia|].
        pose proof (inner_static_step f path lazy (cmn s) s d c Hkey Hpc0 Hokt1) as Hstep.
        destruct (Ascii.eqb d c && sbyte c) eqn:E.
        -- assert (Hr1 : List.length (render (done ++ [TStatic d])) = S (List.length (render done)))
             by (rewrite render_app, app_length; simpl; lia).
           assert (Hcw : cnt_wild (done ++ [TStatic d]) = cnt_wild done).
           { unfold cnt_wild. rewrite filter_app, app_length. simpl. lia. }
           assert (IH' := IH (done ++ [TStatic d]) pm lazy path (adv s 1) f HL Hsl).
           rewrite <- app_assoc in IH'. simpl app in IH'.
           assert (Hd1 : forallb ptok_ok (done ++ [TStatic d]) = true)
             by (rewrite forallb_app, Hokd; simpl; rewrite Hokt1; reflexivity).
           specialize (IH' Hk Hrt Hch Hpar Hd1 Hokt2).
           specialize (IH' ltac:(change (cmn (adv s 1)) with (S (cmn s)); rewrite Hr1; lia)
                           ltac:(change (pkc (adv s 1)) with (pkc s); rewrite Hcw; exact Hpkc) Hpc
                           ltac:(change (cm (adv s 1)) with (S (cm s)); lia) ltac:(cbn [kcost] in Hf; lia)).
           change (cm (adv s 1)) with (S (cm s)) in IH'. rewrite Hp' in IH'.
           change (cmn (adv s 1)) with (S (cmn s)) in IH'.
           cbn [kcost].
           eapply (tres_step0 path lazy (S f) _ s _ f _ (adv s 1) (kcost L Csel C0 kt) 1);
             [exact Hstep|exact IH'|reflexivity|reflexivity|reflexivity|lia|lia].
        -- eapply (tres_step0 path lazy (S f) _ s _ f PAfter s 1 1); [exact Hstep| |reflexivity|reflexivity|reflexivity|lia|lia].
           cbn [tres_ok]. apply Hmid; auto; lia.
      * (* named parameter *)
        simpl in Hkey.
        destruct (param_info s done nm kt Hk) as (prm & Hprm & Hpk & Hadv); auto.
        destruct fuel as [|f]; [lia|].
        pose proof (inner_param_step f path lazy (cmn s) s c prm Hkey Hpc0 Hprm) as Hstep.
        rewrite Hadv, Hpk, Ep in Hstep.
        pose proof (index_byte_seg (c :: p')) as Hseg.
        cbn [kmt].
        assert (Hgen : forall cm', cm' = cm s + List.length (seg is_slash (c :: p')) ->
                  seg is_slash (c :: p') <> [] ->
                  List.length (seg is_slash (c :: p')) <= List.length (c :: p') ->
                  slice path (cm s) cm' = seg is_slash (c :: p') ->
                  lbp (S f) path lazy (PInner (cmn s)) s =
                  lbp f path lazy (PInner (cmn s + (List.length nm + 2)))
                    (pstate lazy s cm' (List.length nm + 2) nm (slice path (cm s) cm')) ->
                  tres_ok path lazy (S f) (PInner (cmn s)) s (kcost L Csel C0 (TParam nm :: kt))
                    match seg is_slash (c :: p') with
                    | [] => TN None
                    | a :: l => twith [(nm, a :: l)]
                                  (kmt sl n (Kt sl n) (sub0t sl ch) pm (done ++ [TParam nm]) kt (skipn (List.length (a :: l)) (c :: p')))
                    end).
        { intros cm' Hcm' Hvne Hvlen Hslice Hst. clear Hseg.
          destruct (seg is_slash (c :: p')) as [|v0 vv] eqn:Ev; [congruence|]. set (v := v0 :: vv) in *.
          rewrite Hslice in Hst. set (s1 := pstate lazy s cm' (List.length nm + 2) nm v) in *.
          assert (Hr1 : List.length (render (done ++ [TParam nm])) = List.length (render done) + (List.length nm + 2)).
          { rewrite render_app, app_length. f_equal. change (render [TParam nm]) with (("{" :: nm ++ ["}"]) ++ []).
            rewrite app_nil_r. cbn [List.length]. rewrite app_length. simpl. lia. }
          assert (Hcw : cnt_wild (done ++ [TParam nm]) = S (cnt_wild done)).
          { unfold cnt_wild. rewrite filter_app, app_length. simpl. lia. }
          assert (Hlenp : List.length (c :: p') = List.length path - cm s) by (rewrite <- Ep; apply skipn_length).
          assert (IH' := IH (done ++ [TParam nm]) pm lazy path s1 f HL Hsl).
          rewrite <- app_assoc in IH'. simpl app in IH'.
          assert (Hd1 : forallb ptok_ok (done ++ [TParam nm]) = true)
            by (rewrite forallb_app, Hokd; cbn [forallb]; rewrite Hokt1; reflexivity).
          specialize (IH' Hk Hrt Hch Hpar Hd1 Hokt2).
          specialize (IH' ltac:(change (cmn s1) with (cmn s + (List.length nm + 2)); rewrite Hr1; lia)
                          ltac:(change (pkc s1) with (S (pkc s)); rewrite Hcw, Hpkc; reflexivity)).
          assert (Hpc1 : pcnt s1 = List.length (ps s1)).
          { unfold s1, pstate; cbn [pcnt ps]. destruct lazy; auto. rewrite app_length. simpl. lia. }
          specialize (IH' Hpc1 ltac:(change (cm s1) with cm'; lia) ltac:(cbn [kcost] in Hf; lia)).
          change (cm s1) with cm' in IH'.
          assert (Hsk : skipn cm' path = skipn (List.length v) (c :: p')).
          { rewrite <- Ep, skipn_skipn'. f_equal. lia. }
          rewrite Hsk in IH'.
          cbn [kcost].
          eapply (tres_step path lazy (S f) _ s _ f _ s1 (kcost L Csel C0 kt) 1 [(nm, v)]);
            [exact Hst|exact IH'|reflexivity|reflexivity|reflexivity|lia|lia]. }
        destruct (index_byte (c :: p') "/") as [[|dd]|] eqn:Eidx.
        -- (* empty segment *)
           destruct Hseg as (Hs1 & _ & _). rewrite Hs1. cbn [firstn].
           eapply (tres_step0 path lazy (S f) _ s _ f PAfter s 1 1); [exact Hstep| |reflexivity|reflexivity|reflexivity|lia|lia].
           cbn [tres_ok]. apply Hmid; auto; lia.
        -- destruct Hseg as (Hs1 & Hs2 & Hs3). cbv zeta in Hstep.
           apply (Hgen (cm s + S dd)); auto.
           ++ rewrite Hs1. simpl. discriminate.
           ++ lia.
           ++ unfold slice. rewrite Ep, Hs1. f_equal. lia.
        -- cbv zeta in Hstep.
           assert (Hlenp : List.length (c :: p') = List.length path - cm s) by (rewrite <- Ep; apply skipn_length).
           apply (Hgen (List.length path)); auto.
           ++ rewrite Hseg, Hlenp. lia.
           ++ rewrite Hseg. discriminate.
           ++ rewrite Hseg. lia.
           ++ unfold slice. rewrite Ep, Hseg, <- Hlenp. apply firstn_all.
Qed.


Lemma fresh_of_walk_t sl L c0 : walk_okt sl L c0 -> fresh_okt sl L c0 (m2t sl None c0) (ncost L c0 + 8).
Proof.
  intros Hwalk q fuel Hne HL Hsl Hf. destruct q as [|c q]; [congruence|].
  pose proof (Hwalk None false (c :: q) fuel (init_st c0 [] []) HL Hsl eq_refl I) as H.
  simpl cm in H. simpl skipn in H.
  specialize (H ltac:(simpl; lia) eq_refl eq_refl ltac:(lia)).
  eapply fresh_of_tres; eauto; try reflexivity. lia.
Qed.

Lemma walk_m2t sl L : forall n pre, pwf pre n -> walk_okt sl L n.
Proof.
  induction n as [k r ch IH] using node_ind'. intros pre Hwf.
  pose proof (pwf_inv _ _ _ _ Hwf) as (kt & Hne & Hk & Hok & Hr & Hnd & Hch).
  rewrite Forall_forall in IH, Hch.
  assert (Hwalk : forall x, In x ch -> walk_okt sl L x) by (intros x Hx; apply (IH x Hx (pre ++ k)); auto).
  pose proof (sel_okt_node sl L (Node k r ch) Hnd Hwalk) as Hsel. cbn [nchildren] in Hsel.
  assert (Hc0 : match ch with c0 :: _ => fresh_okt sl L c0 (m2t sl None c0) (c0cost L ch) | [] => True end).
  { destruct ch as [|c0 ch']; [exact I|]. cbn [c0cost].
    apply (fresh_of_walk_t sl L). apply Hwalk. left; reflexivity. }
  intros pm lazy path fuel s HL Hsl Hcur Hpar Hlt Hpkc Hpc Hfuel.
  rewrite ncost_eq in *.
  assert (Htk : tokenize k = kt) by (rewrite Hk; apply tokenize_render; eapply kt_ok_tok; eauto).
  rewrite Htk in *.
  destruct fuel as [|f1]; [lia|].
  pose proof (walk_lt' f1 path lazy s Hlt) as Hw.
  set (s0 := reset_cmn s) in *.
  pose proof (key_walk_t sl L (Node k r ch) _ Hsel Hc0 kt [] pm lazy path s0 f1 HL Hsl) as Hkw.
  simpl app in Hkw. change (cur s0) with (cur s) in Hkw. rewrite Hcur in Hkw. cbn [nkey nroute nchildren] in Hkw.
  specialize (Hkw Hk eq_refl eq_refl Hpar eq_refl Hok eq_refl Hpkc Hpc
                  ltac:(change (cm s0) with (cm s); lia) ltac:(lia)).
  change (cm s0) with (cm s) in Hkw. change (cmn s0) with 0 in Hkw.
  rewrite m2t_eq, Htk.
  eapply (tres_step0 path lazy (S f1) PWalk s _ f1 _ s0 _ 1); [exact Hw|exact Hkw|reflexivity|reflexivity|reflexivity|lia|lia].
Qed.

(* ------------------------------------------------------------------ *)
(* M1 = M2t                                                             *)
(* ------------------------------------------------------------------ *)
(* what lookupByPath returns: node (up to the truncated copy), tsr flag, params or tsrParams *)
Definition tsr_res (r : lres) (lazy : bool) (t : tres) : Prop :=
  match t with
  | TD l vals => found_as r l (addp lazy [] vals)
  | TN None => exists ps', r = Found None false ps' []
  | TN (Some (l, vals)) => exists l' ps', r = Found (Some l') true ps' (addp lazy [] vals) /\ nroute l' = nroute l
  end.

Theorem lbp_eq_m2t t path lazy fuel : pwf [] t -> path <> [] -> m2_fuel path t <= fuel ->
  tsr_res (lookup_by_path fuel t path lazy [] []) lazy (m2t (has_suffix_slash path) None t path).
Proof.
  intros Hwf Hne Hf. unfold lookup_by_path, m2_fuel in *.
  destruct path as [|c path]; [congruence|].
  pose proof (walk_m2t (has_suffix_slash (c :: path)) (List.length (c :: path)) t [] Hwf None lazy (c :: path) fuel
                (init_st t [] []) (Nat.le_refl _) eq_refl eq_refl I) as H.
  simpl cm in H. simpl skipn in H.
  specialize (H ltac:(simpl; lia) eq_refl eq_refl ltac:(lia)).
  destruct (m2t (has_suffix_slash (c :: path)) None t (c :: path)) as [l vals|cd]; cbn [tres_ok tsr_res] in *.
  - exact H.
  - destruct H as (f' & s' & -> & Hf' & Hs & _ & _ & Hu). simpl in Hs.
    destruct f' as [|f']; [lia|]. rewrite back_nil by exact Hs.
    unfold upd, rg in Hu. simpl in Hu. destruct cd as [[l v]|].
    + destruct Hu as (l' & Hu & Hl). exists l', (ps s'). split; [|exact Hl].
      destruct lazy; simpl in *; congruence.
    + exists (ps s'). congruence.
Qed.
