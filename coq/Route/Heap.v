(* Heap — the transaction code of tree.go at OBJECT level (C03).

   Tree.v models insert / update / remove / truncate on pure trees: a snapshot
   is a value and cannot change by construction.  The property "a published
   routing state never changes" is about ALIASING in the Go code, so here the
   same code is transliterated over an explicit heap:

     - node objects   addr -> {key; route; arr}     (arr = identity of the children backing array)
     - array objects  addr -> list addr              (children arrays AND roots arrays; separate
                                                      objects, so that sharing is expressible)
     - one bump allocator (s_next) for both kinds;
     - clone            allocates a node and a COPY of its children array      (node.go:744-749)
       newNodeFromRef   allocates a node SHARING the given array               (node.go:681-702)
       newNode          SORTS the given array IN PLACE, then newNodeFromRef    (node.go:661-679)
       updateEdge       overwrites ONE SLOT of a children array in place       (node.go:727-742)
       updateRoot / addRoot / removeRoot / truncate  copy the roots array      (tree.go:560-634)
     - the `writable` LRU (tree.go:47-55,100-106; internal/simplelru) is a list of
       addresses (most recent first) with an ARBITRARY eviction function
       [evict clock w] applied after every access (Get and Add); the theorems
       only assume that eviction removes elements, so they cover capacity 4096
       with the LRU policy (instance [lru_evict]) and every other policy/schedule.

   Derived node fields (childKeys, paramChildIndex, wildcardChildIndex, params,
   inode chain) are functions of key/route/children exactly as in Node.v; the
   inode objects share the children array of their owner and are never written,
   they are not represented.  An empty/nil children slice is an (unshared, never
   written) empty array object; the correspondence check ignores the identity
   of empty arrays (Go has none: ChildrenAddr = 0).

   Control flow follows the Go code statement by statement (p, pp, ppp, the
   `n.key = method` root patch, the t.cache flag).  Nil dereferences, failed
   index expressions and the explicit panics are outcome [Panic]; the two
   bounded traversals (route listing of a subtree) take fuel, outcome [Oof]. *)
From Coq Require Import FMapPositive.
From FoxBase Require Import Bytes.
From FoxRoute Require Import Node Tree.

Module PM := PositiveMap.
Definition addr := positive.

Record nobj := { n_key : bytes; n_route : option route; n_arr : addr }.

(* heap + the fields of the current tXn (tree.go:47-55) *)
Record st := mkst {
  s_nodes : PM.t nobj; s_arrs : PM.t (list addr); s_next : addr;
  s_root : addr;                (* t.root: address of the roots array *)
  s_size : Z; s_maxp : nat; s_depth : nat; s_cache : bool;
  s_wr : list addr;             (* t.writable, most recently used first; [] = nil or empty *)
  s_clock : N;                  (* number of accesses to t.writable so far (index into the eviction schedule) *)
  s_log : list addr }.          (* GHOST: targets of the in-place writes so far, latest first (read by no operation) *)

Inductive res (A : Type) := Ok (a : A) | Panic | Oof.
Arguments Ok {A} a. Arguments Panic {A}. Arguments Oof {A}.

Definition M (A : Type) := st -> res (A * st).
Definition ret {A} (a : A) : M A := fun s => Ok (a, s).
Definition bind {A B} (m : M A) (k : A -> M B) : M B :=
  fun s => match m s with Ok (a, s') => k a s' | Panic => Panic | Oof => Oof end.
Definition panic {A} : M A := fun _ => Panic.
Definition oof {A} : M A := fun _ => Oof.

Notation "x <- m ;; k" := (bind m (fun x => k)) (at level 61, m at next level, right associativity).
Notation "' p <- m ;; k" := (bind m (fun x => let p := x in k)) (at level 61, p pattern, m at next level, right associativity).
Notation "m ;;; k" := (bind m (fun _ => k)) (at level 61, right associativity).

Definition opt_get {A} (o : option A) : M A := match o with Some a => ret a | None => panic end.

(* ---------- state setters ---------- *)
Definition set_heap (s : st) (n : PM.t nobj) (a : PM.t (list addr)) (nx : addr) : st :=
  mkst n a nx (s_root s) (s_size s) (s_maxp s) (s_depth s) (s_cache s) (s_wr s) (s_clock s) (s_log s).
(* an in-place write to the object at address t *)
Definition set_heap_w (s : st) (n : PM.t nobj) (a : PM.t (list addr)) (t : addr) : st :=
  mkst n a (s_next s) (s_root s) (s_size s) (s_maxp s) (s_depth s) (s_cache s) (s_wr s) (s_clock s) (t :: s_log s).
Definition set_root_st (s : st) (r : addr) : st :=
  mkst (s_nodes s) (s_arrs s) (s_next s) r (s_size s) (s_maxp s) (s_depth s) (s_cache s) (s_wr s) (s_clock s) (s_log s).
Definition set_meta (s : st) (sz : Z) (mp d : nat) : st :=
  mkst (s_nodes s) (s_arrs s) (s_next s) (s_root s) sz mp d (s_cache s) (s_wr s) (s_clock s) (s_log s).
Definition set_wr (s : st) (w : list addr) (c : N) : st :=
  mkst (s_nodes s) (s_arrs s) (s_next s) (s_root s) (s_size s) (s_maxp s) (s_depth s) (s_cache s) w c (s_log s).

(* ---------- heap primitives ---------- *)
Definition alloc_node (o : nobj) : M addr := fun s =>
  Ok (s_next s, set_heap s (PM.add (s_next s) o (s_nodes s)) (s_arrs s) (Pos.succ (s_next s))).
Definition alloc_arr (l : list addr) : M addr := fun s =>
  Ok (s_next s, set_heap s (s_nodes s) (PM.add (s_next s) l (s_arrs s)) (Pos.succ (s_next s))).
Definition get_node (a : addr) : M nobj := fun s =>
  match PM.find a (s_nodes s) with Some o => Ok (o, s) | None => Panic end.
Definition get_arr (a : addr) : M (list addr) := fun s =>
  match PM.find a (s_arrs s) with Some l => Ok (l, s) | None => Panic end.

Fixpoint set_nth {A} (l : list A) (i : nat) (v : A) : list A :=
  match l, i with
  | _ :: r, O => v :: r
  | x :: r, S i => x :: set_nth r i v
  | [], _ => []
  end.
Fixpoint del_nth {A} (l : list A) (i : nat) : list A :=
  match l, i with
  | _ :: r, O => r
  | x :: r, S i => x :: del_nth r i
  | [], _ => []
  end.

(* IN-PLACE WRITES: the only three ways an existing object changes *)
(* a[i] = v *)
Definition write_slot (a : addr) (i : nat) (v : addr) : M unit := fun s =>
  match PM.find a (s_arrs s) with
  | Some l => if Nat.ltb i (List.length l)
              then Ok (tt, set_heap_w s (s_nodes s) (PM.add a (set_nth l i v) (s_arrs s)) a)
              else Panic
  | None => Panic
  end.
(* the contents of the backing array a are rearranged (sort; the in-place shift of truncate) *)
Definition write_arr (a : addr) (l : list addr) : M unit := fun s =>
  match PM.find a (s_arrs s) with
  | Some _ => Ok (tt, set_heap_w s (s_nodes s) (PM.add a l (s_arrs s)) a)
  | None => Panic
  end.
(* n.key = k *)
Definition set_key (a : addr) (k : bytes) : M unit := fun s =>
  match PM.find a (s_nodes s) with
  | Some o => Ok (tt, set_heap_w s (PM.add a {| n_key := k; n_route := n_route o; n_arr := n_arr o |} (s_nodes s)) (s_arrs s) a)
  | None => Panic
  end.

(* ---------- tXn fields ---------- *)
Definition get_root : M addr := fun s => Ok (s_root s, s).
Definition set_root (r : addr) : M unit := fun s => Ok (tt, set_root_st s r).
Definition get_cache : M bool := fun s => Ok (s_cache s, s).
Definition bump_size (d : Z) : M unit := fun s => Ok (tt, set_meta s (s_size s + d)%Z (s_maxp s) (s_depth s)).
Definition put_size (z : Z) : M unit := fun s => Ok (tt, set_meta s z (s_maxp s) (s_depth s)).
Definition upd_maxp (m : nat) : M unit := fun s => Ok (tt, set_meta s (s_size s) (Nat.max (s_maxp s) m) (s_depth s)).
Definition upd_depth (d : nat) : M unit := fun s => Ok (tt, set_meta s (s_size s) (s_maxp s) (Nat.max (s_depth s) d)).

Definition rm (a : addr) (l : list addr) : list addr := filter (fun x => negb (Pos.eqb x a)) l.
(* Some l' = a occurs in l and l' is l without its first occurrence (one pass; hits are near the front) *)
Fixpoint take_out (a : addr) (l : list addr) : option (list addr) :=
  match l with
  | [] => None
  | x :: r => if Pos.eqb x a then Some r
              else match take_out a r with Some r' => Some (x :: r') | None => None end
  end.

Section Model.
(* eviction schedule: what remains of the list after the c-th access *)
Variable evict : N -> list addr -> list addr.

(* t.writable.Get(p): a hit moves p to the front *)
Definition w_get (a : addr) : M bool := fun s =>
  match take_out a (s_wr s) with
  | Some w' => Ok (true, set_wr s (evict (s_clock s) (a :: w')) (N.succ (s_clock s)))
  | None => Ok (false, set_wr s (evict (s_clock s) (s_wr s)) (N.succ (s_clock s)))
  end.
(* t.writable.Add(n, nil) *)
Definition w_add (a : addr) : M unit := fun s =>
  Ok (tt, set_wr s (evict (s_clock s) (a :: match take_out a (s_wr s) with Some w' => w' | None => s_wr s end)) (N.succ (s_clock s))).
(* t.writable = nil *)
Definition w_reset : M unit := fun s => Ok (tt, set_wr s [] (s_clock s)).
Definition w_add_if_cache (a : addr) : M unit := c <- get_cache ;; if c then w_add a else ret tt.

(* ---------- node helpers ---------- *)
Definition key_of (a : addr) : M bytes := o <- get_node a ;; ret (n_key o).
Fixpoint keys_of (l : list addr) : M (list bytes) :=
  match l with
  | [] => ret []
  | a :: r => k <- key_of a ;; ks <- keys_of r ;; ret (k :: ks)
  end.

(* linearSearch / binarySearch in childKeys: index of the child whose key starts with c *)
Fixpoint find_idx_from (i : nat) (c : ascii) (ks : list bytes) : option nat :=
  match ks with
  | [] => None
  | k :: r => if starts_with c k then Some i else find_idx_from (S i) c r
  end.

(* n.getEdge(c)  (node.go:712-725) *)
Definition get_edge (n : addr) (c : ascii) : M (option addr) :=
  o <- get_node n ;; ch <- get_arr (n_arr o) ;; ks <- keys_of ch ;;
  match find_idx_from 0 c ks with
  | Some i => ret (nth_error ch i)
  | None => ret None
  end.

(* n.updateEdge(nd)  (node.go:727-742): the slot is found by the first byte of nd.key *)
Definition update_edge (n nd : addr) : M unit :=
  k <- key_of nd ;;
  match k with
  | [] => panic
  | c :: _ =>
      o <- get_node n ;; ch <- get_arr (n_arr o) ;; ks <- keys_of ch ;;
      match find_idx_from 0 c ks with
      | Some i => write_slot (n_arr o) i nd
      | None => panic
      end
  end.

(* n.clone()  (node.go:744-749): new node, COPIED children array *)
Definition clone (n : addr) : M addr :=
  o <- get_node n ;; ch <- get_arr (n_arr o) ;;
  a <- alloc_arr ch ;;
  alloc_node {| n_key := n_key o; n_route := n_route o; n_arr := a |}.

(* newNodeFromRef: new node SHARING the array *)
Definition new_node_from_ref (k : bytes) (r : option route) (arr : addr) : M addr :=
  alloc_node {| n_key := k; n_route := r; n_arr := arr |}.

(* slices.SortFunc(children, by key) as insertion sort on (key, address) pairs; keys are
   distinct wherever the code sorts, so every sorting algorithm gives this result *)
(* Node.bytes_ltb with the byte comparison done in N (binary) instead of nat (unary);
   HeapProofs.key_ltb_eq shows they are the same function *)
Fixpoint key_ltb (a b : bytes) : bool :=
  match a, b with
  | _, [] => false
  | [], _ :: _ => true
  | x :: a', y :: b' =>
      let nx := N_of_ascii x in let ny := N_of_ascii y in
      if N.ltb nx ny then true else if N.ltb ny nx then false else key_ltb a' b'
  end.
Fixpoint ins_sorted (x : bytes * addr) (l : list (bytes * addr)) : list (bytes * addr) :=
  match l with
  | [] => [x]
  | m :: r => if key_ltb (fst m) (fst x) then m :: ins_sorted x r else x :: l
  end.
Definition sort_pairs (l : list (bytes * addr)) : list (bytes * addr) := fold_right ins_sorted [] l.

(* newNode (node.go:661-679): sorts the array it is given IN PLACE *)
Definition new_node (k : bytes) (r : option route) (arr : addr) : M addr :=
  ch <- get_arr arr ;; ks <- keys_of ch ;;
  write_arr arr (map snd (sort_pairs (combine ks ch))) ;;;
  new_node_from_ref k r arr.

(* ---------- roots ---------- *)
Fixpoint find_eq_from (i : nat) (m : bytes) (ks : list bytes) : option nat :=
  match ks with
  | [] => None
  | k :: r => if bytes_eqb k m then Some i else find_eq_from (S i) m r
  end.

(* roots.methodIndex (node.go:18-37) on the roots array at ra *)
Definition method_index_at (ra : addr) (m : bytes) : M (option nat) :=
  if bytes_eqb m m_get then ret (Some 0)
  else if bytes_eqb m m_post then ret (Some 1)
  else if bytes_eqb m m_put then ret (Some 2)
  else if bytes_eqb m m_delete then ret (Some 3)
  else rs <- get_arr ra ;; ks <- keys_of (skipn 4 rs) ;; ret (find_eq_from 4 m ks).
Definition h_method_index (m : bytes) : M (option nat) := ra <- get_root ;; method_index_at ra m.
Definition get_roots : M (list addr) := ra <- get_root ;; get_arr ra.

(* addRoot / updateRoot / removeRoot (tree.go:560-595): always a NEW roots array *)
Definition add_root (n : addr) : M unit :=
  rs <- get_roots ;; a <- alloc_arr (rs ++ [n]) ;; set_root a.
Definition update_root (n : addr) : M bool :=
  k <- key_of n ;; idx <- h_method_index k ;;
  match idx with
  | None => ret false
  | Some i => rs <- get_roots ;;
      if Nat.ltb i (List.length rs) then a <- alloc_arr (set_nth rs i n) ;; set_root a ;;; ret true
      else panic
  end.
Definition remove_root (m : bytes) : M bool :=
  idx <- h_method_index m ;;
  match idx with
  | None => ret false
  | Some i => rs <- get_roots ;;
      if Nat.ltb i (List.length rs) then a <- alloc_arr (del_nth rs i) ;; set_root a ;;; ret true
      else panic
  end.

(* ---------- copyOnWriteSearch (tree.go:99-170) ---------- *)
Record sres := { r_matched : addr; r_p : option addr; r_pp : option addr; r_ppp : option addr;
                 r_rest : bytes;      (* path[charsMatched:] *)
                 r_from : bytes;      (* path[charsMatched-charsMatchedInNodeFound:] *)
                 r_cm : nat; r_cmin : nat; r_depth : nat }.

(* the inner for loop: (charsMatchedInNodeFound, remaining path, break STOP taken) *)
Fixpoint match_key (key rest : bytes) : nat * bytes * bool :=
  match rest with
  | [] => (0, [], false)
  | c :: rest' =>
    match key with
    | [] => (0, rest, false)
    | k :: key' => if Ascii.eqb k c then let '(n, r, stop) := match_key key' rest' in (S n, r, stop)
                   else (0, rest, true)
    end
  end.

Fixpoint cow_loop (fuel : nat) (cur : addr) (p pp ppp : option addr) (rest from : bytes) (cm cmin depth : nat) : M sres :=
  let stop := ret {| r_matched := cur; r_p := p; r_pp := pp; r_ppp := ppp; r_rest := rest; r_from := from;
                     r_cm := cm; r_cmin := cmin; r_depth := depth |} in
  match fuel with O => oof | S f =>
  match rest with
  | [] => stop
  | c :: _ =>
    next <- get_edge cur c ;;
    match next with
    | None => stop
    | Some nx =>
        (* depth++; ppp = pp; pp = p; p = current *)
        hit <- w_get cur ;;
        p' <- (if hit then ret cur
               else cp <- clone cur ;;
                    w_add_if_cache cp ;;;
                    (match p with None => update_root cp ;;; ret tt | Some q => update_edge q cp end) ;;;
                    ret cp) ;;
        (* current = next *)
        key <- key_of nx ;;
        let '(n, rest', brk) := match_key key rest in
        if brk then ret {| r_matched := nx; r_p := Some p'; r_pp := p; r_ppp := pp; r_rest := rest'; r_from := rest;
                           r_cm := cm + n; r_cmin := n; r_depth := S depth |}
        else cow_loop f nx (Some p') p pp rest' rest (cm + n) n (S depth)
    end
  end end.

Definition cow_search (rootNode : addr) (path : bytes) : M sres :=
  cow_loop (S (List.length path)) rootNode None None None path path 0 0 0.

Inductive rtype := ExactMatch | IncToEnd | IncToMiddle | KeyEndMidEdge.

(* searchResult.classify (tree.go:728-747); None = panic("cannot classify") *)
Definition classify (r : sres) (klen : nat) : option rtype :=
  match r_rest r with
  | [] => if Nat.eqb (r_cmin r) klen then Some ExactMatch
          else if Nat.ltb (r_cmin r) klen then Some KeyEndMidEdge else None
  | _ :: _ => if Nat.eqb (r_cmin r) klen || match r_p r with None => true | Some _ => false end then Some IncToEnd
              else if Nat.ltb (r_cmin r) klen then Some IncToMiddle else None
  end.
Definition is_exact (r : sres) (klen : nat) : bool :=
  match r_rest r with [] => Nat.eqb (r_cmin r) klen | _ => false end.

(* ---------- tXn.insert (tree.go:173-395) ---------- *)
Inductive ins_out := IOk | IExist (pat : bytes) | IConflict (at_node : addr).

(* the node(s) for a brand new suffix (host/path split rule, tree.go:275-286, 360-372) *)
Definition h_new_leaf (ri : rinfo) (cm : nat) (suffix : bytes) : M (addr * nat) :=
  if Nat.ltb 0 (ri_hostsplit ri) && Nat.ltb cm (ri_hostsplit ri) then
    let h := ri_hostsplit ri - cm in
    e <- alloc_arr [] ;; pc <- new_node (skipn h suffix) (Some (ri_route ri)) e ;;
    a <- alloc_arr [pc] ;; c <- new_node (firstn h suffix) None a ;; ret (c, 2)
  else e <- alloc_arr [] ;; c <- new_node suffix (Some (ri_route ri)) e ;; ret (c, 1).

Definition h_insert (method : bytes) (ri : rinfo) : M ins_out :=
  idx <- h_method_index method ;;
  rootNode <- (match idx with
               | None => e <- alloc_arr [] ;;
                         rn <- alloc_node {| n_key := method; n_route := None; n_arr := e |} ;;
                         add_root rn ;;; ret rn
               | Some i => rs <- get_roots ;; opt_get (nth_error rs i)
               end) ;;
  let path := rpat (ri_route ri) in
  r <- cow_search rootNode path ;;
  mo <- get_node (r_matched r) ;;
  match classify r (List.length (n_key mo)) with
  | None => panic
  | Some ExactMatch =>
      match n_route mo with
      | Some rt => ret (IExist (rpat rt))
      | None =>
          n <- new_node_from_ref (n_key mo) (Some (ri_route ri)) (n_arr mo) ;;
          bump_size 1 ;;; upd_maxp (ri_pslen ri) ;;;
          p <- opt_get (r_p r) ;; update_edge p n ;;; ret IOk
      end
  | Some KeyEndMidEdge =>
      let cp := common_prefix (r_from r) (n_key mo) in
      let suffix := skipn (List.length cp) (n_key mo) in
      child <- new_node_from_ref suffix (n_route mo) (n_arr mo) ;;
      a <- alloc_arr [child] ;;
      parent <- new_node cp (Some (ri_route ri)) a ;;
      bump_size 1 ;;; upd_maxp (ri_pslen ri) ;;; upd_depth (r_depth r + 1) ;;;
      p <- opt_get (r_p r) ;; update_edge p parent ;;; ret IOk
  | Some IncToEnd =>
      '(child, add) <- h_new_leaf ri (r_cm r) (r_rest r) ;;
      ch <- get_arr (n_arr mo) ;;
      a <- alloc_arr (ch ++ [child]) ;;          (* getEdges() copy + append *)
      n <- new_node (n_key mo) (n_route mo) a ;;
      bump_size 1 ;;; upd_depth (r_depth r + add) ;;; upd_maxp (ri_pslen ri) ;;;
      if Pos.eqb (r_matched r) rootNode then
        set_key n method ;;; w_add_if_cache n ;;; update_root n ;;; ret IOk
      else p <- opt_get (r_p r) ;; update_edge p n ;;; ret IOk
  | Some IncToMiddle =>
      let cp := common_prefix (r_from r) (n_key mo) in
      if prefix_conflict (Nat.leb (r_cm r) (ri_hostsplit ri)) cp then ret (IConflict (r_matched r))
      else
        let suffix := skipn (List.length cp) (n_key mo) in
        '(n1, add) <- h_new_leaf ri (r_cm r) (r_rest r) ;;
        n2 <- new_node_from_ref suffix (n_route mo) (n_arr mo) ;;
        a <- alloc_arr [n1; n2] ;;
        n3 <- new_node cp None a ;;
        bump_size 1 ;;; upd_depth (r_depth r + add) ;;; upd_maxp (ri_pslen ri) ;;;
        p <- opt_get (r_p r) ;; update_edge p n3 ;;; ret IOk
  end.

(* ---------- tXn.update (tree.go:398-423); false = ErrRouteNotFound ---------- *)
Definition h_update (method : bytes) (ri : rinfo) : M bool :=
  idx <- h_method_index method ;;
  match idx with
  | None => ret false
  | Some i =>
      rs <- get_roots ;; rn <- opt_get (nth_error rs i) ;;
      r <- cow_search rn (rpat (ri_route ri)) ;;
      mo <- get_node (r_matched r) ;;
      match is_exact r (List.length (n_key mo)), n_route mo with
      | true, Some _ =>
          n <- new_node_from_ref (n_key mo) (Some (ri_route ri)) (n_arr mo) ;;
          p <- opt_get (r_p r) ;; update_edge p n ;;; ret true
      | _, _ => ret false
      end
  end.

(* ---------- tXn.remove (tree.go:426-557) ---------- *)
(* recreateParentEdge: a new slice with the children of parent minus matched *)
Definition recreate_parent_edge (parent matched : addr) : M addr :=
  o <- get_node parent ;; ch <- get_arr (n_arr o) ;;
  let l := rm matched ch in
  if Nat.eqb (S (List.length l)) (List.length ch) then alloc_arr l else panic.

Definition is_some {A} (o : option A) : bool := match o with Some _ => true | None => false end.

(* the tail shared by the two "rebuilt parent" branches when that parent is the method root *)
Definition finish_root (method : bytes) (parent : addr) : M bool :=
  po <- get_node parent ;; pch <- get_arr (n_arr po) ;;
  if is_nil pch && is_removable method then remove_root method
  else set_key parent method ;;; w_add_if_cache parent ;;; update_root parent ;;; ret true.

(* a node for [edges] under the key/route of node o: merged with its single child, or newNode *)
Definition rebuild_parent (o : nobj) (edges : addr) (may_merge : bool) (slash_rule : bool) : M addr :=
  el <- get_arr edges ;;
  match el with
  | [c] =>
      co <- get_node c ;;
      if may_merge && negb (is_some (n_route o)) && negb (slash_rule && starts_with "/"%char (n_key co))
      then new_node_from_ref (n_key o ++ n_key co) (n_route co) (n_arr co)
      else new_node (n_key o) (n_route o) edges
  | _ => new_node (n_key o) (n_route o) edges
  end.

(* result: Some r = (matched, true) with matched.route = r; None = (nil/matched, false) *)
Definition h_remove (method path : bytes) : M (option route) :=
  idx <- h_method_index method ;;
  match idx with
  | None => ret None
  | Some i =>
      rs <- get_roots ;; rn <- opt_get (nth_error rs i) ;;
      r <- cow_search rn path ;;
      mo <- get_node (r_matched r) ;;
      match is_exact r (List.length (n_key mo)), n_route mo with
      | true, Some rt =>
          bump_size (-1) ;;;
          mch <- get_arr (n_arr mo) ;;
          match mch with
          | _ :: _ :: _ =>
              n <- new_node_from_ref (n_key mo) None (n_arr mo) ;;
              p <- opt_get (r_p r) ;; update_edge p n ;;; ret (Some rt)
          | [c] =>
              co <- get_node c ;;
              n <- new_node_from_ref (n_key mo ++ n_key co) (n_route co) (n_arr co) ;;
              p <- opt_get (r_p r) ;; update_edge p n ;;; ret (Some rt)
          | [] =>
              p <- opt_get (r_p r) ;; po <- get_node p ;;
              pe <- recreate_parent_edge p (r_matched r) ;;
              rs' <- get_roots ;; cur_root <- opt_get (nth_error rs' i) ;;
              let parent_is_root := Pos.eqb p cur_root in
              pel <- get_arr pe ;;
              if is_nil pel && negb (is_some (n_route po)) && negb parent_is_root then
                (* p was the result of a hostname/path split: drop it from pp *)
                pp <- opt_get (r_pp r) ;; ppo <- get_node pp ;;
                pe2 <- recreate_parent_edge pp p ;;
                let pp_is_root := Pos.eqb pp cur_root in
                parent <- rebuild_parent ppo pe2 (negb pp_is_root) true ;;
                if pp_is_root then b <- finish_root method parent ;; ret (if b then Some rt else None)
                else ppp <- opt_get (r_ppp r) ;; update_edge ppp parent ;;; ret (Some rt)
              else
                parent <- rebuild_parent po pe (negb parent_is_root) false ;;
                if parent_is_root then b <- finish_root method parent ;; ret (if b then Some rt else None)
                else pp <- opt_get (r_pp r) ;; update_edge pp parent ;;; ret (Some rt)
          end
      | _, _ => ret None
      end
  end.

(* ---------- tXn.truncate (tree.go:597-634) ---------- *)
(* rawIterator below a node: the routes in DFS pre-order (countRoutes, getRouteConflict) *)
Fixpoint h_routes (fuel : nat) (a : addr) : M (list route) :=
  match fuel with O => oof | S f =>
    o <- get_node a ;; ch <- get_arr (n_arr o) ;;
    rs <- (fix go (l : list addr) : M (list route) :=
             match l with
             | [] => ret []
             | x :: t => r <- h_routes f x ;; more <- go t ;; ret (r ++ more)
             end) ch ;;
    ret ((match n_route o with Some r => [r] | None => [] end) ++ rs)
  end.

Definition new_empty_root (k : bytes) : M addr :=
  e <- alloc_arr [] ;; alloc_node {| n_key := k; n_route := None; n_arr := e |}.

Fixpoint trunc_loop (fuel : nat) (nr : addr) (methods : list bytes) : M unit :=
  match methods with
  | [] => ret tt
  | m :: more =>
      idx <- method_index_at nr m ;;
      match idx with
      | None => trunc_loop fuel nr more
      | Some i =>
          l <- get_arr nr ;; root <- opt_get (nth_error l i) ;;
          rts <- h_routes fuel root ;;
          bump_size (- Z.of_nat (List.length rts)) ;;;
          (if negb (is_removable m)
           then nn <- new_empty_root (nth i common_verbs []) ;; write_slot nr i nn     (* nr[idx] = new(node) *)
           else write_arr nr (del_nth l i)) ;;;                                         (* nr = append(nr[:idx], nr[idx+1:]...) *)
          trunc_loop fuel nr more
      end
  end.

Fixpoint new_empty_roots (ks : list bytes) : M (list addr) :=
  match ks with
  | [] => ret []
  | k :: r => a <- new_empty_root k ;; more <- new_empty_roots r ;; ret (a :: more)
  end.

Definition h_truncate (fuel : nat) (methods : list bytes) : M unit :=
  match methods with
  | [] => l <- new_empty_roots common_verbs ;; nr <- alloc_arr l ;; set_root nr ;;; put_size 0
  | _ => rs <- get_roots ;; nr <- alloc_arr rs ;;      (* nr := make(roots, len); copy(nr, t.root) *)
         trunc_loop fuel nr methods ;;; set_root nr
  end.

(* ---------- snapshot / clone / commit (tree.go:57-95) ---------- *)
Definition h_snapshot : M addr := w_reset ;;; get_root.     (* also tXn.clone(): the clone shares t.root *)

End Model.

(* the policy of internal/simplelru with capacity cap: drop the least recently used *)
Definition lru_evict (cap : nat) : N -> list addr -> list addr := fun _ w => firstn cap w.

(* ---------- abs: reading the pure tree out of the heap ---------- *)
Definition find_node (s : st) (a : addr) := PM.find a (s_nodes s).
Definition find_arr (s : st) (a : addr) := PM.find a (s_arrs s).

Fixpoint abs_node (fuel : nat) (s : st) (a : addr) : option node :=
  match fuel with O => None | S f =>
    match find_node s a with
    | None => None
    | Some o =>
      match find_arr s (n_arr o) with
      | None => None
      | Some ch =>
        match (fix go (l : list addr) : option (list node) :=
                 match l with
                 | [] => Some []
                 | x :: t => match abs_node f s x, go t with Some n, Some r => Some (n :: r) | _, _ => None end
                 end) ch with
        | Some kids => Some (Node (n_key o) (n_route o) kids)
        | None => None
        end
      end
    end
  end.

Fixpoint abs_list (fuel : nat) (s : st) (l : list addr) : option (list node) :=
  match l with
  | [] => Some []
  | x :: t => match abs_node fuel s x, abs_list fuel s t with Some n, Some r => Some (n :: r) | _, _ => None end
  end.

(* abs of a roots array *)
Definition abs (fuel : nat) (s : st) (ra : addr) : option (list node) :=
  match find_arr s ra with Some l => abs_list fuel s l | None => None end.
