(* HeapProofs — proofs about the object-level model Heap.v / Heap2.v (C03).

   Part 1  ownership: every operation preserves [good mark] (well-formed heap, every
           writable node and its children array allocated at or after [mark]) and is an
           [ext mark] step: nothing below [mark] changes, every logged in-place write
           targets an address >= mark.
   Part 2  histories: the mark is the allocation pointer at the last snapshot point;
           every handed-out roots array lies below it; abs of it never changes. *)
From Coq Require Import FMapPositive.
From FoxBase Require Import Bytes.
From FoxRoute Require Import Node Tree Heap Heap2.

Local Open Scope positive_scope.

(* ---------- monad plumbing ---------- *)
Lemma bind_ok {A B} (m : M A) (k : A -> M B) s b s'' :
  bind m k s = Ok (b, s'') -> exists a s', m s = Ok (a, s') /\ k a s' = Ok (b, s'').
Proof. unfold bind. destruct (m s) as [[a s']| |]; try discriminate. eauto. Qed.

Lemma ret_ok {A} (a b : A) s s' : ret a s = Ok (b, s') -> b = a /\ s' = s.
Proof. unfold ret. intros H; inversion H; auto. Qed.

Lemma opt_get_ok {A} (o : option A) a s s' : opt_get o s = Ok (a, s') -> o = Some a /\ s' = s.
Proof. destruct o; simpl; unfold ret, panic; intros H; inversion H; auto. Qed.

(* ---------- invariants ---------- *)
Definition V (s : st) (a : addr) : Prop := a < s_next s.

Record wf (s : st) : Prop := {
  wf_node : forall a o, find_node s a = Some o -> V s a /\ V s (n_arr o);
  wf_arr : forall a l, find_arr s a = Some l -> V s a /\ Forall (V s) l;
  wf_root : V s (s_root s) }.

(* a node the transaction may edit in place: it and its children array were allocated at or after mark *)
Definition own (mark : addr) (s : st) (a : addr) : Prop :=
  mark <= a /\ exists o, find_node s a = Some o /\ mark <= n_arr o.

Record good (mark : addr) (s : st) : Prop := {
  g_wf : wf s;
  g_mark : mark <= s_next s;
  g_wr : Forall (own mark s) (s_wr s) }.

Record ext (mark : addr) (s s' : st) : Prop := {
  e_next : s_next s <= s_next s';
  e_node : forall a, a < mark -> find_node s' a = find_node s a;
  e_arr : forall a, a < mark -> find_arr s' a = find_arr s a;
  e_pers : forall a o, find_node s a = Some o -> exists o', find_node s' a = Some o' /\ n_arr o' = n_arr o;
  e_log : exists l, s_log s' = (l ++ s_log s)%list /\ Forall (fun t => mark <= t) l }.

Lemma ext_refl mark s : ext mark s s.
Proof. constructor; auto; try lia. - eauto. - exists []; auto. Qed.

Lemma ext_trans mark s1 s2 s3 : ext mark s1 s2 -> ext mark s2 s3 -> ext mark s1 s3.
Proof.
  intros [n1 a1 b1 p1 (l1 & L1 & F1)] [n2 a2 b2 p2 (l2 & L2 & F2)]. constructor.
  - lia.
  - intros a H. rewrite a2, a1; auto.
  - intros a H. rewrite b2, b1; auto.
  - intros a o H. destruct (p1 _ _ H) as (o' & H' & E'). destruct (p2 _ _ H') as (o'' & H'' & E''). exists o''. split; congruence.
  - exists (l2 ++ l1)%list. split. + rewrite L2, L1, app_assoc. reflexivity. + apply Forall_app; auto.
Qed.

Lemma ext_weaken m m' s s' : m <= m' -> ext m' s s' -> ext m s s'.
Proof.
  intros L [n a b p (l & Ll & F)]. constructor; auto.
  - intros x H. apply a. lia.
  - intros x H. apply b. lia.
  - exists l. split; auto. eapply Forall_impl; [|exact F]. simpl. intros; lia.
Qed.

Lemma V_ext mark s s' a : ext mark s s' -> V s a -> V s' a.
Proof. intros E H. unfold V in *. pose proof (e_next _ _ _ E). lia. Qed.

Lemma FV_ext mark s s' l : ext mark s s' -> Forall (V s) l -> Forall (V s') l.
Proof. intros E H. eapply Forall_impl; [|exact H]. intros a. apply (V_ext mark); auto. Qed.

Lemma own_ext mark s s' a : ext mark s s' -> own mark s a -> own mark s' a.
Proof.
  intros E [L (o & H & La)]. split; auto. destruct (e_pers _ _ _ E _ _ H) as (o' & H' & Ea).
  exists o'. split; auto. congruence.
Qed.

Definition optO (mark : addr) (s : st) (o : option addr) : Prop :=
  match o with Some a => own mark s a | None => True end.
Lemma optO_ext mark s s' o : ext mark s s' -> optO mark s o -> optO mark s' o.
Proof. destruct o; simpl; auto. apply own_ext. Qed.

Lemma own_V mark s a : wf s -> own mark s a -> V s a.
Proof. intros W [_ (o & H & _)]. apply (wf_node _ W _ _ H). Qed.

(* ---------- finite-map facts ---------- *)
Lemma pm_gss {A} a (v : A) m : PM.find a (PM.add a v m) = Some v.
Proof. apply PM.gss. Qed.
Lemma pm_gso {A} a b (v : A) m : a <> b -> PM.find a (PM.add b v m) = PM.find a m.
Proof. intros. apply PM.gso. auto. Qed.

(* heap-only view of the setters *)
Lemma find_node_set_heap s n a nx x : find_node (set_heap s n a nx) x = PM.find x n. Proof. reflexivity. Qed.
Lemma find_arr_set_heap s n a nx x : find_arr (set_heap s n a nx) x = PM.find x a. Proof. reflexivity. Qed.

Lemma wf_same_heap s s' :
  s_nodes s' = s_nodes s -> s_arrs s' = s_arrs s -> s_next s' = s_next s -> s_root s' = s_root s -> wf s -> wf s'.
Proof.
  intros Hn Ha Hx Hr [wn wa wr]. unfold V, find_node, find_arr in *.
  constructor; unfold V, find_node, find_arr; rewrite ?Hn, ?Ha, ?Hx, ?Hr; auto.
Qed.

Lemma ext_same_heap mark s s' :
  s_nodes s' = s_nodes s -> s_arrs s' = s_arrs s -> s_next s' = s_next s -> s_log s' = s_log s -> ext mark s s'.
Proof.
  intros Hn Ha Hx Hl. constructor; unfold find_node, find_arr; rewrite ?Hn, ?Ha, ?Hx; auto; try lia.
  - eauto.
  - exists []. rewrite Hl. auto.
Qed.

Lemma own_same_heap mark s s' a : s_nodes s' = s_nodes s -> own mark s a -> own mark s' a.
Proof. intros Hn [L (o & H & La)]. split; auto. exists o. unfold find_node in *. rewrite Hn. auto. Qed.

(* a change of tXn fields other than the heap, the root and the writable set *)
Lemma good_meta mark s sz mp d : good mark s -> good mark (set_meta s sz mp d) /\ ext mark s (set_meta s sz mp d).
Proof.
  intros [W M Wr]. split.
  - constructor; simpl; auto.
    apply (wf_same_heap s); auto.
  - apply ext_same_heap; auto.
Qed.

(* ---------- proof helpers: transport the stable facts along an ext step ---------- *)
Ltac adv E :=
  match type of E with HeapProofs.ext _ ?s ?s' =>
    repeat match goal with
    | X : V s _ |- _ => apply (V_ext _ _ _ _ E) in X
    | X : Forall (V s) _ |- _ => apply (FV_ext _ _ _ _ E) in X
    | X : HeapProofs.own _ s _ |- _ => apply (own_ext _ _ _ _ E) in X
    | X : optO _ s _ |- _ => apply (optO_ext _ _ _ _ E) in X
    end
  end.
Ltac chain E0 E :=
  let T := fresh "E" in pose proof (ext_trans _ _ _ _ E0 E) as T; adv E; clear E0 E; rename T into E0.
Ltac fin := repeat match goal with |- _ /\ _ => split end; simpl; auto using ext_refl.
Ltac mbind H a s1 H1 := apply bind_ok in H; destruct H as (a & s1 & H1 & H).

Section Inv.
Variable evict : N -> list addr -> list addr.
Hypothesis evict_sub : forall c w a, In a (evict c w) -> In a w.
Variable mark : addr.

Notation good := (good mark). Notation ext := (ext mark). Notation own := (own mark).

(* ---------- primitives ---------- *)
Lemma get_node_ok a s o s' : get_node a s = Ok (o, s') -> s' = s /\ find_node s a = Some o.
Proof. unfold get_node, find_node. destruct (PM.find a (s_nodes s)); intros H; inversion H; auto. Qed.

Lemma get_arr_ok a s l s' : get_arr a s = Ok (l, s') -> s' = s /\ find_arr s a = Some l.
Proof. unfold get_arr, find_arr. destruct (PM.find a (s_arrs s)); intros H; inversion H; auto. Qed.

Lemma get_root_ok s r s' : get_root s = Ok (r, s') -> s' = s /\ r = s_root s.
Proof. unfold get_root. intros H; inversion H; auto. Qed.
Lemma get_cache_ok s r s' : get_cache s = Ok (r, s') -> s' = s /\ r = s_cache s.
Proof. unfold get_cache. intros H; inversion H; auto. Qed.

Lemma alloc_node_ok o s a s' :
  good s -> V s (n_arr o) -> alloc_node o s = Ok (a, s') ->
  good s' /\ ext s s' /\ V s' a /\ mark <= a /\ find_node s' a = Some o.
Proof.
  intros [W M Wr] Va H. unfold alloc_node in H. inversion H; subst; clear H.
  assert (Hfresh : forall x o', find_node s x = Some o' -> x <> s_next s).
  { intros x o' Hx. pose proof (proj1 (wf_node _ W _ _ Hx)). unfold V in *. lia. }
  assert (E : ext s (set_heap s (PM.add (s_next s) o (s_nodes s)) (s_arrs s) (Pos.succ (s_next s)))).
  { constructor; simpl; try lia.
    - intros x Hx. rewrite find_node_set_heap. apply pm_gso. lia.
    - auto.
    - intros x o' Hx. exists o'. split; auto. rewrite find_node_set_heap, pm_gso; eauto.
    - exists []; auto. }
  split; [|split; [exact E|]].
  - constructor; simpl; try lia.
    + constructor; unfold V; simpl.
      * intros x o'. rewrite find_node_set_heap. destruct (Pos.eq_dec x (s_next s)) as [->|Hn].
        -- rewrite pm_gss. intros Ho; inversion Ho; subst. unfold V in Va. lia.
        -- rewrite pm_gso by auto. intros Hx. destruct (wf_node _ W _ _ Hx). unfold V in *. lia.
      * intros x l Hx. destruct (wf_arr _ W _ _ Hx) as [Vx Fl]. unfold V in *. split; [lia|].
        eapply Forall_impl; [|exact Fl]. simpl. intros; lia.
      * pose proof (wf_root _ W). unfold V in *. lia.
    + eapply Forall_impl; [|exact Wr]. intros x. apply own_ext. exact E.
  - unfold V; simpl. split; [lia|]. split; [lia|]. rewrite find_node_set_heap. apply pm_gss.
Qed.

Lemma alloc_arr_ok l s a s' :
  good s -> Forall (V s) l -> alloc_arr l s = Ok (a, s') ->
  good s' /\ ext s s' /\ V s' a /\ mark <= a /\ find_arr s' a = Some l.
Proof.
  intros [W M Wr] Vl H. unfold alloc_arr in H. inversion H; subst; clear H.
  assert (E : ext s (set_heap s (s_nodes s) (PM.add (s_next s) l (s_arrs s)) (Pos.succ (s_next s)))).
  { constructor; simpl; try lia.
    - auto.
    - intros x Hx. rewrite find_arr_set_heap. apply pm_gso. lia.
    - intros x o' Hx. exists o'. auto.
    - exists []; auto. }
  split; [|split; [exact E|]].
  - constructor; simpl; try lia.
    + constructor; unfold V; simpl.
      * intros x o' Hx. destruct (wf_node _ W _ _ Hx). unfold V in *. lia.
      * intros x l'. rewrite find_arr_set_heap. destruct (Pos.eq_dec x (s_next s)) as [->|Hn].
        -- rewrite pm_gss. intros Ho; inversion Ho; subst. split; [lia|].
           eapply Forall_impl; [|exact Vl]. unfold V. simpl. intros; lia.
        -- rewrite pm_gso by auto. intros Hx. destruct (wf_arr _ W _ _ Hx) as [Vx Fl]. unfold V in *. split; [lia|].
           eapply Forall_impl; [|exact Fl]. simpl. intros; lia.
      * pose proof (wf_root _ W). unfold V in *. lia.
    + eapply Forall_impl; [|exact Wr]. intros x. apply own_ext. exact E.
  - unfold V; simpl. split; [lia|]. split; [lia|]. rewrite find_arr_set_heap. apply pm_gss.
Qed.

Lemma Forall_set_nth {A} (P : A -> Prop) l i v : Forall P l -> P v -> Forall P (set_nth l i v).
Proof.
  intros H Hv. revert i. induction H; intros [|i]; simpl; auto.
Qed.
Lemma Forall_del_nth {A} (P : A -> Prop) l i : Forall P l -> Forall P (del_nth l i).
Proof. intros H. revert i. induction H; intros [|i]; simpl; auto. Qed.

(* an in-place write of array a *)
Lemma write_arr_gen a l' s :
  good s -> mark <= a -> (exists l, find_arr s a = Some l) -> Forall (V s) l' ->
  let s' := set_heap_w s (s_nodes s) (PM.add a l' (s_arrs s)) a in
  good s' /\ ext s s'.
Proof.
  intros [W M Wr] La (l & Hl) Vl s'.
  assert (E : ext s s').
  { constructor; simpl; try lia.
    - auto.
    - intros x Hx. unfold s', find_arr. simpl. apply pm_gso. lia.
    - intros x o' Hx. exists o'. auto.
    - exists [a]. split; auto. }
  split; [|exact E].
  constructor; simpl; try lia.
  - constructor; unfold V; simpl.
    + intros x o' Hx. apply (wf_node _ W _ _ Hx).
    + intros x l0. unfold s', find_arr. simpl. destruct (Pos.eq_dec x a) as [->|Hn].
      * rewrite pm_gss. intros Ho; inversion Ho; subst. split; auto. apply (wf_arr _ W _ _ Hl).
      * rewrite pm_gso by auto. intros Hx. apply (wf_arr _ W _ _ Hx).
    + apply (wf_root _ W).
  - eapply Forall_impl; [|exact Wr]. intros x. apply own_ext. exact E.
Qed.

Lemma write_slot_ok a i v s u s' :
  good s -> mark <= a -> V s v -> write_slot a i v s = Ok (u, s') -> good s' /\ ext s s'.
Proof.
  intros G La Vv H. unfold write_slot in H.
  destruct (PM.find a (s_arrs s)) as [l|] eqn:Hl; try discriminate.
  destruct (Nat.ltb i (List.length l)); try discriminate. inversion H; subst; clear H.
  apply write_arr_gen; eauto.
  apply Forall_set_nth; auto. apply (wf_arr _ (g_wf _ _ G) _ _ Hl).
Qed.

Lemma write_arr_ok a l' s u s' :
  good s -> mark <= a -> Forall (V s) l' -> write_arr a l' s = Ok (u, s') -> good s' /\ ext s s'.
Proof.
  intros G La Vv H. unfold write_arr in H.
  destruct (PM.find a (s_arrs s)) as [l|] eqn:Hl; try discriminate. inversion H; subst; clear H.
  apply write_arr_gen; eauto.
Qed.

Lemma set_key_ok a k s u s' :
  good s -> mark <= a -> set_key a k s = Ok (u, s') -> good s' /\ ext s s'.
Proof.
  intros [W M Wr] La H. unfold set_key in H.
  destruct (PM.find a (s_nodes s)) as [o|] eqn:Ho; try discriminate. inversion H; subst; clear H.
  match goal with |- good ?x /\ _ => set (s' := x) end.
  assert (E : ext s s').
  { constructor; simpl; try lia.
    - intros x Hx. unfold s', find_node. simpl. apply pm_gso. lia.
    - auto.
    - intros x o' Hx. unfold s', find_node. simpl. destruct (Pos.eq_dec x a) as [->|Hn].
      + rewrite pm_gss. eexists; split; eauto. simpl. unfold find_node in Hx. congruence.
      + rewrite pm_gso by auto. eauto.
    - exists [a]. split; auto. }
  split; [|exact E].
  constructor; simpl; try lia.
  - constructor; unfold V; simpl.
    + intros x o'. unfold s', find_node. simpl. destruct (Pos.eq_dec x a) as [->|Hn].
      * rewrite pm_gss. intros Hx; inversion Hx; subst; simpl. apply (wf_node _ W _ _ Ho).
      * rewrite pm_gso by auto. intros Hx. apply (wf_node _ W _ _ Hx).
    + intros x l0 Hx. apply (wf_arr _ W _ _ Hx).
    + apply (wf_root _ W).
  - eapply Forall_impl; [|exact Wr]. intros x. apply own_ext. exact E.
Qed.

Lemma set_root_ok r s u s' : good s -> V s r -> set_root r s = Ok (u, s') -> good s' /\ ext s s'.
Proof.
  intros [W M Wr] Vr H. unfold set_root in H. inversion H; subst; clear H. split.
  - constructor; simpl; auto.
    destruct W as [wn wa wr]. constructor; auto.
  - apply ext_same_heap; auto.
Qed.

Lemma bump_size_ok d s u s' : good s -> bump_size d s = Ok (u, s') -> good s' /\ ext s s'.
Proof. intros G H. unfold bump_size in H. inversion H; subst. apply good_meta; auto. Qed.
Lemma put_size_ok d s u s' : good s -> put_size d s = Ok (u, s') -> good s' /\ ext s s'.
Proof. intros G H. unfold put_size in H. inversion H; subst. apply good_meta; auto. Qed.
Lemma upd_maxp_ok d s u s' : good s -> upd_maxp d s = Ok (u, s') -> good s' /\ ext s s'.
Proof. intros G H. unfold upd_maxp in H. inversion H; subst. apply good_meta; auto. Qed.
Lemma upd_depth_ok d s u s' : good s -> upd_depth d s = Ok (u, s') -> good s' /\ ext s s'.
Proof. intros G H. unfold upd_depth in H. inversion H; subst. apply good_meta; auto. Qed.

(* ---------- the writable set ---------- *)
Lemma take_out_in a l l' : take_out a l = Some l' -> In a l /\ (forall x, In x l' -> In x l).
Proof.
  revert l'. induction l as [|x r IH]; simpl; intros l' H; try discriminate.
  destruct (Pos.eqb_spec x a) as [->|Hn].
  - inversion H; subst. auto.
  - destruct (take_out a r) as [r'|]; try discriminate. inversion H; subst.
    destruct (IH _ eq_refl) as [I1 I2]. split; auto. simpl. intros y [->|Hy]; auto.
Qed.

Lemma good_set_wr s w c : good s -> Forall (own s) w -> good (set_wr s w c) /\ ext s (set_wr s w c).
Proof.
  intros [W M Wr] Fw. split.
  - constructor; simpl; auto.
    apply (wf_same_heap s); auto.
  - apply ext_same_heap; auto.
Qed.

Lemma Forall_sub {A} (P : A -> Prop) l l' : (forall x, In x l' -> In x l) -> Forall P l -> Forall P l'.
Proof. intros S F. rewrite Forall_forall in *. auto. Qed.

Lemma w_get_ok a s b s' :
  good s -> w_get evict a s = Ok (b, s') -> good s' /\ ext s s' /\ (b = true -> own s' a).
Proof.
  intros G H. unfold w_get in H. pose proof (g_wr _ _ G) as Wr.
  destruct (take_out a (s_wr s)) as [w'|] eqn:T; inversion H; subst; clear H.
  - destruct (take_out_in _ _ _ T) as [I1 I2].
    assert (Oa : own s a) by (rewrite Forall_forall in Wr; auto).
    assert (Fw : Forall (own s) (evict (s_clock s) (a :: w'))).
    { eapply Forall_sub; [apply evict_sub|]. constructor; auto. eapply Forall_sub; eauto. }
    destruct (good_set_wr s _ (N.succ (s_clock s)) G Fw) as [G' E'].
    split; [exact G'|]. split; [exact E'|]. intros _. eapply own_ext; eauto.
  - assert (Fw : Forall (own s) (evict (s_clock s) (s_wr s))).
    { eapply Forall_sub; [apply evict_sub|]. auto. }
    destruct (good_set_wr s _ (N.succ (s_clock s)) G Fw) as [G' E'].
    split; [exact G'|]. split; [exact E'|]. discriminate.
Qed.

Lemma w_add_ok a s u s' : good s -> own s a -> w_add evict a s = Ok (u, s') -> good s' /\ ext s s'.
Proof.
  intros G Oa H. unfold w_add in H. inversion H; subst; clear H. pose proof (g_wr _ _ G) as Wr.
  apply good_set_wr; auto. eapply Forall_sub; [apply evict_sub|]. constructor; auto.
  destruct (take_out a (s_wr s)) as [w'|] eqn:T; auto.
  destruct (take_out_in _ _ _ T) as [I1 I2]. eapply Forall_sub; eauto.
Qed.

Lemma w_reset_ok s u s' : good s -> w_reset s = Ok (u, s') -> good s' /\ ext s s'.
Proof. intros G H. unfold w_reset in H. inversion H; subst. apply good_set_wr; auto. Qed.

Lemma w_add_if_cache_ok a s u s' : good s -> own s a -> w_add_if_cache evict a s = Ok (u, s') -> good s' /\ ext s s'.
Proof.
  intros G Oa H. unfold w_add_if_cache in H. apply bind_ok in H. destruct H as (c & s1 & H1 & H2).
  apply get_cache_ok in H1. destruct H1 as [-> _]. destruct c.
  - eapply w_add_ok; eauto.
  - apply ret_ok in H2. destruct H2 as [_ ->]. split; auto. apply ext_refl.
Qed.

(* ---------- node helpers ---------- *)
Lemma key_of_ok a s k s' : key_of a s = Ok (k, s') -> s' = s.
Proof.
  unfold key_of. intros H. mbind H o s1 H1. apply get_node_ok in H1. destruct H1 as [-> _].
  apply ret_ok in H. tauto.
Qed.

Lemma keys_of_ok l s ks s' : keys_of l s = Ok (ks, s') -> s' = s.
Proof.
  revert s ks s'. induction l as [|a r IH]; simpl; intros s ks s' H.
  - apply ret_ok in H. tauto.
  - mbind H k s1 H1. apply key_of_ok in H1. subst s1. mbind H ks' s2 H2. apply IH in H2. subst s2.
    apply ret_ok in H. tauto.
Qed.

Lemma nth_error_Forall {A} (P : A -> Prop) l i x : Forall P l -> nth_error l i = Some x -> P x.
Proof. intros F H. apply nth_error_In in H. rewrite Forall_forall in F. auto. Qed.

Lemma get_edge_ok n c s r s' :
  good s -> get_edge n c s = Ok (r, s') -> s' = s /\ (forall nx, r = Some nx -> V s nx).
Proof.
  intros G H. unfold get_edge in H.
  mbind H o s1 H1. apply get_node_ok in H1. destruct H1 as [-> Ho].
  mbind H ch s1 H1. apply get_arr_ok in H1. destruct H1 as [-> Hch].
  mbind H ks s1 H1. apply keys_of_ok in H1. subst s1.
  pose proof (proj2 (wf_arr _ (g_wf _ _ G) _ _ Hch)) as Fch.
  destruct (find_idx_from 0 c ks); apply ret_ok in H; destruct H as [-> ->]; split; auto.
  - intros nx Hn. eapply nth_error_Forall; eauto.
  - discriminate.
Qed.

Lemma update_edge_ok n nd s u s' :
  good s -> own s n -> V s nd -> update_edge n nd s = Ok (u, s') -> good s' /\ ext s s'.
Proof.
  intros G On Vn H. unfold update_edge in H.
  mbind H k s1 H1. apply key_of_ok in H1. subst s1.
  destruct k as [|c k]; [discriminate|].
  mbind H o s1 H1. apply get_node_ok in H1. destruct H1 as [-> Ho].
  mbind H ch s1 H1. apply get_arr_ok in H1. destruct H1 as [-> Hch].
  mbind H ks s1 H1. apply keys_of_ok in H1. subst s1.
  destruct (find_idx_from 0 c ks); [|discriminate].
  destruct On as [_ (o' & Ho' & La)]. assert (o' = o) by congruence. subst o'.
  eapply write_slot_ok; eauto.
Qed.

Lemma clone_ok n s a s' :
  good s -> clone n s = Ok (a, s') -> good s' /\ ext s s' /\ own s' a /\ V s' a.
Proof.
  intros G H. unfold clone in H.
  mbind H o s1 H1. apply get_node_ok in H1. destruct H1 as [-> Ho].
  mbind H ch s1 H1. apply get_arr_ok in H1. destruct H1 as [-> Hch].
  pose proof (proj2 (wf_arr _ (g_wf _ _ G) _ _ Hch)) as Fch.
  mbind H a1 s1 H1. destruct (alloc_arr_ok _ _ _ _ G Fch H1) as (G1 & E1 & V1 & L1 & _).
  pose proof (fun pf => alloc_node_ok _ _ _ _ G1 pf H) as X. simpl in X.
  destruct (X V1) as (G2 & E2 & V2 & L2 & F2).
  split; auto. split; [eapply ext_trans; eauto|]. split; auto.
  split; auto. eexists; split; eauto.
Qed.

Lemma new_node_from_ref_ok k r arr s a s' :
  good s -> V s arr -> new_node_from_ref k r arr s = Ok (a, s') ->
  good s' /\ ext s s' /\ V s' a /\ mark <= a /\ (mark <= arr -> own s' a).
Proof.
  intros G Va H. unfold new_node_from_ref in H.
  pose proof (fun pf => alloc_node_ok _ _ _ _ G pf H) as X. simpl in X.
  destruct (X Va) as (G2 & E2 & V2 & L2 & F2).
  split; auto. split; auto. split; auto. split; auto. intros La. split; auto. eexists; split; eauto.
Qed.

Lemma ins_sorted_in x l y : In y (ins_sorted x l) -> y = x \/ In y l.
Proof.
  induction l as [|m r IH]; simpl.
  - intros [<-|[]]; auto.
  - destruct (key_ltb (fst m) (fst x)); simpl.
    + intros [<-|H]; auto. destruct (IH H); auto.
    + intros [<-|H]; auto.
Qed.
Lemma sort_pairs_in l y : In y (sort_pairs l) -> In y l.
Proof.
  unfold sort_pairs. induction l as [|x r IH]; simpl; auto.
  intros H. apply ins_sorted_in in H. destruct H; auto.
Qed.
Lemma sorted_sub (ks : list bytes) (ch : list addr) x : In x (map snd (sort_pairs (combine ks ch))) -> In x ch.
Proof.
  intros H. apply in_map_iff in H. destruct H as ([k y] & <- & H). apply sort_pairs_in in H.
  apply in_combine_r in H. auto.
Qed.

Lemma new_node_ok k r arr s a s' :
  good s -> mark <= arr -> new_node k r arr s = Ok (a, s') -> good s' /\ ext s s' /\ V s' a /\ own s' a.
Proof.
  intros G La H. unfold new_node in H.
  mbind H ch s1 H1. apply get_arr_ok in H1. destruct H1 as [-> Hch].
  destruct (wf_arr _ (g_wf _ _ G) _ _ Hch) as [Varr Fch].
  mbind H ks s1 H1. apply keys_of_ok in H1. subst s1.
  mbind H u s1 H1.
  assert (Fs : Forall (V s) (map snd (sort_pairs (combine ks ch)))).
  { rewrite Forall_forall in *. intros x Hx. apply Fch. eapply sorted_sub; eauto. }
  destruct (write_arr_ok _ _ _ _ _ G La Fs H1) as (G1 & E1). adv E1.
  destruct (new_node_from_ref_ok _ _ _ _ _ _ G1 Varr H) as (G2 & E2 & V2 & L2 & O2).
  split; auto. split; [eapply ext_trans; eauto|]. split; auto.
Qed.

(* ---------- roots ---------- *)
Lemma method_index_at_ok ra m s r s' : method_index_at ra m s = Ok (r, s') -> s' = s.
Proof.
  unfold method_index_at. intros H.
  repeat match type of H with (if ?b then _ else _) _ = _ => destruct b; [apply ret_ok in H; tauto|] end.
  mbind H rs s1 H1. apply get_arr_ok in H1. destruct H1 as [-> _].
  mbind H ks s1 H1. apply keys_of_ok in H1. subst s1. apply ret_ok in H. tauto.
Qed.
Lemma h_method_index_ok m s r s' : h_method_index m s = Ok (r, s') -> s' = s.
Proof.
  unfold h_method_index. intros H. mbind H ra s1 H1. apply get_root_ok in H1. destruct H1 as [-> _].
  eapply method_index_at_ok; eauto.
Qed.
Lemma get_roots_ok s rs s' : good s -> get_roots s = Ok (rs, s') -> s' = s /\ Forall (V s) rs.
Proof.
  intros G H. unfold get_roots in H. mbind H ra s1 H1. apply get_root_ok in H1. destruct H1 as [-> ->].
  apply get_arr_ok in H. destruct H as [-> Hr]. split; auto. apply (wf_arr _ (g_wf _ _ G) _ _ Hr).
Qed.

Lemma add_root_ok n s u s' : good s -> V s n -> add_root n s = Ok (u, s') -> good s' /\ ext s s'.
Proof.
  intros G Vn H. unfold add_root in H.
  mbind H rs s1 H1. destruct (get_roots_ok _ _ _ G H1) as [-> Frs]; clear H1.
  mbind H a s1 H1.
  assert (F : Forall (V s) (rs ++ [n])) by (apply Forall_app; auto).
  destruct (alloc_arr_ok _ _ _ _ G F H1) as (G1 & E1 & V1 & L1 & _).
  destruct (set_root_ok _ _ _ _ G1 V1 H) as (G2 & E2).
  split; auto. eapply ext_trans; eauto.
Qed.

Lemma update_root_ok n s b s' : good s -> V s n -> update_root n s = Ok (b, s') -> good s' /\ ext s s'.
Proof.
  intros G Vn H. unfold update_root in H.
  mbind H k s1 H1. apply key_of_ok in H1. subst s1.
  mbind H idx s1 H1. apply h_method_index_ok in H1. subst s1.
  destruct idx as [i|].
  - mbind H rs s1 H1. destruct (get_roots_ok _ _ _ G H1) as [-> Frs]; clear H1.
    destruct (Nat.ltb i (List.length rs)); [|discriminate].
    mbind H a s1 H1.
    assert (F : Forall (V s) (set_nth rs i n)) by (apply Forall_set_nth; auto).
    destruct (alloc_arr_ok _ _ _ _ G F H1) as (G1 & E1 & V1 & L1 & _).
    mbind H u s2 H2. destruct (set_root_ok _ _ _ _ G1 V1 H2) as (G2 & E2).
    apply ret_ok in H. destruct H as [_ ->]. split; auto. eapply ext_trans; eauto.
  - apply ret_ok in H. destruct H as [_ ->]. split; auto. apply ext_refl.
Qed.

Lemma remove_root_ok m s b s' : good s -> remove_root m s = Ok (b, s') -> good s' /\ ext s s'.
Proof.
  intros G H. unfold remove_root in H.
  mbind H idx s1 H1. apply h_method_index_ok in H1. subst s1.
  destruct idx as [i|].
  - mbind H rs s1 H1. destruct (get_roots_ok _ _ _ G H1) as [-> Frs]; clear H1.
    destruct (Nat.ltb i (List.length rs)); [|discriminate].
    mbind H a s1 H1.
    assert (F : Forall (V s) (del_nth rs i)) by (apply Forall_del_nth; auto).
    destruct (alloc_arr_ok _ _ _ _ G F H1) as (G1 & E1 & V1 & L1 & _).
    mbind H u s2 H2. destruct (set_root_ok _ _ _ _ G1 V1 H2) as (G2 & E2).
    apply ret_ok in H. destruct H as [_ ->]. split; auto. eapply ext_trans; eauto.
  - apply ret_ok in H. destruct H as [_ ->]. split; auto. apply ext_refl.
Qed.

(* ---------- copyOnWriteSearch ---------- *)
Lemma cow_loop_ok fuel : forall cur p pp ppp rest from cm cmin depth s r s',
  good s -> V s cur -> optO mark s p -> optO mark s pp -> optO mark s ppp ->
  cow_loop evict fuel cur p pp ppp rest from cm cmin depth s = Ok (r, s') ->
  good s' /\ ext s s' /\ V s' (r_matched r) /\ optO mark s' (r_p r) /\ optO mark s' (r_pp r) /\ optO mark s' (r_ppp r).
Proof.
  induction fuel as [|f IH]; intros cur p pp ppp rest from cm cmin depth s r s' G Vc Op Opp Oppp H; simpl in H.
  - discriminate.
  - destruct rest as [|c rest0].
    + apply ret_ok in H. destruct H as [-> ->]. simpl. split; auto. split; [apply ext_refl|]. auto.
    + mbind H next s1 H1. destruct (get_edge_ok _ _ _ _ _ G H1) as [-> Vnx]. clear H1.
      destruct next as [nx|].
      * specialize (Vnx _ eq_refl).
        mbind H hit s1 H1. destruct (w_get_ok _ _ _ _ G H1) as (G1 & E1 & Ohit). clear H1.
        pose proof E1 as E0. adv E1.
        mbind H p' s2 H2.
        assert (X : good s2 /\ ext s1 s2 /\ own s2 p').
        { destruct hit.
          - apply ret_ok in H2. destruct H2 as [-> ->]. split; auto. split; [apply ext_refl|]. auto.
          - mbind H2 cp s3 H3. destruct (clone_ok _ _ _ _ G1 H3) as (G3 & E3 & O3 & V3). clear H3.
            pose proof E3 as E13. adv E3.
            mbind H2 u s4 H4. destruct (w_add_if_cache_ok _ _ _ _ G3 O3 H4) as (G4 & E4). clear H4.
            chain E13 E4.
            mbind H2 u2 s5 H5.
            assert (Y : good s5 /\ ext s4 s5).
            { destruct p as [q|].
              - simpl in Op. eapply (update_edge_ok q cp); eauto.
              - mbind H5 b s6 H6. destruct (update_root_ok _ _ _ _ G4 V3 H6) as (G6 & E6).
                apply ret_ok in H5. destruct H5 as [_ ->]. auto. }
            destruct Y as (G5 & E5). chain E13 E5.
            apply ret_ok in H2. destruct H2 as [-> ->]. auto. }
        destruct X as (G2 & E2 & Op'). chain E0 E2.
        mbind H key s3 H3. apply key_of_ok in H3. subst s3.
        destruct (match_key key (c :: rest0)) as [[n rest'] brk].
        destruct brk.
        -- apply ret_ok in H. destruct H as [-> ->]. fin.
        -- destruct (IH _ (Some p') _ _ _ _ _ _ _ _ _ _ G2 Vnx Op' Op Opp H) as (G9 & E9 & R).
           split; auto. split; [eapply ext_trans; eauto|]. auto.
      * apply ret_ok in H. destruct H as [-> ->]. simpl. split; auto. split; [apply ext_refl|]. auto.
Qed.

Lemma cow_search_ok rootNode path s r s' :
  good s -> V s rootNode -> cow_search evict rootNode path s = Ok (r, s') ->
  good s' /\ ext s s' /\ V s' (r_matched r) /\ optO mark s' (r_p r) /\ optO mark s' (r_pp r) /\ optO mark s' (r_ppp r).
Proof. intros G Vr H. unfold cow_search in H. eapply cow_loop_ok; eauto; simpl; auto. Qed.

(* ---------- insert / update ---------- *)
Ltac meta1 H G E0 :=
  let u := fresh "mu" in let s1 := fresh "ms" in let H1 := fresh "mH" in
  let G1 := fresh "mG" in let E1 := fresh "mE" in
  mbind H u s1 H1;
  first [ destruct (bump_size_ok _ _ _ _ G H1) as (G1 & E1)
        | destruct (upd_maxp_ok _ _ _ _ G H1) as (G1 & E1)
        | destruct (upd_depth_ok _ _ _ _ G H1) as (G1 & E1)
        | destruct (put_size_ok _ _ _ _ G H1) as (G1 & E1) ];
  clear H1; chain E0 E1; clear G; rename G1 into G.

Lemma patch_ok {A} po n (x : A) s y s' :
  good s -> optO mark s po -> V s n ->
  (p <- opt_get po ;; update_edge p n ;;; ret x) s = Ok (y, s') -> good s' /\ ext s s'.
Proof.
  intros G Op Vn H. mbind H p s1 H1. apply opt_get_ok in H1. destruct H1 as [-> ->]. simpl in Op.
  mbind H u s1 H1. destruct (update_edge_ok _ _ _ _ _ G Op Vn H1) as (G1 & E1).
  apply ret_ok in H. destruct H as [_ ->]. auto.
Qed.

Lemma h_new_leaf_ok ri cm suffix s c add s' :
  good s -> h_new_leaf ri cm suffix s = Ok ((c, add), s') -> good s' /\ ext s s' /\ V s' c.
Proof.
  intros G H. unfold h_new_leaf in H.
  destruct (Nat.ltb 0 (ri_hostsplit ri) && Nat.ltb cm (ri_hostsplit ri))%bool.
  - mbind H e s1 H1. destruct (alloc_arr_ok [] _ _ _ G (Forall_nil _) H1) as (G1 & E0 & V1 & L1 & _). clear H1.
    mbind H pc s2 H2. destruct (new_node_ok _ _ _ _ _ _ G1 L1 H2) as (G2 & E2 & V2 & _). clear H2. chain E0 E2.
    mbind H a s3 H3.
    assert (F : Forall (V s2) [pc]) by auto.
    destruct (alloc_arr_ok _ _ _ _ G2 F H3) as (G3 & E3 & V3 & L3 & _). clear H3. chain E0 E3.
    mbind H c0 s4 H4. destruct (new_node_ok _ _ _ _ _ _ G3 L3 H4) as (G4 & E4 & V4 & _). clear H4. chain E0 E4.
    apply ret_ok in H. destruct H as [H ->]. inversion H; subst. fin.
  - mbind H e s1 H1. destruct (alloc_arr_ok [] _ _ _ G (Forall_nil _) H1) as (G1 & E0 & V1 & L1 & _). clear H1.
    mbind H c0 s2 H2. destruct (new_node_ok _ _ _ _ _ _ G1 L1 H2) as (G2 & E2 & V2 & _). clear H2. chain E0 E2.
    apply ret_ok in H. destruct H as [H ->]. inversion H; subst. fin.
Qed.

Lemma h_insert_ok method ri s out s' :
  good s -> h_insert evict method ri s = Ok (out, s') -> good s' /\ ext s s'.
Proof.
  intros G H. unfold h_insert in H.
  mbind H idx s1 H1. apply h_method_index_ok in H1. subst s1.
  mbind H rootNode s1 H1.
  assert (X : good s1 /\ ext s s1 /\ V s1 rootNode).
  { destruct idx as [i|].
    - mbind H1 rs s2 H2. destruct (get_roots_ok _ _ _ G H2) as [-> F]. clear H2.
      apply opt_get_ok in H1. destruct H1 as [Hn ->]. fin. eapply nth_error_Forall; eauto.
    - mbind H1 e s2 H2. destruct (alloc_arr_ok [] _ _ _ G (Forall_nil _) H2) as (G2 & E0 & V2 & L2 & _). clear H2.
      mbind H1 rn s3 H3. pose proof (fun pf => alloc_node_ok _ _ _ _ G2 pf H3) as X. simpl in X.
      destruct (X V2) as (G3 & E3 & V3 & L3 & _). clear X H3. chain E0 E3.
      mbind H1 u s4 H4. destruct (add_root_ok _ _ _ _ G3 V3 H4) as (G4 & E4). clear H4. chain E0 E4.
      apply ret_ok in H1. destruct H1 as [-> ->]. fin. }
  destruct X as (G1 & E0 & Vr). clear G H1.
  mbind H r s2 H2. destruct (cow_search_ok _ _ _ _ _ G1 Vr H2) as (G2 & E2 & Vm & Op & Opp & Oppp). clear H2 G1. chain E0 E2.
  mbind H mo s3 H3. apply get_node_ok in H3. destruct H3 as [-> Hmo].
  pose proof (proj2 (wf_node _ (g_wf _ _ G2) _ _ Hmo)) as Varr.
  destruct (classify r (List.length (n_key mo))) as [[]|]; [| | | |discriminate].
  - (* exactMatch *)
    destruct (n_route mo).
    + apply ret_ok in H. destruct H as [_ ->]. fin.
    + mbind H n s3 H3. destruct (new_node_from_ref_ok _ _ _ _ _ _ G2 Varr H3) as (G3 & E3 & V3 & _). clear H3 G2. chain E0 E3.
      repeat meta1 H G3 E0.
      destruct (patch_ok _ _ _ _ _ _ G3 Op V3 H) as (G4 & E4). split; auto. eapply ext_trans; eauto.
  - (* incompleteMatchToEndOfEdge *)
    mbind H cadd s3 H3. destruct cadd as [child add].
    destruct (h_new_leaf_ok _ _ _ _ _ _ _ G2 H3) as (G3 & E3 & V3). clear H3.
    assert (Hmo3 : exists o', find_node s3 (r_matched r) = Some o' /\ n_arr o' = n_arr mo) by (apply (e_pers _ _ _ E3 _ _ Hmo)).
    clear G2. chain E0 E3.
    mbind H ch s4 H4. apply get_arr_ok in H4. destruct H4 as [-> Hch].
    pose proof (proj2 (wf_arr _ (g_wf _ _ G3) _ _ Hch)) as Fch.
    mbind H a s4 H4.
    assert (F : Forall (V s3) (ch ++ [child])) by (apply Forall_app; auto).
    destruct (alloc_arr_ok _ _ _ _ G3 F H4) as (G4 & E4 & V4 & L4 & _). clear H4 G3. chain E0 E4.
    mbind H n s5 H5. destruct (new_node_ok _ _ _ _ _ _ G4 L4 H5) as (G5 & E5 & V5 & O5). clear H5 G4. chain E0 E5.
    repeat meta1 H G5 E0.
    destruct (Pos.eqb (r_matched r) rootNode).
    + mbind H u s6 H6. destruct (set_key_ok _ _ _ _ _ G5 (proj1 O5) H6) as (G6 & E6). clear H6 G5. chain E0 E6.
      mbind H u2 s7 H7. destruct (w_add_if_cache_ok _ _ _ _ G6 O5 H7) as (G7 & E7). clear H7 G6. chain E0 E7.
      mbind H b s8 H8. destruct (update_root_ok _ _ _ _ G7 V5 H8) as (G8 & E8). clear H8 G7. chain E0 E8.
      apply ret_ok in H. destruct H as [_ ->]. fin.
    + destruct (patch_ok _ _ _ _ _ _ G5 Op V5 H) as (G6 & E6). split; auto. eapply ext_trans; eauto.
  - (* incompleteMatchToMiddleOfEdge *)
    destruct (prefix_conflict _ _).
    + apply ret_ok in H. destruct H as [_ ->]. fin.
    + mbind H cadd s3 H3. destruct cadd as [n1 add].
      destruct (h_new_leaf_ok _ _ _ _ _ _ _ G2 H3) as (G3 & E3 & V3). clear H3 G2. chain E0 E3.
      mbind H n2 s4 H4. destruct (new_node_from_ref_ok _ _ _ _ _ _ G3 Varr H4) as (G4 & E4 & V4 & _). clear H4 G3. chain E0 E4.
      mbind H a s5 H5.
      assert (F : Forall (V s4) [n1; n2]) by auto.
      destruct (alloc_arr_ok _ _ _ _ G4 F H5) as (G5 & E5 & V5 & L5 & _). clear H5 G4. chain E0 E5.
      mbind H n3 s6 H6. destruct (new_node_ok _ _ _ _ _ _ G5 L5 H6) as (G6 & E6 & V6 & _). clear H6 G5. chain E0 E6.
      repeat meta1 H G6 E0.
      destruct (patch_ok _ _ _ _ _ _ G6 Op V6 H) as (G7 & E7). split; auto. eapply ext_trans; eauto.
  - (* keyEndMidEdge *)
    mbind H child s3 H3. destruct (new_node_from_ref_ok _ _ _ _ _ _ G2 Varr H3) as (G3 & E3 & V3 & _). clear H3 G2. chain E0 E3.
    mbind H a s4 H4.
    assert (F : Forall (V s3) [child]) by auto.
    destruct (alloc_arr_ok _ _ _ _ G3 F H4) as (G4 & E4 & V4 & L4 & _). clear H4 G3. chain E0 E4.
    mbind H parent s5 H5. destruct (new_node_ok _ _ _ _ _ _ G4 L4 H5) as (G5 & E5 & V5 & _). clear H5 G4. chain E0 E5.
    repeat meta1 H G5 E0.
    destruct (patch_ok _ _ _ _ _ _ G5 Op V5 H) as (G6 & E6). split; auto. eapply ext_trans; eauto.
Qed.

Lemma h_update_ok method ri s out s' :
  good s -> h_update evict method ri s = Ok (out, s') -> good s' /\ ext s s'.
Proof.
  intros G H. unfold h_update in H.
  mbind H idx s1 H1. apply h_method_index_ok in H1. subst s1.
  destruct idx as [i|]; [|apply ret_ok in H; destruct H as [_ ->]; fin].
  mbind H rs s2 H2. destruct (get_roots_ok _ _ _ G H2) as [-> F]. clear H2.
  mbind H rn s2 H2. apply opt_get_ok in H2. destruct H2 as [Hn ->].
  assert (Vr : V s rn) by (eapply nth_error_Forall; eauto).
  mbind H r s2 H2. destruct (cow_search_ok _ _ _ _ _ G Vr H2) as (G2 & E0 & Vm & Op & Opp & Oppp). clear H2 G.
  mbind H mo s3 H3. apply get_node_ok in H3. destruct H3 as [-> Hmo].
  pose proof (proj2 (wf_node _ (g_wf _ _ G2) _ _ Hmo)) as Varr.
  destruct (is_exact r _); [destruct (n_route mo)|]; try (apply ret_ok in H; destruct H as [_ ->]; fin).
  mbind H n s3 H3. destruct (new_node_from_ref_ok _ _ _ _ _ _ G2 Varr H3) as (G3 & E3 & V3 & _). clear H3 G2. chain E0 E3.
  destruct (patch_ok _ _ _ _ _ _ G3 Op V3 H) as (G4 & E4). split; auto. eapply ext_trans; eauto.
Qed.

(* ---------- remove ---------- *)
Lemma recreate_parent_edge_ok parent matched s a s' :
  good s -> recreate_parent_edge parent matched s = Ok (a, s') -> good s' /\ ext s s' /\ V s' a /\ mark <= a.
Proof.
  intros G H. unfold recreate_parent_edge in H.
  mbind H o s1 H1. apply get_node_ok in H1. destruct H1 as [-> Ho].
  mbind H ch s1 H1. apply get_arr_ok in H1. destruct H1 as [-> Hch].
  pose proof (proj2 (wf_arr _ (g_wf _ _ G) _ _ Hch)) as Fch.
  destruct (Nat.eqb _ _); [|discriminate].
  assert (F : Forall (V s) (rm matched ch)).
  { unfold rm. rewrite Forall_forall in *. intros x Hx. apply filter_In in Hx. apply Fch. tauto. }
  destruct (alloc_arr_ok _ _ _ _ G F H) as (G1 & E1 & V1 & L1 & _). fin.
Qed.

Lemma rebuild_parent_ok o edges may_merge slash s a s' :
  good s -> mark <= edges -> rebuild_parent o edges may_merge slash s = Ok (a, s') ->
  good s' /\ ext s s' /\ V s' a /\ mark <= a /\ (may_merge = false -> own s' a).
Proof.
  intros G Le H. unfold rebuild_parent in H.
  mbind H el s1 H1. apply get_arr_ok in H1. destruct H1 as [-> Hel].
  assert (NN : forall s a s', good s -> new_node (n_key o) (n_route o) edges s = Ok (a, s') ->
               good s' /\ ext s s' /\ V s' a /\ mark <= a /\ (may_merge = false -> own s' a)).
  { intros s0 a0 s0' G0 H0. destruct (new_node_ok _ _ _ _ _ _ G0 Le H0) as (G1 & E1 & V1 & O1). fin. apply O1. }
  destruct el as [|c [|c2 el]]; eauto.
  mbind H co s1 H1. apply get_node_ok in H1. destruct H1 as [-> Hco].
  pose proof (proj2 (wf_node _ (g_wf _ _ G) _ _ Hco)) as Varr.
  destruct may_merge; simpl in H; eauto.
  destruct (negb (is_some (n_route o)) && negb (slash && starts_with "/" (n_key co)))%bool; eauto.
  destruct (new_node_from_ref_ok _ _ _ _ _ _ G Varr H) as (G1 & E1 & V1 & L1 & _). fin. discriminate.
Qed.

Lemma finish_root_ok method parent s b s' :
  good s -> own s parent -> finish_root evict method parent s = Ok (b, s') -> good s' /\ ext s s'.
Proof.
  intros G Op H. unfold finish_root in H.
  mbind H po s1 H1. apply get_node_ok in H1. destruct H1 as [-> Hpo].
  mbind H pch s1 H1. apply get_arr_ok in H1. destruct H1 as [-> Hpch].
  destruct (is_nil pch && is_removable method)%bool.
  - eapply remove_root_ok; eauto.
  - pose proof (own_V _ _ _ (g_wf _ _ G) Op) as Vp.
    mbind H w1 s1 H1. destruct (set_key_ok _ _ _ _ _ G (proj1 Op) H1) as (G1 & E0). clear H1 G. adv E0.
    mbind H w2 s2 H2. destruct (w_add_if_cache_ok _ _ _ _ G1 Op H2) as (G2 & E2). clear H2 G1. chain E0 E2.
    mbind H w3 s3 H3. destruct (update_root_ok _ _ _ _ G2 Vp H3) as (G3 & E3). clear H3 G2. chain E0 E3.
    apply ret_ok in H. destruct H as [_ ->]. fin.
Qed.

Lemma h_remove_ok method path s out s' :
  good s -> h_remove evict method path s = Ok (out, s') -> good s' /\ ext s s'.
Proof.
  intros G H. unfold h_remove in H.
  mbind H idx s1 H1. apply h_method_index_ok in H1. subst s1.
  destruct idx as [i|]; [|apply ret_ok in H; destruct H as [_ ->]; fin].
  mbind H rs s2 H2. destruct (get_roots_ok _ _ _ G H2) as [-> F]. clear H2.
  mbind H rn s2 H2. apply opt_get_ok in H2. destruct H2 as [Hn ->].
  assert (Vr : V s rn) by (eapply nth_error_Forall; eauto).
  mbind H r s2 H2. destruct (cow_search_ok _ _ _ _ _ G Vr H2) as (G2 & E0 & Vm & Op & Opp & Oppp). clear H2 G.
  mbind H mo s3 H3. apply get_node_ok in H3. destruct H3 as [-> Hmo].
  pose proof (proj2 (wf_node _ (g_wf _ _ G2) _ _ Hmo)) as Varr.
  destruct (is_exact r _); [destruct (n_route mo) as [rt|]|]; try (apply ret_ok in H; destruct H as [_ ->]; fin).
  meta1 H G2 E0.
  mbind H mch s3 H3. apply get_arr_ok in H3. destruct H3 as [-> Hmch].
  destruct mch as [|c [|c2 mch]].
  - (* no children: rebuild the parent *)
    mbind H p s3 H3. apply opt_get_ok in H3. destruct H3 as [Hp ->]. rewrite Hp in Op. simpl in Op.
    mbind H po s3 H3. apply get_node_ok in H3. destruct H3 as [-> Hpo].
    mbind H pe s3 H3. destruct (recreate_parent_edge_ok _ _ _ _ _ G2 H3) as (G3 & E3 & V3 & L3). clear H3 G2. chain E0 E3.
    mbind H rs' s4 H4. destruct (get_roots_ok _ _ _ G3 H4) as [-> F']. clear H4.
    mbind H cur_root s4 H4. apply opt_get_ok in H4. destruct H4 as [Hcr ->].
    mbind H pel s4 H4. apply get_arr_ok in H4. destruct H4 as [-> Hpel].
    destruct (is_nil pel && negb (is_some (n_route po)) && negb (Pos.eqb p cur_root))%bool.
    + mbind H pp s4 H4. apply opt_get_ok in H4. destruct H4 as [Hpp ->]. rewrite Hpp in Opp. simpl in Opp.
      mbind H ppo s4 H4. apply get_node_ok in H4. destruct H4 as [-> Hppo].
      mbind H pe2 s4 H4. destruct (recreate_parent_edge_ok _ _ _ _ _ G3 H4) as (G4 & E4 & V4 & L4). clear H4 G3. chain E0 E4.
      mbind H parent s5 H5. destruct (rebuild_parent_ok _ _ _ _ _ _ _ G4 L4 H5) as (G5 & E5 & V5 & L5 & O5). clear H5 G4. chain E0 E5.
      destruct (Pos.eqb pp cur_root); simpl in O5.
      * mbind H b s6 H6. destruct (finish_root_ok _ _ _ _ _ G5 (O5 eq_refl) H6) as (G6 & E6). clear H6 G5. chain E0 E6.
        apply ret_ok in H. destruct H as [_ ->]. fin.
      * destruct (patch_ok _ _ _ _ _ _ G5 Oppp V5 H) as (G6 & E6). split; auto. eapply ext_trans; eauto.
    + mbind H parent s5 H5. destruct (rebuild_parent_ok _ _ _ _ _ _ _ G3 L3 H5) as (G5 & E5 & V5 & L5 & O5). clear H5 G3. chain E0 E5.
      destruct (Pos.eqb p cur_root); simpl in O5.
      * mbind H b s6 H6. destruct (finish_root_ok _ _ _ _ _ G5 (O5 eq_refl) H6) as (G6 & E6). clear H6 G5. chain E0 E6.
        apply ret_ok in H. destruct H as [_ ->]. fin.
      * destruct (patch_ok _ _ _ _ _ _ G5 Opp V5 H) as (G6 & E6). split; auto. eapply ext_trans; eauto.
  - (* one child: merge *)
    mbind H co s3 H3. apply get_node_ok in H3. destruct H3 as [-> Hco].
    pose proof (proj2 (wf_node _ (g_wf _ _ G2) _ _ Hco)) as Varr2.
    mbind H n s3 H3. destruct (new_node_from_ref_ok _ _ _ _ _ _ G2 Varr2 H3) as (G3 & E3 & V3 & _). clear H3 G2. chain E0 E3.
    destruct (patch_ok _ _ _ _ _ _ G3 Op V3 H) as (G4 & E4). split; auto. eapply ext_trans; eauto.
  - (* several children: keep the node without its route *)
    mbind H n s3 H3. destruct (new_node_from_ref_ok _ _ _ _ _ _ G2 Varr H3) as (G3 & E3 & V3 & _). clear H3 G2. chain E0 E3.
    destruct (patch_ok _ _ _ _ _ _ G3 Op V3 H) as (G4 & E4). split; auto. eapply ext_trans; eauto.
Qed.

(* ---------- truncate ---------- *)
Lemma h_routes_ok fuel : forall a s r s', h_routes fuel a s = Ok (r, s') -> s' = s.
Proof.
  induction fuel as [|f IH]; intros a s r s' H; simpl in H; [discriminate|].
  mbind H o s1 H1. apply get_node_ok in H1. destruct H1 as [-> _].
  mbind H ch s1 H1. apply get_arr_ok in H1. destruct H1 as [-> _].
  mbind H rs s1 H1.
  assert (s1 = s).
  { clear H. revert rs s1 H1. induction ch as [|x t IHt]; intros rs s1 H1.
    - apply ret_ok in H1. tauto.
    - mbind H1 r0 s2 H2. apply IH in H2. subst s2. mbind H1 more s3 H3. apply IHt in H3. subst s3.
      apply ret_ok in H1. tauto. }
  subst s1. apply ret_ok in H. tauto.
Qed.

Lemma new_empty_root_ok k s a s' :
  good s -> new_empty_root k s = Ok (a, s') -> good s' /\ ext s s' /\ V s' a.
Proof.
  intros G H. unfold new_empty_root in H.
  mbind H e s1 H1. destruct (alloc_arr_ok [] _ _ _ G (Forall_nil _) H1) as (G1 & E0 & V1 & L1 & _). clear H1.
  pose proof (fun pf => alloc_node_ok _ _ _ _ G1 pf H) as X. simpl in X.
  destruct (X V1) as (G2 & E2 & V2 & _). split; auto. split; auto. eapply ext_trans; eauto.
Qed.

Lemma trunc_loop_ok fuel nr methods : forall s u s',
  good s -> mark <= nr -> trunc_loop fuel nr methods s = Ok (u, s') -> good s' /\ ext s s'.
Proof.
  induction methods as [|m more IH]; intros s u s' G Ln H; simpl in H.
  - apply ret_ok in H. destruct H as [_ ->]. fin.
  - mbind H idx s1 H1. apply method_index_at_ok in H1. subst s1.
    destruct idx as [i|]; [|eauto].
    mbind H l s1 H1. apply get_arr_ok in H1. destruct H1 as [-> Hl].
    pose proof (proj2 (wf_arr _ (g_wf _ _ G) _ _ Hl)) as Fl.
    mbind H root s1 H1. apply opt_get_ok in H1. destruct H1 as [Hroot ->].
    mbind H rts s1 H1. apply h_routes_ok in H1. subst s1.
    pose proof (ext_refl mark s) as E0.
    meta1 H G E0.
    mbind H w1 s2 H2.
    assert (X : good s2 /\ HeapProofs.ext mark ms s2).
    { destruct (negb (is_removable m)).
      - mbind H2 nn s3 H3. destruct (new_empty_root_ok _ _ _ _ G H3) as (G3 & E3 & V3).
        destruct (write_slot_ok _ _ _ _ _ _ G3 Ln V3 H2) as (G4 & E4). split; auto. eapply ext_trans; eauto.
      - eapply (write_arr_ok nr (del_nth l i)); eauto. apply Forall_del_nth; auto. }
    destruct X as (G2 & E2). chain E0 E2.
    destruct (IH _ _ _ G2 Ln H) as (G3 & E3). split; auto. eapply ext_trans; eauto.
Qed.

Lemma new_empty_roots_ok ks : forall s l s',
  good s -> new_empty_roots ks s = Ok (l, s') -> good s' /\ ext s s' /\ Forall (V s') l.
Proof.
  induction ks as [|k r IH]; intros s l s' G H; simpl in H.
  - apply ret_ok in H. destruct H as [-> ->]. fin.
  - mbind H a s1 H1. destruct (new_empty_root_ok _ _ _ _ G H1) as (G1 & E0 & V1). clear H1.
    mbind H more s2 H2. destruct (IH _ _ _ G1 H2) as (G2 & E2 & F2). clear H2. chain E0 E2.
    apply ret_ok in H. destruct H as [-> ->]. fin.
Qed.

Lemma h_truncate_ok fuel methods s u s' :
  good s -> h_truncate fuel methods s = Ok (u, s') -> good s' /\ ext s s'.
Proof.
  intros G H. unfold h_truncate in H.
  assert (Hne : forall s u s', good s ->
     (rs <- get_roots ;; nr <- alloc_arr rs ;; trunc_loop fuel nr methods ;;; set_root nr) s = Ok (u, s') ->
     good s' /\ HeapProofs.ext mark s s').
  { clear. intros s u s' G H.
    mbind H rs s1 H1. destruct (get_roots_ok _ _ _ G H1) as [-> F]. clear H1.
    mbind H nr s1 H1. destruct (alloc_arr_ok _ _ _ _ G F H1) as (G1 & E0 & V1 & L1 & _). clear H1.
    mbind H w1 s2 H2. destruct (trunc_loop_ok _ _ _ _ _ _ G1 L1 H2) as (G2 & E2). clear H2. chain E0 E2.
    destruct (set_root_ok _ _ _ _ G2 V1 H) as (G3 & E3). split; auto. eapply ext_trans; eauto. }
  destruct methods as [|m ms]; [|eauto].
  mbind H l s1 H1. destruct (new_empty_roots_ok _ _ _ _ G H1) as (G1 & E0 & F1). clear H1.
  mbind H nr s2 H2. destruct (alloc_arr_ok _ _ _ _ G1 F1 H2) as (G2 & E2 & V2 & L2 & _). clear H2. chain E0 E2.
  mbind H w1 s3 H3. destruct (set_root_ok _ _ _ _ G2 V2 H3) as (G3 & E3). clear H3. chain E0 E3.
  destruct (put_size_ok _ _ _ _ G3 H) as (G4 & E4). split; auto. eapply ext_trans; eauto.
Qed.

(* ---------- one operation of a write transaction ---------- *)
Lemma run_op_ok fuel o s res s' :
  good s -> run_op evict fuel o s = Ok (res, s') -> good s' /\ ext s s'.
Proof.
  intros G H. destruct o as [m pat valid psl hs rid|m pat valid psl hs rid|m pat valid|ms]; simpl in H.
  - destruct (negb (valid_method_handle m) || negb valid)%bool.
    + apply ret_ok in H. destruct H as [_ ->]. fin.
    + mbind H out s1 H1. destruct (h_insert_ok _ _ _ _ _ G H1) as (G1 & E1).
      destruct out as [|p|a].
      * apply ret_ok in H. destruct H as [_ ->]. fin.
      * apply ret_ok in H. destruct H as [_ ->]. fin.
      * mbind H rts s2 H2. apply h_routes_ok in H2. subst s2. apply ret_ok in H. destruct H as [_ ->]. fin.
  - destruct (is_nil m || negb valid)%bool.
    + apply ret_ok in H. destruct H as [_ ->]. fin.
    + mbind H b s1 H1. destruct (h_update_ok _ _ _ _ _ G H1) as (G1 & E1).
      apply ret_ok in H. destruct H as [_ ->]. fin.
  - destruct (is_nil m || negb valid)%bool.
    + apply ret_ok in H. destruct H as [_ ->]. fin.
    + mbind H r s1 H1. destruct (h_remove_ok _ _ _ _ _ G H1) as (G1 & E1).
      destruct r; apply ret_ok in H; destruct H as [_ ->]; fin.
  - mbind H u s1 H1. destruct (h_truncate_ok _ _ _ _ _ G H1) as (G1 & E1).
    apply ret_ok in H. destruct H as [_ ->]. fin.
Qed.

End Inv.

(* ================= Part 2: histories ================= *)

(* objects below m only point below m *)
Definition closed (m : addr) (s : st) : Prop :=
  (forall a o, a < m -> find_node s a = Some o -> n_arr o < m) /\
  (forall a l, a < m -> find_arr s a = Some l -> Forall (fun x => x < m) l).

Lemma closed_of_wf s : wf s -> closed (s_next s) s.
Proof.
  intros W. split.
  - intros a o _ H. apply (wf_node _ W _ _ H).
  - intros a l _ H. apply (wf_arr _ W _ _ H).
Qed.

Lemma closed_ext m s s' : closed m s -> ext m s s' -> closed m s'.
Proof.
  intros [C1 C2] E. split.
  - intros a o L H. rewrite (e_node _ _ _ E) in H by auto. eauto.
  - intros a l L H. rewrite (e_arr _ _ _ E) in H by auto. eauto.
Qed.

Lemma abs_node_frozen m s s' : closed m s -> ext m s s' ->
  forall f a, a < m -> abs_node f s' a = abs_node f s a.
Proof.
  intros [C1 C2] E. induction f as [|f IH]; intros a L; simpl; auto.
  rewrite (e_node _ _ _ E) by auto.
  destruct (find_node s a) as [o|] eqn:Ho; auto.
  pose proof (C1 _ _ L Ho) as La.
  rewrite (e_arr _ _ _ E) by auto.
  destruct (find_arr s (n_arr o)) as [ch|] eqn:Hch; auto.
  pose proof (C2 _ _ La Hch) as Fch.
  match goal with |- match ?x with _ => _ end = match ?y with _ => _ end => assert (X : x = y) end.
  { clear Hch. induction Fch as [|x t Hx Ft IHt]; auto. rewrite IH by auto. rewrite IHt. auto. }
  rewrite X. auto.
Qed.

Lemma abs_frozen m s s' f r : closed m s -> ext m s s' -> r < m -> abs f s' r = abs f s r.
Proof.
  intros C E L. unfold abs. rewrite (e_arr _ _ _ E) by auto.
  destruct (find_arr s r) as [l|] eqn:Hl; auto.
  pose proof (proj2 C _ _ L Hl) as Fl. clear Hl.
  induction Fl as [|x t Hx Ft IHt]; simpl; auto.
  rewrite (abs_node_frozen m s s' C E) by auto. rewrite IHt. auto.
Qed.

Record winv (m : addr) (w : world) : Prop := {
  wi_good : good m (w_st w);
  wi_closed : closed m (w_st w);
  wi_pub : p_root (w_pub w) < m;
  wi_handed : Forall (fun r => r < m) (w_handed w) }.

(* a new mark at a point where the writable set is empty *)
Lemma good_remark m s : good m s -> s_wr s = [] -> good (s_next s) s.
Proof. intros [W M Wr] Hw. constructor; auto. - lia. - rewrite Hw. auto. Qed.

Lemma good_reset_wr m s : good m s -> good m (reset_wr s) /\ ext m s (reset_wr s).
Proof. intros G. unfold reset_wr. apply good_set_wr; auto. Qed.

Lemma Forall_lt_weaken (m m' : addr) l : m <= m' -> Forall (fun r => r < m) l -> Forall (fun r => r < m') l.
Proof. intros L F. eapply Forall_impl; [|exact F]. simpl. intros; lia. Qed.

Lemma good_begin m s p c : good m s -> p_root p < m -> good m (begin_st s p c) /\ ext m s (begin_st s p c).
Proof.
  intros [W M Wr] L. split.
  - constructor; simpl; auto. destruct W as [wn wa wr]. constructor; auto. unfold V in *. simpl. lia.
  - apply ext_same_heap; auto.
Qed.

(* re-mark at the allocation pointer: a snapshot point *)
Lemma winv_remark m s pub handed opn :
  good m s -> s_wr s = [] -> p_root pub < s_next s -> Forall (fun r => r < s_next s) handed ->
  winv (s_next s) {| w_st := s; w_pub := pub; w_open := opn; w_handed := handed |}.
Proof.
  intros G Hw Lp Fh. constructor; simpl; auto.
  - eapply good_remark; eauto.
  - apply closed_of_wf. apply (g_wf _ _ G).
Qed.

Section Hist.
Variable evict : N -> list addr -> list addr.
Hypothesis evict_sub : forall c w a, In a (evict c w) -> In a w.
Variable fuel : nat.

Lemma step_inv m w e : winv m w ->
  exists m', m <= m' /\ winv m' (fst (fst (step evict fuel true w e))) /\
             ext m (w_st w) (w_st (fst (fst (step evict fuel true w e)))) /\
             (forall r, In r (w_handed w) -> In r (w_handed (fst (fst (step evict fuel true w e))))).
Proof.
  intros [G C Lp Fh]. destruct w as [s pub opn handed]. simpl in *.
  pose proof (g_mark _ _ G) as Mn.
  assert (Same : exists m', m <= m' /\ winv m' {| w_st := s; w_pub := pub; w_open := opn; w_handed := handed |} /\
                 ext m s s /\ (forall r, In r handed -> In r handed)).
  { exists m. split; [lia|]. split; [constructor; auto|]. split; [apply ext_refl|auto]. }
  destruct e as [| | |o|o| | |]; simpl.
  - (* EBegin *)
    destruct opn; simpl; auto.
    destruct (good_begin m s pub true G Lp) as (G1 & E1).
    exists m. split; [lia|]. split; [|split; auto].
    constructor; simpl; auto; try (eapply closed_ext; eauto).
  - (* ECommit *)
    destruct opn; simpl; auto.
    destruct (good_reset_wr m s G) as (G1 & E1).
    exists (s_next (reset_wr s)). split; [simpl; lia|]. split; [|split; auto].
    apply winv_remark with (m := m); simpl; auto.
    + apply (wf_root _ (g_wf _ _ G)).
    + eapply Forall_lt_weaken; [|exact Fh]. lia.
  - (* EAbort *)
    exists m. split; [lia|]. split; [constructor; auto|]. split; [apply ext_refl|auto].
  - (* EOp *)
    destruct opn; simpl; auto.
    destruct (run_op evict fuel o s) as [[[out rm] s']| |] eqn:R; simpl; auto.
    destruct (run_op_ok evict evict_sub m fuel o s _ _ G R) as (G1 & E1).
    exists m. split; [lia|]. split; [|split; auto].
    constructor; simpl; auto; try (eapply closed_ext; eauto).
  - (* EDirect *)
    destruct opn; simpl; auto.
    destruct (good_begin m s pub (direct_cache o) G Lp) as (G0 & E0).
    destruct (run_op evict fuel o (begin_st s pub (direct_cache o))) as [[[out rm] s']| |] eqn:R; simpl; auto.
    destruct (run_op_ok evict evict_sub m fuel o _ _ _ G0 R) as (G1 & E1).
    assert (E : ext m s s') by (eapply ext_trans; eauto).
    assert (Keep : exists m', m <= m' /\ winv m' {| w_st := s'; w_pub := pub; w_open := false; w_handed := handed |} /\
                   ext m s s' /\ (forall r, In r handed -> In r handed)).
    { exists m. split; [lia|]. split; [|split; auto]. constructor; simpl; auto; try (eapply closed_ext; eauto). }
    destruct out; simpl; auto.
    destruct (good_reset_wr m s' G1) as (G2 & E2).
    exists (s_next (reset_wr s')). pose proof (g_mark _ _ G1). split; [simpl; lia|]. split; [|split; auto].
    + apply winv_remark with (m := m); simpl; auto.
      * apply (wf_root _ (g_wf _ _ G1)).
      * eapply Forall_lt_weaken; [|exact Fh]. lia.
    + eapply ext_trans; eauto.
  - (* ESnapIter *)
    destruct opn; simpl; auto.
    destruct (good_reset_wr m s G) as (G1 & E1).
    exists (s_next (reset_wr s)). split; [simpl; lia|]. split; [|split; auto].
    + apply winv_remark with (m := m); simpl; auto.
      * lia.
      * apply Forall_app. split; [eapply Forall_lt_weaken; [|exact Fh]; lia|].
        constructor; auto. apply (wf_root _ (g_wf _ _ G)).
    + intros r Hr. apply in_or_app. auto.
  - (* ESnapClone *)
    destruct opn; simpl; auto.
    destruct (good_reset_wr m s G) as (G1 & E1).
    exists (s_next (reset_wr s)). split; [simpl; lia|]. split; [|split; auto].
    + apply winv_remark with (m := m); simpl; auto.
      * lia.
      * apply Forall_app. split; [eapply Forall_lt_weaken; [|exact Fh]; lia|].
        constructor; auto. apply (wf_root _ (g_wf _ _ G)).
    + intros r Hr. apply in_or_app. auto.
  - (* EObsPub *)
    exists m. split; [lia|]. split; [|split; [apply ext_refl|]].
    + constructor; simpl; auto. apply Forall_app. auto.
    + intros r Hr. apply in_or_app. auto.
Qed.

Lemma run_inv es : forall m w, winv m w ->
  exists m', m <= m' /\ winv m' (run evict fuel true w es) /\
             ext m (w_st w) (w_st (run evict fuel true w es)) /\
             (forall r, In r (w_handed w) -> In r (w_handed (run evict fuel true w es))).
Proof.
  induction es as [|e r IH]; intros m w I; simpl.
  - exists m. split; [lia|]. split; auto. split; [apply ext_refl|auto].
  - destruct (step_inv m w e I) as (m1 & L1 & I1 & E1 & H1).
    destruct (IH _ _ I1) as (m2 & L2 & I2 & E2 & H2).
    exists m2. split; [lia|]. split; auto. split; auto.
    eapply ext_trans; [exact E1|]. eapply ext_weaken; eauto.
Qed.

End Hist.

(* ---------- the initial router ---------- *)
Lemma init_run :
  (l <- new_empty_roots common_verbs ;; nr <- alloc_arr l ;; set_root nr) empty_st = Ok (tt, init_st).
Proof. vm_compute. reflexivity. Qed.

Lemma good_empty : good 1 empty_st.
Proof.
  constructor; simpl; auto; try lia. constructor; unfold V, find_node, find_arr; simpl.
  - intros a o H. rewrite PM.gempty in H. discriminate.
  - intros a l H. rewrite PM.gempty in H. discriminate.
  - lia.
Qed.

Lemma good_init : good 1 init_st.
Proof.
  pose proof init_run as H.
  mbind H l s1 H1. destruct (new_empty_roots_ok 1 _ _ _ _ good_empty H1) as (G1 & E1 & F1).
  mbind H nr s2 H2. destruct (alloc_arr_ok 1 _ _ _ _ G1 F1 H2) as (G2 & E2 & V2 & _).
  destruct (set_root_ok 1 _ _ _ _ G2 V2 H) as (G3 & _). exact G3.
Qed.

Lemma winv_init : winv (s_next init_st) init_world.
Proof.
  unfold init_world. apply winv_remark with (m := 1); auto.
  - apply good_init.
  - simpl. apply (wf_root _ (g_wf _ _ good_init)).
Qed.

(* ================= the theorems of C03 (statements repeated in Props_C03.v) ================= *)

Definition evict_ok (evict : N -> list addr -> list addr) : Prop := forall c w a, In a (evict c w) -> In a w.

(* ownership invariant, one operation: nothing allocated before the mark changes, and every
   in-place write (log) targets an address at or after the mark *)
Theorem writes_only_fresh_op evict fuel mark o s res s' :
  evict_ok evict -> good mark s -> run_op evict fuel o s = Ok (res, s') ->
  good mark s' /\
  (forall a, a < mark -> find_node s' a = find_node s a /\ find_arr s' a = find_arr s a) /\
  (exists l, s_log s' = (l ++ s_log s)%list /\ Forall (fun t => mark <= t) l).
Proof.
  intros Hev G H. destruct (run_op_ok evict Hev mark fuel o s res s' G H) as (G1 & E1).
  split; auto. split.
  - intros a L. split; [apply (e_node _ _ _ E1)|apply (e_arr _ _ _ E1)]; auto.
  - apply (e_log _ _ _ E1).
Qed.

(* histories: at any point there is a mark m (the allocation pointer at the last snapshot point) such
   that every roots array handed out so far and everything reachable from it lies below m, and every
   later in-place write targets an address >= m *)
Theorem writes_only_fresh_hist evict fuel es1 es2 :
  evict_ok evict ->
  let w1 := run evict fuel true init_world es1 in
  let w2 := run evict fuel true w1 es2 in
  exists m, Forall (fun r => r < m) (w_handed w1) /\ closed m (w_st w1) /\
            exists l, s_log (w_st w2) = (l ++ s_log (w_st w1))%list /\ Forall (fun t => m <= t) l.
Proof.
  intros Hev w1 w2.
  destruct (run_inv evict Hev fuel es1 _ _ winv_init) as (m1 & L1 & I1 & _ & _).
  destruct (run_inv evict Hev fuel es2 _ _ I1) as (m2 & L2 & I2 & E2 & _).
  exists m1. split; [apply (wi_handed _ _ I1)|]. split; [apply (wi_closed _ _ I1)|]. apply (e_log _ _ _ E2).
Qed.

Theorem snapshot_frozen_thm evict fuel es1 es2 r f :
  evict_ok evict ->
  let w1 := run evict fuel true init_world es1 in
  let w2 := run evict fuel true w1 es2 in
  In r (w_handed w1) -> abs f (w_st w2) r = abs f (w_st w1) r.
Proof.
  intros Hev w1 w2 Hr.
  destruct (run_inv evict Hev fuel es1 _ _ winv_init) as (m1 & L1 & I1 & _ & _).
  destruct (run_inv evict Hev fuel es2 _ _ I1) as (m2 & L2 & I2 & E2 & _).
  eapply abs_frozen; [apply (wi_closed _ _ I1)|exact E2|].
  pose proof (wi_handed _ _ I1) as F. rewrite Forall_forall in F. auto.
Qed.

Lemma run_app evict fuel b w es1 es2 : run evict fuel b w (es1 ++ es2) = run evict fuel b (run evict fuel b w es1) es2.
Proof. revert w. induction es1 as [|e r IH]; intros w; simpl; auto. Qed.

(* the list of handed-out roots is only a record: it does not influence the run *)
Definition same_core (w w' : world) : Prop := w_st w = w_st w' /\ w_pub w = w_pub w' /\ w_open w = w_open w'.

Lemma step_core evict fuel b w w' e : same_core w w' ->
  same_core (fst (fst (step evict fuel b w e))) (fst (fst (step evict fuel b w' e))).
Proof.
  intros (Hs & Hp & Ho). destruct w as [s p o h], w' as [s' p' o' h']. simpl in *. subst s' p' o'.
  unfold same_core. destruct e; simpl; try (destruct o; simpl); auto;
    repeat match goal with |- context [match ?x with _ => _ end] => destruct x; simpl; auto end.
Qed.

Lemma run_core evict fuel b es : forall w w', same_core w w' ->
  same_core (run evict fuel b w es) (run evict fuel b w' es).
Proof. induction es as [|e r IH]; intros w w' H; simpl; auto. apply IH. apply step_core. auto. Qed.

(* the published tree at any point is such a snapshot (what requests are served from) *)
Theorem published_frozen_thm evict fuel es1 es2 f :
  evict_ok evict ->
  let w1 := run evict fuel true init_world es1 in
  let w2 := run evict fuel true w1 es2 in
  abs f (w_st w2) (p_root (w_pub w1)) = abs f (w_st w1) (p_root (w_pub w1)).
Proof.
  intros Hev w1 w2.
  pose proof (snapshot_frozen_thm evict fuel (es1 ++ [EObsPub]) es2 (p_root (w_pub w1)) f Hev) as H.
  rewrite run_app in H. simpl in H. fold w1 in H.
  match type of H with _ -> abs _ (w_st (run _ _ _ ?w _)) _ = _ =>
    assert (C : same_core w w1) by (unfold same_core; simpl; auto) end.
  apply (run_core evict fuel true es2) in C. destruct C as (Cs & _). fold w2 in Cs.
  rewrite Cs in H. apply H. apply in_or_app. simpl. auto.
Qed.

(* the roots of the open write transaction at any point, IF a snapshot is taken there *)

(* ---------- what the reset protects against ----------
   The same model WITHOUT `t.writable = nil` in snapshot(): Begin; Handle GET /a; Iter(); Handle GET /b.
   The second Handle finds the new GET root in the writable set and patches its children array in
   place; the Iter taken in between now shows /b as well. *)
Definition refute_hist1 : list ev :=
  [EBegin; EOp (WHandle m_get (S2B "/a") true 0 0 1); ESnapIter].
Definition refute_hist2 : list ev := [EOp (WHandle m_get (S2B "/b") true 0 0 2)].

Example snapshot_frozen_needs_reset :
  let ev := lru_evict 10 in
  let w1 := run ev 10 false init_world refute_hist1 in
  let w2 := run ev 10 false w1 refute_hist2 in
  exists r, In r (w_handed w1) /\ abs 10 (w_st w2) r <> abs 10 (w_st w1) r.
Proof.
  intros ev w1 w2. exists (s_root (w_st w1)). split.
  - vm_compute. left. reflexivity.
  - vm_compute. discriminate.
Qed.

(* and the same history with the code as it is keeps the snapshot (non-vacuity of the theorem) *)
Example snapshot_frozen_example :
  let ev := lru_evict 10 in
  let w1 := run ev 10 true init_world refute_hist1 in
  let w2 := run ev 10 true w1 refute_hist2 in
  w_handed w1 <> [] /\ abs 10 (w_st w2) (s_root (w_st w1)) = abs 10 (w_st w1) (s_root (w_st w1)) /\
  abs 10 (w_st w2) (s_root (w_st w2)) <> abs 10 (w_st w1) (s_root (w_st w1)).
Proof. vm_compute. split; [discriminate|]. split; [reflexivity|discriminate]. Qed.

Lemma lru_evict_ok cap : evict_ok (lru_evict cap).
Proof.
  unfold evict_ok, lru_evict. intros _ w a H. revert w H. induction cap as [|n IH]; intros [|x w]; simpl; try tauto.
  intros [->|H]; auto.
Qed.
